(* Text/Nested.v -- executable model of src/parse/nested.rs (parse_args, get_name, get_range, file_in_edit,
   file_in_edit_family, edit_remove_active_file_args, is_active on the scanned attribute text) on ASCII text.
   `None` stands for a Rust panic / abort (index out of range, usize underflow, slice out of range, abort_call_site).
   No proofs in this file (NestedThm.v). *)
From Coq Require Import List String Ascii Arith Bool.
Import ListNotations.
From IT Require Import Text.Atp.

Record narg := mkarg { a_depth : nat; a_start : nat; a_equal : option nat; a_open : option nat;
                       a_close : option nat; a_end : nat; a_comma : option nat }.

Definition arg_new (depth start : nat) : narg := mkarg depth start None None None 0 None.
Definition arg0 : narg := mkarg 0 0 None None None 0 None.   (* NestedArgument::new(0,0): end = start = 0 *)

Definition set_open (i : nat) (a : narg) := mkarg (a_depth a) (a_start a) (a_equal a) (Some i) (a_close a) (a_end a) (a_comma a).
Definition set_close (i : nat) (a : narg) := mkarg (a_depth a) (a_start a) (a_equal a) (a_open a) (Some i) (a_end a) (a_comma a).
Definition set_equal (i : nat) (a : narg) := mkarg (a_depth a) (a_start a) (Some i) (a_open a) (a_close a) (a_end a) (a_comma a).
Definition set_end (i : nat) (a : narg) := mkarg (a_depth a) (a_start a) (a_equal a) (a_open a) (a_close a) i (a_comma a).
Definition set_comma (i : nat) (a : narg) := mkarg (a_depth a) (a_start a) (a_equal a) (a_open a) (a_close a) (a_end a) (Some i).

(* loc[n] = f(loc[n]) ; None = index out of bounds *)
Definition upd {A : Type} (n : nat) (f : A -> A) (l : list A) : option (list A) :=
  match nth_error l n with
  | Some x => Some (firstn n l ++ f x :: skipn (S n) l)
  | None => None
  end.

Definition pstate := (nat * list narg * list narg)%type.   (* depth, loc, args *)

Definition c_open : ascii := "("%char.
Definition c_close : ascii := ")"%char.
Definition c_equal : ascii := "="%char.

Definition pa_step (i : nat) (c : ascii) (st : pstate) : option pstate :=
  let '(depth, loc, args) := st in
  if Ascii.eqb c c_open then
    match upd depth (set_open i) loc with
    | Some loc' => Some (S depth, loc' ++ [arg_new (S depth) (S i)], args)
    | None => None
    end
  else if Ascii.eqb c c_close then
    match upd depth (set_end i) loc with
    | Some loc' =>
      match depth with
      | 0 => None
      | S d => match upd d (set_close i) loc' with
               | Some loc'' => Some (d, loc'', args)
               | None => None
               end
      end
    | None => None
    end
  else if Ascii.eqb c c_equal then
    match upd depth (set_equal i) loc with
    | Some loc' => Some (depth, loc', args)
    | None => None
    end
  else if Ascii.eqb c c_comma then
    match upd depth (fun a => set_comma i (set_end i a)) loc with
    | Some loc' => Some (depth, firstn depth loc' ++ [arg_new depth (S i)], args ++ rev (skipn depth loc'))
    | None => None
    end
  else Some st.

Fixpoint pa_loop (i : nat) (s : str) (st : pstate) : option pstate :=
  match s with
  | [] => Some st
  | c :: r => match pa_step i c st with
              | Some st' => pa_loop (S i) r st'
              | None => None
              end
  end.

Definition parse_args (s : str) : option (list narg) :=
  match pa_loop 0 s (0, [arg0], []) with
  | Some (_, loc, args) => Some (loc ++ args)
  | None => None
  end.

Definition is_list (a : narg) : bool :=
  match a_open a, a_close a with Some _, Some _ => true | _, _ => false end.
Definition is_key_value (a : narg) : bool := match a_equal a with Some _ => true | None => false end.

(* &s[a..b] ; None = panic *)
Definition slice (a b : nat) (s : str) : option str :=
  if Nat.leb a b && Nat.leb b (List.length s) then Some (firstn (b - a) (skipn a s)) else None.

Definition is_ws (c : ascii) : bool :=
  let n := nat_of_ascii c in (Nat.leb 9 n && Nat.leb n 13) || Nat.eqb n 32.

Fixpoint trim_start (s : str) : str :=
  match s with
  | c :: r => if is_ws c then trim_start r else s
  | [] => []
  end.
Definition trim (s : str) : str := rev (trim_start (rev (trim_start s))).
Definition remove_spaces (s : str) : str := filter (fun c => negb (Ascii.eqb c sp)) s.

Definition get_name (s : str) (a : narg) : option str :=
  let e := if is_list a then match a_open a with Some o => o | None => 0 end
           else if is_key_value a then match a_equal a with Some q => q | None => 0 end
           else a_end a in
  match slice (a_start a) e s with
  | Some t => Some (remove_spaces (trim t))
  | None => None
  end.

Definition k_file : str := s2l "file".
Definition k_edit : str := s2l "edit".

Definition range := (nat * nat * nat)%type.   (* sort key, lo, hi (exclusive) *)

(* str::trim_end *)
Fixpoint trim_end (s : str) : str :=
  match s with
  | [] => []
  | c :: r => match trim_end r with
              | [] => if is_ws c then [] else [c]
              | r' => c :: r'
              end
  end.
Definition ends_with_comma (t : str) : bool :=
  match rev t with x :: _ => Ascii.eqb x c_comma | [] => false end.

(* where the tail range of a `file( .. )` group starts: at a trailing comma inside the group, else at the `)` *)
Definition tail_start (s : str) (o c : nat) : nat :=
  match slice (S o) c s with          (* attr_str.get(open+1..close) *)
  | Some inner => let t := trim_end inner in if ends_with_comma t then o + List.length t else c
  | None => c
  end.

Definition get_range (s : str) (n : narg) : option (list range) :=
  if is_list n then
    match a_open n, a_close n with
    | Some o, Some c =>
      match get_name s n with
      | Some nm =>
        if str_eqb nm k_file then
          match slice (a_start n) (S o) s with
          | Some t => match find_sub k_file t with
                      | Some fs => let fs' := fs + a_start n in
                                   let ts := tail_start s o c in Some [(fs', fs', S o); (ts, ts, S c)]
                      | None => None
                      end
          | None => None
          end
        else Some [(o, o, S c)]
      | None => None
      end
    | _, _ => None
    end
  else
    match a_comma n with
    | Some cm => Some [(a_start n, a_start n, S cm)]
    | None => Some [(a_start n, a_start n, a_end n)]
    end.

Fixpoint opt_concat {A : Type} (l : list (option (list A))) : option (list A) :=
  match l with
  | [] => Some []
  | None :: _ => None
  | Some x :: r => match opt_concat r with Some y => Some (x ++ y) | None => None end
  end.

(* attr_str[a..b].trim().is_empty() ; an out-of-range slice (a Rust panic) counts as "not blank": inside fie_pick the
   slice is always in range when `en` is a recorded `)` (NestedThm.closes_slice_in_range) *)
Definition blank_between (s : str) (a b : nat) : bool :=
  match slice a b s with
  | Some t => match trim t with [] => true | _ :: _ => false end
  | None => false
  end.

(* `edit(file)` or, with a trailing comma, `edit(file,)`:
   n.end == end || ( n.comma == Some(n.end) && attr_str[n.end+1..end].trim().is_empty() ) *)
Definition closes (s : str) (n : narg) (en : nat) : bool :=
  Nat.eqb (a_end n) en ||
  (match a_comma n with Some cm => Nat.eqb cm (a_end n) | None => false end && blank_between s (S (a_end n)) en).

(* one filter_map step of file_in_edit: None = panic, Some None = filtered out *)
Definition fie_pick (s : str) (e : narg) (st en : nat) (n : narg) : option (option narg) :=
  if Nat.ltb st (a_start n) && Nat.leb (a_end n) en then
    match get_name s n with
    | Some nm =>
      if str_eqb nm k_file then
        if is_list n then Some (Some n)
        else match a_open e with
             | Some eo =>
               if Nat.eqb (a_depth n) (a_depth e + 1) && closes s n en && Nat.eqb eo (a_start n - 1)
               then Some (Some e) else Some None
             | None => if Nat.eqb (a_depth n) (a_depth e + 1) && closes s n en then None else Some None
             end
      else Some None
    | None => None
    end
  else Some None.

Fixpoint fie_filter (s : str) (e : narg) (st en : nat) (l : list narg) : option (list narg) :=
  match l with
  | [] => Some []
  | n :: r =>
    match fie_pick s e st en n with
    | None => None
    | Some x => match fie_filter s e st en r with
                | Some y => Some (match x with Some f => f :: y | None => y end)
                | None => None
                end
    end
  end.

Definition file_in_edit (s : str) (args : list narg) (e : narg) : option (list range) :=
  match a_close e with
  | Some en =>
    match fie_filter s e (a_start e) en args with
    | Some files => opt_concat (map (get_range s) files)
    | None => None
    end
  | None => None
  end.

Fixpoint insert_range (r : range) (l : list range) : list range :=
  match l with
  | [] => [r]
  | x :: t => if Nat.leb (fst (fst r)) (fst (fst x)) then r :: l else x :: insert_range r t
  end.
(* stable sort by key, as Vec::sort_by *)
Definition sort_ranges (l : list range) : list range := fold_right insert_range [] l.

Definition fief_here (s : str) (all : list narg) (a : narg) : option (list range) :=
  if is_list a then
    match get_name s a with
    | Some nm => if str_eqb nm k_edit && Nat.ltb (a_depth a) 3 then file_in_edit s all a else Some []
    | None => None
    end
  else Some [].

Fixpoint fief_loop (s : str) (all l : list narg) : option (list range) :=
  match l with
  | [] => Some []
  | a :: r =>
    match fief_here s all a, fief_loop s all r with
    | Some x, Some y => Some (x ++ y)
    | _, _ => None
    end
  end.

Definition file_in_edit_family (s : str) (args : list narg) : option (list range) :=
  match fief_loop s args args with
  | Some rs => Some (sort_ranges rs)
  | None => None
  end.

Definition file_ranges (s : str) : option (list range) :=
  match parse_args s with
  | Some args => file_in_edit_family s args
  | None => None
  end.

(* String::replace_range(lo..hi, "") ; None = panic *)
Definition del_range (lo hi : nat) (t : str) : option str :=
  if Nat.leb lo hi && Nat.leb hi (List.length t) then Some (firstn lo t ++ skipn hi t) else None.

Fixpoint del_all (rs : list range) (t : str) : option str :=   (* rs already in application order *)
  match rs with
  | [] => Some t
  | (_, lo, hi) :: r => match del_range lo hi t with Some t' => del_all r t' | None => None end
  end.

Definition edit_remove (actv attr : str) : option str :=
  match file_ranges actv with
  | Some rs => del_all (rev rs) attr
  | None => None
  end.

(* is_active on the scanned one-line attribute text *)
Definition is_active_text (actv : str) : option bool :=
  match file_ranges actv with
  | Some [] => Some false
  | Some _ => Some true
  | None => None
  end.

(* scan + is_active, as nested::is_active does with quote!{#attr}.to_string() *)
Definition is_active_str (attr_string : str) : option bool :=
  match parse_line None attr_string with
  | Done _ code => is_active_text code
  | OutOfFuel => None
  end.

(* interfaces for the check *)
Definition edit_remove_check (actv attr expected : string) : bool :=
  match edit_remove (s2l actv) (s2l attr) with
  | Some out => str_eqb out (s2l expected)
  | None => false
  end.

Definition ranges_plain (s : string) : option (list (nat * nat)) :=
  match file_ranges (s2l s) with
  | Some rs => Some (map (fun r => (snd (fst r), snd r)) rs)
  | None => None
  end.
