"""C02 -- calls take effect in issue order (per-handle FIFO, real-time precedence)."""
import random
import rt_common, probe, gen_impl
PID = "C02"


def interact_order_probe(rep):
    """real runtime, std bounded channel filled to its capacity in front of an `interact` method that hands a channel end back (harness/c14, mode
    std_order): the request and the caller's next call are applied in the order the caller issued them"""
    import C14
    rc, out, binp = C14.probe_build()
    if rc != 0:
        rep.notes.append("interact probe (harness/c14) does not build against the current tree: order probe skipped (C14 reports the build)")
        return
    want = ["hold", "push:1", "push:2"]

    def bad(d):
        if "error" in d or d.get("errors"):
            return "harness"
        return None if (d.get("snapshot") == want and d.get("log") == want + ["snap", "push:3"]) else "order"
    d = C14.probe_run(binp, "std_order", 0, 0)
    rep.evaluations += 1
    rep.traces += 1
    b = bad(d)
    if b:
        d = C14.probe_run(binp, "std_order", 0, 0)       # only a failure that shows twice counts
        b = bad(d)
    rep.nontrivial.add(("interact-order", "std", 2))
    if b == "harness":
        rep.notes.append("interact order probe inconclusive: %s" % str(d)[:300])
        return
    if not rep.oblige(b is None):
        rep.violation("probe_interact_order", {
            "what": "calls issued one after another through one handle were not applied in that order: the snapshot taken by the interact request `snap` is %s and the actor's log %s; "
                    "expected snapshot %s and log %s (std, channel = 2, queue full when `snap` was issued, `push(3)` issued right after it)" % (d.get("snapshot"), d.get("log"), want, want + ["snap", "push:3"]),
            "how_to_replay": "%s std_order 0 0" % binp, "observation": d}, found=True)


def run(rep):
    rng = random.Random(rep.seed)
    rep.extra["rule"] = "instances = real expansions for lib x channel x debut x impl blocks with all call kinds; non-trivial = distinct (lib, channel, debut, model) classes"
    rt_common.run_runtime(rep, PID, "wf_C02",
        ["fun (A V : Type) sem sem_slf dv => @C02_realtime A V sem sem_slf dv {i} {w}",
         "fun (A V : Type) sem sem_slf dv => @C02_returned_was_sent A V sem sem_slf dv {i} {w}"],
        rt_common.std_configs(rng, rep.tier, families=True),
        dfs=("bad_loss", "false"),
        search="c02_search", search_what="two clients, every messaging method, fair schedule; anomalies: 1 a call returned while alive but was never handed to the channel, 2 a client's calls executed out of issue order")
    rt_common.interact_struct_part(rep, PID, random.Random(rep.seed + 13))
    interact_order_probe(rep)
    runs = []
    for lib in gen_impl.LIBS:
        for ch in ((0, 1) if rep.tier == "quick" else (0, 1, 2, 3)):
            runs.append(["mixed", lib, ch, "clients=%d" % (4 if rep.tier == "quick" else 8), "calls=%d" % (60 if rep.tier == "quick" else 300), "seed=%d" % (rep.seed % 100000)])
            if PID in ("C02", "C03"):
                runs.append(["burst", lib, ch, "k=%d" % (ch + 3 if ch else 6)])
    if PID == "C02":
        # per-handle order through a family member (fire-and-forget non-mutating calls followed by a value-returning one)
        runs += [["family", lib, 0, "lock=" + lock] for lib in ("std", "tokio", "async_std") for lock in ("Mutex", "RwLock")]
    rt_common.impl_side(rep, PID, runs, lambda a, d: probe.oracle_mixed(d) if a[0] == "mixed" else
                        [x for x in probe.oracle_family(d) if "C02" in x or x.startswith("harness")] if a[0] == "family" else probe.oracle_burst(d, None if a[2] == 0 else a[2]))


def replay(rep, path):
    return rt_common.replay_generic(rep, path)
