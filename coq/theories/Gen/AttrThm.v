(* Gen/AttrThm.v -- proofs relating the parser model (Gen/Attr.v) to the reference validator (Gen/AttrSpec.v). *)
From Coq Require Import List String Ascii NArith ZArith Bool Lia Arith Permutation.
Import ListNotations.
From IT Require Import Gen.Attr Gen.AttrSpec.
Open Scope string_scope.

(* ---------- fold_res ---------- *)
Lemma fold_res_app : forall {S X} (f : S -> X -> res S) l1 l2 s,
  fold_res f (l1 ++ l2) s = bind (fold_res f l1 s) (fold_res f l2).
Proof. induction l1; simpl; intros; auto. destruct (f s a); simpl; auto. Qed.

Lemma fold_res_fail : forall {S X} (f : S -> X -> res S) x, (forall s, is_ok (f s x) = false) ->
  forall l1 l2 s, is_ok (fold_res f (l1 ++ x :: l2) s) = false.
Proof.
  intros S X f x H l1 l2 s. rewrite fold_res_app. destruct (fold_res f l1 s); simpl; auto.
  specialize (H a). destruct (f a x); simpl in *; auto; discriminate.
Qed.

Lemma fold_res_no_panic : forall {S X} (f : S -> X -> res S) l, (forall s x, In x l -> f s x <> Panic) ->
  forall s, fold_res f l s <> Panic.
Proof.
  induction l; simpl; intros H s; try discriminate.
  destruct (f s a) eqn:E; simpl; try discriminate.
  - apply IHl. intros; apply H; auto.
  - exfalso. apply (H s a); auto.
Qed.

Lemma bind_ok : forall {A B} (r : res A) (f : A -> res B) b, bind r f = Ok b -> exists a, r = Ok a /\ f a = Ok b.
Proof. intros. destruct r; simpl in *; try discriminate. eauto. Qed.

Lemma bind_not_panic : forall {A B} (r : res A) (f : A -> res B), r <> Panic -> (forall a, f a <> Panic) -> bind r f <> Panic.
Proof. intros. destruct r; simpl; auto; discriminate. Qed.

(* ---------- paths ---------- *)
Lemma path_eqb_eq : forall p q, path_eqb p q = true <-> p = q.
Proof.
  induction p; destruct q; simpl; split; intros; try discriminate; auto.
  - apply andb_prop in H. destruct H. apply String.eqb_eq in H. apply IHp in H0. subst; auto.
  - inversion H; subst. rewrite String.eqb_refl. simpl. apply IHp; auto.
Qed.

Lemma path_mem_In : forall p l, path_mem p l = true <-> In p l.
Proof.
  unfold path_mem. intros. rewrite existsb_exists. split.
  - intros [x [H1 H2]]. apply path_eqb_eq in H2. subst; auto.
  - intros. exists p. split; auto. apply path_eqb_eq; auto.
Qed.

Lemma path_mem_false : forall p l, path_mem p l = false <-> ~ In p l.
Proof. intros. rewrite <- path_mem_In. destruct (path_mem p l); split; intros; auto; try discriminate. exfalso; auto. Qed.

Lemma nodupb_NoDup : forall l, nodupb l = true <-> NoDup l.
Proof.
  induction l; simpl; split; intros; auto. constructor.
  - apply andb_prop in H. destruct H. apply negb_true_iff in H. apply path_mem_false in H. constructor; auto. apply IHl; auto.
  - inversion H; subst. apply andb_true_intro. split. apply negb_true_iff. apply path_mem_false; auto. apply IHl; auto.
Qed.

Lemma cps_NoDup : forall ex l, cps l ex = true <-> NoDup (filter (fun p => negb (path_mem p ex)) l).
Proof.
  induction l; simpl. split; auto. constructor.
  destruct (path_mem a ex) eqn:E; simpl.
  - rewrite andb_false_r. auto.
  - rewrite andb_true_r. destruct (path_mem a l) eqn:M.
    + split; intros; try discriminate. inversion H; subst. exfalso. apply H2. apply filter_In. split. apply path_mem_In; auto. rewrite E; auto.
    + rewrite IHl. split; intros. constructor; auto. intro. apply filter_In in H0. destruct H0. apply path_mem_false in M. auto.
      inversion H; auto.
Qed.

Lemma filter_rev' : forall {A} (f : A -> bool) l, filter f (rev l) = rev (filter f l).
Proof. induction l; simpl; auto. rewrite filter_app. simpl. rewrite IHl. destruct (f a); simpl; auto. rewrite app_nil_r; auto. Qed.

Lemma NoDup_rev' : forall {A} (l : list A), NoDup (rev l) <-> NoDup l.
Proof.
  intros. split; intros.
  - apply (Permutation_NoDup (l := rev l)); auto. apply Permutation_sym. apply Permutation_rev.
  - apply (Permutation_NoDup (l := l)); auto. apply Permutation_rev.
Qed.

Lemma check_path_set_spec : forall l ex, check_path_set l ex = nodupb (filter (fun p => negb (path_mem p ex)) (map mpath l)).
Proof.
  intros. unfold check_path_set. apply eq_true_iff_eq. rewrite cps_NoDup. rewrite filter_rev'. rewrite NoDup_rev'. rewrite nodupb_NoDup. reflexivity.
Qed.

Lemma check_path_set_nil : forall l, check_path_set l [] = nodupb (map mpath l).
Proof.
  intros. rewrite check_path_set_spec. f_equal. generalize (map mpath l). induction l0; simpl; auto. f_equal; auto.
Qed.

(* ---------- keys ---------- *)
Definition kname (k : okey) : string :=
  match k with
  | KName => "name" | KLib => "lib" | KShow => "show" | KChannel => "channel" | KEdit => "edit" | KDebut => "debut" | KFile => "file"
  | KFirstName => "first_name" | KInteract => "interact" | KInclude => "include" | KExclude => "exclude" | KDebug => "Debug"
  | KdebugLower => "debug" | KActor => "actor" | KRwLock => "RwLock" | KMutex => "Mutex" | KOther => "" end.

Lemma classify_inv : forall x k, classify x = k -> k <> KOther -> x = kname k.
Proof.
  intros x k H N. unfold classify in H.
  repeat match type of H with (if String.eqb ?a ?b then _ else _) = _ => destruct (String.eqb_spec a b); [subst; simpl; reflexivity|] end.
  subst. congruence.
Qed.

Lemma okey_beq_eq : forall a b, okey_beq a b = true <-> a = b.
Proof. split. apply internal_okey_dec_bl. apply internal_okey_dec_lb. Qed.

Lemma mkey_path : forall m k, mkey m = k -> k <> KOther -> mpath m = [kname k].
Proof.
  unfold mkey. intros m k H N. destruct (mpath m) as [|x [|y r]]; try congruence. apply classify_inv in H; auto. subst; auto.
Qed.

Lemma has_key_false_NoDup : forall k m l, k <> KOther -> mkey m = k -> NoDup (map mpath (m :: l)) -> has_key k l = false.
Proof.
  intros k m l N K D. simpl in D. inversion D; subst. destruct (has_key (mkey m) l) eqn:E; auto.
  unfold has_key in E. apply existsb_exists in E. destruct E as [m' [I1 I2]]. unfold is_key in I2. apply okey_beq_eq in I2.
  exfalso. apply H1. rewrite (mkey_path m (mkey m) eq_refl N). rewrite <- (mkey_path m' (mkey m) I2 N). apply in_map; auto.
Qed.

(* ---------- value parsers ---------- *)
Lemma get_lit_str_ok : forall m s, get_lit_str m = Ok s -> v_str m = Some s /\ String.eqb s "" = false.
Proof.
  intros m s H. unfold get_lit_str, get_lit in H. destruct m as [p|p l|p|p v]; simpl in H; try discriminate.
  destruct v; simpl in H; try discriminate. destruct (String.eqb s0 "") eqn:E; try discriminate. inversion H; subst. auto.
Qed.

Lemma get_lit_str_isok : forall m, is_ok (get_lit_str m) = match v_str m with Some s => negb (String.eqb s "") | None => false end.
Proof.
  intros. unfold get_lit_str, get_lit. destruct m as [p|p l|p|p v]; simpl; auto. destruct v; simpl; auto. destruct (String.eqb s ""); auto.
Qed.

Lemma get_lit_str_not_panic : forall m, get_lit_str m <> Panic.
Proof.
  intros. unfold get_lit_str, get_lit. destruct m as [p|p l|p|p v]; simpl; try discriminate. destruct v; simpl; try discriminate.
  destruct (String.eqb s ""); discriminate.
Qed.

Lemma is_ident_str_nonempty : forall s, is_ident_str s = true -> String.eqb s "" = false.
Proof. destruct s; simpl; auto; discriminate. Qed.

Lemma name_isok : forall m (g : string -> acfg), is_ok (s <- get_lit_str m ;; x <- format_ident s ;; Ok (g x)) = v_name m.
Proof.
  intros. unfold v_name. destruct (get_lit_str m) eqn:E; simpl.
  - apply get_lit_str_ok in E. destruct E as [E1 E2]. rewrite E1. unfold format_ident. destruct (is_ident_str a); auto.
  - pose proof (get_lit_str_isok m) as H. rewrite E in H. simpl in H. destruct (v_str m); auto.
    destruct (String.eqb_spec s ""); simpl in H; try discriminate. subst; auto.
  - exfalso. apply (get_lit_str_not_panic m); auto.
Qed.

Lemma name_ok : forall m (g : option string -> acfg) c', (s <- get_lit_str m ;; x <- format_ident s ;; Ok (g (Some x))) = Ok c' -> c' = g (v_str m).
Proof.
  intros. apply bind_ok in H. destruct H as [s [H1 H2]]. apply bind_ok in H2. destruct H2 as [x [H2 H3]].
  apply get_lit_str_ok in H1. destruct H1 as [H1 _]. rewrite H1. unfold format_ident in H2. destruct (is_ident_str s); try discriminate.
  inversion H2; inversion H3; subst; auto.
Qed.

Lemma lib_of_isok : forall s, is_ok (lib_of s) = is_lib_name s.
Proof.
  intros. unfold lib_of, is_lib_name. simpl.
  destruct (String.eqb s "std"); simpl; auto. destruct (String.eqb s "smol"); simpl; auto.
  destruct (String.eqb s "tokio"); simpl; auto. destruct (String.eqb s "async_std"); simpl; auto.
Qed.

Lemma lib_isok : forall m (g : lib -> acfg), is_ok (s <- get_lit_str m ;; l <- lib_of s ;; Ok (g l)) = v_lib m.
Proof.
  intros. unfold v_lib. destruct (get_lit_str m) eqn:E; simpl.
  - apply get_lit_str_ok in E. destruct E as [E1 E2]. rewrite E1. rewrite <- lib_of_isok. destruct (lib_of a); auto.
  - pose proof (get_lit_str_isok m) as H. rewrite E in H. simpl in H. destruct (v_str m); auto.
    destruct (String.eqb_spec s ""); simpl in H; try discriminate. subst; auto.
  - exfalso. apply (get_lit_str_not_panic m); auto.
Qed.

Lemma lib_ok : forall m (g : lib -> acfg) c', (s <- get_lit_str m ;; l <- lib_of s ;; Ok (g l)) = Ok c' -> c' = g (lib_den m).
Proof.
  intros. apply bind_ok in H. destruct H as [s [H1 H2]]. apply bind_ok in H2. destruct H2 as [x [H2 H3]].
  apply get_lit_str_ok in H1. destruct H1 as [H1 _]. unfold lib_den. rewrite H1. inversion H3; subst. f_equal.
  unfold lib_of in H2.
  destruct (String.eqb_spec s "std"). subst. inversion H2; auto.
  destruct (String.eqb_spec s "smol"). inversion H2; auto.
  destruct (String.eqb_spec s "tokio"). inversion H2; auto.
  destruct (String.eqb_spec s "async_std"). inversion H2; auto. discriminate.
Qed.

Lemma chan_isok : forall m (g : chan -> acfg), is_ok (v <- get_lit m ;; ch <- chan_of v ;; Ok (g ch)) = v_chan m.
Proof.
  intros. unfold v_chan, get_lit, chan_of. destruct m as [p|p l|p|p v]; simpl; auto. destruct v; simpl; auto.
  destruct ((0 <=? z)%Z && (z <=? usize_max)%Z); auto.
Qed.

Lemma chan_ok : forall m (g : chan -> acfg) c', (v <- get_lit m ;; ch <- chan_of v ;; Ok (g ch)) = Ok c' -> c' = g (chan_den m).
Proof.
  intros m g c'. unfold get_lit, chan_of, chan_den. destruct m as [p|p l|p|p v]; simpl; try discriminate. destruct v; simpl; try discriminate.
  destruct ((0 <=? z)%Z && (z <=? usize_max)%Z); simpl; try discriminate. intros H; inversion H; auto.
Qed.

Section FSThm.
Variable fexists : string -> bool.
Variable fcount : string -> fcnt.

Lemma file_isok : forall m (g : string -> acfg), is_ok (p <- meta_get_path fexists m ;; Ok (g p)) = v_file fexists m.
Proof.
  intros. unfold v_file, meta_get_path. destruct (get_lit_str m) eqn:E; simpl.
  - apply get_lit_str_ok in E. destruct E as [E1 E2]. rewrite E1, E2. simpl. destruct (fexists a); auto.
  - pose proof (get_lit_str_isok m) as H. rewrite E in H. simpl in H. destruct (v_str m); auto.
    destruct (String.eqb s ""); simpl in *; auto; discriminate.
  - exfalso. apply (get_lit_str_not_panic m); auto.
Qed.

Lemma file_ok : forall m (g : option string -> acfg) c', (p <- meta_get_path fexists m ;; Ok (g (Some p))) = Ok c' -> c' = g (v_str m).
Proof.
  intros. apply bind_ok in H. destruct H as [s [H1 H2]]. unfold meta_get_path in H1. apply bind_ok in H1. destruct H1 as [s' [H1 H3]].
  apply get_lit_str_ok in H1. destruct H1 as [H1 _]. rewrite H1. destruct (fexists s'); try discriminate. inversion H3; inversion H2; subst; auto.
Qed.

(* ---------- filter ---------- *)
Definition single (p : path) : bool := match p with [_] => true | _ => false end.

Lemma get_idents_gen : forall l acc, fold_res (fun acc m => x <- get_ident m ;; Ok (acc ++ [x])%list) l acc
  = if forallb (fun m => single (mpath m)) l then Ok (acc ++ map leaf_name l)%list else Diag DExpectIdent.
Proof.
  induction l; simpl; intros. rewrite app_nil_r; auto.
  unfold get_ident at 1. unfold leaf_name at 1. destruct (mpath a) as [|x [|y r]]; simpl; auto.
  rewrite IHl. destruct (forallb (fun m => single (mpath m)) l); auto. rewrite <- app_assoc. auto.
Qed.

Lemma get_idents_spec : forall l, get_idents l = if forallb (fun m => single (mpath m)) l then Ok (map leaf_name l) else Diag DExpectIdent.
Proof. intros. unfold get_idents. rewrite get_idents_gen. auto. Qed.

Lemma words_fold : forall l, fold_res (fun (_ : unit) x => expect_word x) l tt = if forallb v_flag l then Ok tt else Diag DValue.
Proof. induction l; simpl; auto. destruct a; simpl; auto. Qed.

Lemma ctor_names : forall l, forallb (fun m => single (mpath m)) l = true -> existsb is_ctor_name (map leaf_name l) = existsb names_ctor l.
Proof.
  induction l; simpl; intros; auto. apply andb_prop in H. destruct H. rewrite IHl; auto. f_equal.
  unfold names_ctor, leaf_name, is_ctor_name, is_ident. destruct (mpath a) as [|x [|y r]]; simpl in *; try discriminate. auto.
Qed.

Lemma forallb_and : forall {A} (f g : A -> bool) l, forallb (fun x => f x && g x) l = forallb f l && forallb g l.
Proof. induction l; simpl; auto. rewrite IHl. destruct (f a), (g a); simpl; auto. rewrite andb_false_r; auto. Qed.

Lemma bare_words : forall l, forallb bare l = forallb v_flag l && forallb (fun m => single (mpath m)) l.
Proof.
  intros. rewrite <- forallb_and. induction l; simpl; auto. rewrite IHl. f_equal.
  destruct a as [p|p l'|p|p v]; simpl; auto; destruct p as [|x [|y r]]; auto.
Qed.

Lemma filter_isok : forall m incl, is_ok (filter_parse m incl) = v_filter m.
Proof.
  intros m incl. unfold filter_parse, v_filter. destruct m as [p|p l|p|p v]; simpl; auto.
  rewrite check_path_set_nil. rewrite words_fold. rewrite get_idents_spec. rewrite bare_words.
  destruct (nodupb (map mpath l)); simpl; [|repeat rewrite andb_false_r; auto].
  destruct (forallb v_flag l); simpl; auto.
  destruct (forallb (fun m => single (mpath m)) l) eqn:E; simpl; auto.
  rewrite (ctor_names l E). destruct (existsb names_ctor l); auto.
Qed.

Lemma filter_ok : forall m incl f, filter_parse m incl = Ok f -> f = filter_den incl m.
Proof.
  intros m incl f. unfold filter_parse, filter_den. destruct m as [p|p l|p|p v]; simpl; try discriminate.
  destruct (check_path_set l []); try discriminate. rewrite words_fold. destruct (forallb v_flag l); simpl; try discriminate.
  rewrite get_idents_spec.
  destruct (forallb (fun m => single (mpath m)) l); simpl; try discriminate.
  destruct (existsb is_ctor_name (map leaf_name l)); try discriminate. intros H; inversion H. destruct incl; auto.
Qed.

Lemma filter_not_panic : forall m incl, filter_parse m incl <> Panic.
Proof.
  intros m incl. unfold filter_parse. destruct m as [p|p l|p|p v]; simpl; try discriminate.
  destruct (check_path_set l []); try discriminate. rewrite words_fold. destruct (forallb v_flag l); simpl; try discriminate.
  rewrite get_idents_spec.
  destruct (forallb (fun m => single (mpath m)) l); simpl; try discriminate.
  destruct (existsb is_ctor_name (map leaf_name l)); discriminate.
Qed.

(* ---------- one step of the `actor` option loop ---------- *)
Definition filter_free (c : acfg) (m : meta) : bool :=
  if is_filter_key m then match a_filter c with None => true | Some _ => false end else true.

Ltac crush_m m := destruct m as [?p|?p ?l|?p|?p ?v]; simpl in *; try discriminate; auto.

Lemma word_isok : forall m (c : acfg), is_ok (_ <- expect_word m ;; Ok c) = v_flag m.
Proof. destruct m; auto. Qed.

Lemma step_actor_ok : forall c m c', step_actor fexists c m = Ok c' -> c' = apply_item c m.
Proof.
  intros c m c'. unfold step_actor, get_ident, apply_item, mkey.
  destruct (mpath m) as [|x [|y r]] eqn:P; simpl; try discriminate.
  destruct (classify x) eqn:K; simpl; intros H.
  - apply (name_ok m (fun o => set_name o c)); auto.
  - apply (lib_ok m (fun o => set_lib o c)); auto.
  - crush_m m; inversion H; auto.
  - apply (chan_ok m (fun o => set_chan o c)); auto.
  - unfold edit_den. destruct (edit_parse (a_edit c) m); simpl in H; inversion H; auto.
  - crush_m m; inversion H; auto.
  - apply (file_ok m (fun o => set_file o c)); auto.
  - destruct (a_mac c); try discriminate. apply (name_ok m (fun o => set_first o c)); auto.
  - crush_m m; inversion H; auto.
  - destruct (a_filter c); try discriminate. apply bind_ok in H. destruct H as [f [H1 H2]]. apply filter_ok in H1. inversion H2; subst; auto.
  - destruct (a_filter c); try discriminate. apply bind_ok in H. destruct H as [f [H1 H2]]. apply filter_ok in H1. inversion H2; subst; auto.
  - crush_m m; inversion H; auto.
  - discriminate.
  - discriminate.
  - discriminate.
  - discriminate.
  - discriminate.
Qed.

Lemma step_actor_isok : forall c m, (a_edit c = edit0 \/ is_key KEdit m = false) ->
  is_ok (step_actor fexists c m) = item_valid fexists (a_mac c) m && filter_free c m.
Proof.
  intros c m. unfold step_actor, get_ident, item_valid, filter_free, is_filter_key, is_key, mkey.
  destruct (mpath m) as [|x [|y r]] eqn:P; simpl; auto.
  destruct (classify x) eqn:K; simpl; intros ED; try rewrite andb_true_r; auto.
  - apply (name_isok m (fun o => set_name (Some o) c)).
  - apply (lib_isok m (fun o => set_lib o c)).
  - crush_m m.
  - apply (chan_isok m (fun o => set_chan o c)).
  - destruct ED as [ED|ED]; try discriminate. rewrite ED. unfold v_edit. destruct (edit_parse edit0 m); auto.
  - crush_m m.
  - apply (file_isok m (fun o => set_file (Some o) c)).
  - destruct (a_mac c); auto. apply (name_isok m (fun o => set_first (Some o) c)).
  - crush_m m.
  - destruct (a_filter c); simpl. rewrite andb_false_r; auto. rewrite andb_true_r. rewrite <- (filter_isok m true). destruct (filter_parse m true); auto.
  - destruct (a_filter c); simpl. rewrite andb_false_r; auto. rewrite andb_true_r. rewrite <- (filter_isok m false). destruct (filter_parse m false); auto.
  - apply word_isok.
Qed.

(* ---------- frame facts about apply_item ---------- *)
Lemma apply_item_mac : forall c m, a_mac (apply_item c m) = a_mac c.
Proof. intros. unfold apply_item. destruct (mkey m); auto. Qed.

Lemma apply_item_edit : forall c m, is_key KEdit m = false -> a_edit (apply_item c m) = a_edit c.
Proof. intros c m. unfold apply_item, is_key. destruct (mkey m); simpl; auto; discriminate. Qed.

Lemma apply_item_filter_other : forall c m, is_filter_key m = false -> a_filter (apply_item c m) = a_filter c.
Proof. intros c m. unfold apply_item, is_filter_key, is_key. destruct (mkey m); simpl; auto; discriminate. Qed.

Lemma apply_item_filter_set : forall c m, is_filter_key m = true -> a_filter (apply_item c m) <> None.
Proof. intros c m. unfold apply_item, is_filter_key, is_key. destruct (mkey m); simpl; try discriminate. Qed.

Definition filt_ok (c : acfg) (l : list meta) : bool :=
  match a_filter c with Some _ => Nat.eqb (nf l) 0 | None => Nat.leb (nf l) 1 end.

Lemma has_key_cons_false : forall k m l, has_key k (m :: l) = false -> is_key k m = false /\ has_key k l = false.
Proof. intros. unfold has_key in *. simpl in H. apply orb_false_elim in H. auto. Qed.

Lemma fold_actor_isok : forall l c, NoDup (map mpath l) ->
  (a_edit c = edit0 \/ has_key KEdit l = false) ->
  is_ok (fold_res (step_actor fexists) l c) = forallb (item_valid fexists (a_mac c)) l && filt_ok c l.
Proof.
  induction l as [|m l IH]; intros c ND ED.
  - simpl. unfold filt_ok, nf. simpl. destruct (a_filter c); auto.
  - assert (ED1 : a_edit c = edit0 \/ is_key KEdit m = false).
    { destruct ED as [ED|ED]; auto. apply has_key_cons_false in ED. tauto. }
    pose proof (step_actor_isok c m ED1) as SI.
    simpl. destruct (step_actor fexists c m) as [c'| |] eqn:S; simpl in *.
    + pose proof (step_actor_ok c m c' S) as E. symmetry in SI. apply andb_prop in SI. destruct SI as [IV FF].
      rewrite IV. simpl. rewrite IH.
      * subst c'. rewrite apply_item_mac. f_equal. unfold filt_ok, filter_free, nf in *. simpl.
        destruct (is_filter_key m) eqn:FK.
        -- destruct (a_filter c); try discriminate. pose proof (apply_item_filter_set c m FK).
           destruct (a_filter (apply_item c m)); try congruence. simpl. destruct (List.length (filter is_filter_key l)); auto.
        -- rewrite (apply_item_filter_other c m FK). auto.
      * inversion ND; auto.
      * subst c'. destruct (is_key KEdit m) eqn:IK.
        -- right. unfold is_key in IK. apply okey_beq_eq in IK. apply (has_key_false_NoDup KEdit m l); auto. discriminate.
        -- rewrite (apply_item_edit c m IK). destruct ED as [ED|ED]; [auto | right; exact ED].
    + symmetry in SI. apply andb_false_iff in SI. destruct SI as [SI|SI].
      * rewrite SI; auto.
      * unfold filter_free in SI. unfold filt_ok, nf. simpl. destruct (is_filter_key m); try discriminate.
        destruct (a_filter c); try discriminate. simpl. rewrite andb_false_r. auto.
    + symmetry in SI. apply andb_false_iff in SI. destruct SI as [SI|SI].
      * rewrite SI; auto.
      * unfold filter_free in SI. unfold filt_ok, nf. simpl. destruct (is_filter_key m); try discriminate.
        destruct (a_filter c); try discriminate. simpl. rewrite andb_false_r. auto.
Qed.

Lemma fold_actor_den : forall l c c', fold_res (step_actor fexists) l c = Ok c' -> c' = denote_actor_from c l.
Proof.
  induction l as [|m l IH]; simpl; intros c c' H. inversion H; auto.
  apply bind_ok in H. destruct H as [c1 [H1 H2]]. apply step_actor_ok in H1. subst c1. apply IH in H2. auto.
Qed.

(* ---------- a field is decided by the unique option carrying its key ---------- *)
Lemma has_key_find_none : forall k l, has_key k l = false -> find_key k l = None.
Proof.
  unfold has_key, find_key. induction l; simpl; intros; auto. apply orb_false_elim in H. destruct H. rewrite H. auto.
Qed.

Lemma fold_field : forall {T} (F : acfg -> T) (K : okey) (d : mac -> T -> meta -> T), K <> KOther ->
  (forall c m, F (apply_item c m) = if is_key K m then d (a_mac c) (F c) m else F c) ->
  forall l c, NoDup (map mpath l) ->
  F (fold_left apply_item l c) = match find_key K l with Some m => d (a_mac c) (F c) m | None => F c end.
Proof.
  intros T F K d NK HF. induction l as [|m l IH]; intros c ND; simpl; auto.
  unfold find_key. simpl. destruct (is_key K m) eqn:IK.
  - assert (HK : has_key K l = false). { apply (has_key_false_NoDup K m l); auto. unfold is_key in IK. apply okey_beq_eq in IK. auto. }
    rewrite IH. rewrite (has_key_find_none K l HK). rewrite HF. rewrite IK. auto. inversion ND; auto.
  - rewrite IH. rewrite HF. rewrite IK. rewrite apply_item_mac. auto. inversion ND; auto.
Qed.

Lemma fold_left_mac : forall l c, a_mac (fold_left apply_item l c) = a_mac c.
Proof. induction l; simpl; intros; auto. rewrite IHl. apply apply_item_mac. Qed.

Lemma den_edit : forall l c, NoDup (map mpath l) ->
  a_edit (denote_actor_from c l) = match find_key KEdit l with Some m => edit_den (a_edit c) m | None => a_edit c end.
Proof.
  intros. unfold denote_actor_from. apply (fold_field a_edit KEdit (fun _ e m => edit_den e m)); auto. discriminate.
  intros c0 m. unfold apply_item, is_key. destruct (mkey m); simpl; auto.
Qed.

Lemma den_file : forall l c, NoDup (map mpath l) ->
  a_file (denote_actor_from c l) = match find_key KFile l with Some m => v_str m | None => a_file c end.
Proof.
  intros. unfold denote_actor_from. apply (fold_field a_file KFile (fun _ _ m => v_str m)); auto. discriminate.
  intros c0 m. unfold apply_item, is_key. destruct (mkey m); simpl; auto.
Qed.

Lemma den_lib : forall l c, NoDup (map mpath l) ->
  a_lib (denote_actor_from c l) = match find_key KLib l with Some m => lib_den m | None => a_lib c end.
Proof.
  intros. unfold denote_actor_from. apply (fold_field a_lib KLib (fun _ _ m => lib_den m)); auto. discriminate.
  intros c0 m. unfold apply_item, is_key. destruct (mkey m); simpl; auto.
Qed.

Lemma den_chan : forall l c, NoDup (map mpath l) ->
  a_chan (denote_actor_from c l) = match find_key KChannel l with Some m => chan_den m | None => a_chan c end.
Proof.
  intros. unfold denote_actor_from. apply (fold_field a_chan KChannel (fun _ _ m => chan_den m)); auto. discriminate.
  intros c0 m. unfold apply_item, is_key. destruct (mkey m); simpl; auto.
Qed.

Lemma den_name : forall l c, NoDup (map mpath l) ->
  a_name (denote_actor_from c l) = match find_key KName l with Some m => v_str m | None => a_name c end.
Proof.
  intros. unfold denote_actor_from. apply (fold_field a_name KName (fun _ _ m => v_str m)); auto. discriminate.
  intros c0 m. unfold apply_item, is_key. destruct (mkey m); simpl; auto.
Qed.

Lemma den_first : forall l c, NoDup (map mpath l) ->
  a_first (denote_actor_from c l) = match find_key KFirstName l with Some m => v_str m | None => a_first c end.
Proof.
  intros. unfold denote_actor_from. apply (fold_field a_first KFirstName (fun _ _ m => v_str m)); auto. discriminate.
  intros c0 m. unfold apply_item, is_key. destruct (mkey m); simpl; auto.
Qed.

Lemma den_flag : forall (F : acfg -> bool) (K : okey), K <> KOther ->
  (forall c m, F (apply_item c m) = if is_key K m then true else F c) ->
  forall l c, NoDup (map mpath l) -> F (denote_actor_from c l) = if has_key K l then true else F c.
Proof.
  intros F K NK HF l c ND. unfold denote_actor_from. rewrite (fold_field F K (fun _ _ _ => true)); auto.
  unfold find_key, has_key. destruct (find (is_key K) l) eqn:E.
  - apply find_some in E. destruct E as [E1 E2]. assert (existsb (is_key K) l = true). apply existsb_exists; eauto. rewrite H; auto.
  - destruct (existsb (is_key K) l) eqn:X; auto. apply existsb_exists in X. destruct X as [x [X1 X2]].
    pose proof (find_none _ _ E x X1). congruence.
Qed.

Lemma den_filter : forall l c, NoDup (map mpath l) -> has_key KExclude l = false ->
  a_filter (denote_actor_from c l) = match find_key KInclude l with Some m => Some (filter_den true m) | None => a_filter c end.
Proof.
  unfold denote_actor_from. induction l as [|m l IH]; intros c ND HX; simpl; auto.
  apply has_key_cons_false in HX. destruct HX as [HX1 HX2]. unfold find_key. simpl.
  assert (ND' : NoDup (map mpath l)) by (inversion ND; auto).
  destruct (is_key KInclude m) eqn:IK.
  - assert (HK : has_key KInclude l = false). { apply (has_key_false_NoDup KInclude m l); auto. discriminate. unfold is_key in IK. apply okey_beq_eq in IK. auto. }
    rewrite IH; auto. rewrite (has_key_find_none _ _ HK).
    unfold apply_item. unfold is_key in IK. apply okey_beq_eq in IK. rewrite IK. auto.
  - rewrite IH; auto. unfold find_key. destruct (find (is_key KInclude) l); auto.
    unfold apply_item, is_key in *. destruct (mkey m); simpl in *; auto; discriminate.
Qed.

(* ---------- actor: accept <-> valid, faithfulness ---------- *)
Lemma edit_active_edit0 : edit_active edit0 = false.
Proof. reflexivity. Qed.

Lemma parse_nested_actor_isok : forall l c, a_edit c = edit0 -> a_filter c = None ->
  is_ok (parse_nested_actor fexists c l) = nodupb (map mpath l) && forallb (item_valid fexists (a_mac c)) l && Nat.leb (nf l) 1.
Proof.
  intros l c E0 F0. unfold parse_nested_actor. rewrite check_path_set_nil. destruct (nodupb (map mpath l)) eqn:ND; simpl; auto.
  rewrite fold_actor_isok; auto. unfold filt_ok. rewrite F0. auto. apply nodupb_NoDup; auto.
Qed.

Lemma parse_nested_actor_den : forall l c c', parse_nested_actor fexists c l = Ok c' -> c' = denote_actor_from c l /\ NoDup (map mpath l).
Proof.
  intros l c c'. unfold parse_nested_actor. rewrite check_path_set_nil. destruct (nodupb (map mpath l)) eqn:ND; try discriminate.
  intros H. split. apply fold_actor_den; auto. apply nodupb_NoDup; auto.
Qed.

Lemma cross_check_actor_isok : forall a, a_mac a = Actor ->
  is_ok (cross_check fcount {| c_top := a; c_members := [] |}) =
  if edit_active (a_edit a) then match a_file a with Some f => match fcount f with FOne => true | _ => false end | None => false end else true.
Proof.
  intros a M. unfold cross_check, cfg_active. simpl. rewrite M. rewrite orb_false_r.
  destruct (edit_active (a_edit a)); simpl. destruct (a_file a); simpl; auto. destruct (fcount s); simpl; auto. rewrite M; auto. rewrite M; auto.
Qed.

Lemma markers_spec : forall l c, NoDup (map mpath l) -> a_edit c = edit0 ->
  edit_active (a_edit (denote_actor_from c l)) = markers l.
Proof.
  intros. rewrite den_edit; auto. unfold markers. rewrite H0. destruct (find_key KEdit l); auto.
Qed.

Lemma file_one_spec : forall l c, NoDup (map mpath l) -> a_file c = None ->
  match a_file (denote_actor_from c l) with Some f => match fcount f with FOne => true | _ => false end | None => false end = file_one fcount l.
Proof.
  intros. rewrite den_file; auto. unfold file_one. rewrite H0. destruct (find_key KFile l); auto.
Qed.

Theorem actor_accept_iff_valid : forall l,
  is_ok (parse_args fexists fcount Actor l) = valid_actor fexists fcount l.
Proof.
  intros l. unfold parse_args, valid_actor.
  pose proof (parse_nested_actor_isok l (set_mac Actor acfg0) eq_refl eq_refl) as H. simpl in H.
  destruct (parse_nested_actor fexists (set_mac Actor acfg0) l) as [a| |] eqn:P; simpl in *; rewrite <- H; simpl; auto.
  apply parse_nested_actor_den in P. destruct P as [P ND]. subst a.
  rewrite cross_check_actor_isok. rewrite (markers_spec l); auto. rewrite file_one_spec; auto.
  unfold denote_actor_from. rewrite fold_left_mac. auto.
Qed.

Theorem actor_faithful : forall l c, parse_args fexists fcount Actor l = Ok c -> c = denote_actor l.
Proof.
  intros l c H.
  unfold parse_args in H. apply bind_ok in H. destruct H as [c1 [H1 H2]]. apply bind_ok in H1. destruct H1 as [a [H1 H3]].
  inversion H3; subst c1. apply parse_nested_actor_den in H1. destruct H1 as [H1 ND]. subst a.
  unfold cross_check, cfg_active in H2. simpl in H2. unfold denote_actor_from in H2. rewrite fold_left_mac in H2. simpl in H2.
  rewrite orb_false_r in H2. unfold denote_actor. fold (denote_actor_from (set_mac Actor acfg0) l) in *.
  rewrite (markers_spec l) in H2; auto. destruct (markers l).
  - destruct (a_file (denote_actor_from (set_mac Actor acfg0) l)); try discriminate. destruct (fcount s); try discriminate.
    simpl in H2. unfold denote_actor_from in H2. rewrite fold_left_mac in H2. simpl in H2. inversion H2; auto.
  - simpl in H2. unfold denote_actor_from in H2. rewrite fold_left_mac in H2. simpl in H2. inversion H2; auto.
Qed.

(* ---------- never Panic ---------- *)
Lemma get_list_np : forall m h, get_list m h <> Panic.
Proof. destruct m, h; simpl; discriminate. Qed.
Lemma get_list_ne_np : forall m h, get_list_ne m h <> Panic.
Proof. intros. unfold get_list_ne. apply bind_not_panic. apply get_list_np. intros [[|x r]|]; discriminate. Qed.
Lemma get_ident_np : forall m, get_ident m <> Panic.
Proof. intros. unfold get_ident. destruct (mpath m) as [|x [|y r]]; discriminate. Qed.
Lemma expect_word_np : forall m, expect_word m <> Panic.
Proof. destruct m; discriminate. Qed.
Lemma abort_if_np : forall m, abort_if_is_file m <> Panic.
Proof. intros. unfold abort_if_is_file. destruct (is_ident (mpath m) "file"); discriminate. Qed.

Lemma add_if_unique_np : forall v m f, add_if_unique v m f <> Panic.
Proof.
  intros. unfold add_if_unique. apply bind_not_panic. apply expect_word_np. intros _.
  apply bind_not_panic. apply get_ident_np. intros. destruct v; try discriminate.
  destruct (existsb (fun p => String.eqb a (fst p)) l); discriminate.
Qed.

Lemma get_file_list_np : forall m, get_file_list m <> Panic.
Proof. intros. unfold get_file_list. apply bind_not_panic. apply get_list_ne_np. intros [l|]; discriminate. Qed.

Lemma nested_idents_np : forall os m f, nested_idents os m f <> Panic.
Proof.
  intros. unfold nested_idents. apply bind_not_panic. apply get_list_ne_np. intros [l|]; try discriminate.
  apply bind_not_panic; try (intros; discriminate). apply fold_res_no_panic. intros s x _.
  destruct (is_ident (mpath x) "file"). 2: apply add_if_unique_np.
  apply bind_not_panic. apply get_list_ne_np. intros [fl|]. 2: apply add_if_unique_np.
  apply fold_res_no_panic. intros s' y _. destruct f. discriminate. apply add_if_unique_np.
Qed.

Lemma sol_nested_np : forall e m sol f, sol_nested e m sol f <> Panic.
Proof.
  intros. unfold sol_nested. destruct (is_ident (mpath m) "def").
  apply bind_not_panic. apply expect_word_np. intros _. destruct (t_def (sel sol e)); discriminate.
  destruct (is_ident (mpath m) "imp"). destruct (t_imp (sel sol e)); try discriminate.
  apply bind_not_panic. apply nested_idents_np. intros; discriminate.
  destruct (is_ident (mpath m) "trt"). destruct (t_trt (sel sol e)); try discriminate.
  apply bind_not_panic. apply nested_idents_np. intros; discriminate. discriminate.
Qed.

Lemma parse_sol_np : forall e m f, parse_sol e m f <> Panic.
Proof.
  intros. unfold parse_sol. apply bind_not_panic.
  - destruct (is_ident (mpath m) "script"). destruct (is_none (e_script e)); discriminate.
    destruct (is_ident (mpath m) "live"). destruct (is_none (e_live e)); discriminate. discriminate.
  - intros sol. apply bind_not_panic. apply get_list_ne_np. intros [l|]; try discriminate.
    apply fold_res_no_panic. intros s x _. destruct (is_ident (mpath x) "file"). 2: apply sol_nested_np.
    destruct f. discriminate. apply bind_not_panic. apply get_file_list_np. intros fl.
    apply fold_res_no_panic. intros s' y _. apply bind_not_panic. apply abort_if_np. intros. apply sol_nested_np.
Qed.

Lemma edit_parse_np : forall e m, edit_parse e m <> Panic.
Proof.
  intros. unfold edit_parse. apply bind_not_panic. apply get_list_ne_np. intros [l|]; try discriminate.
  assert (G : forall l0 e0, fold_res (fun (e : edit) (x : meta) =>
        if is_ident (mpath x) "file" then fl <- get_file_list x ;; fold_res (fun (e : edit) (y : meta) => _ <- abort_if_is_file y ;; parse_sol e y true) fl e
        else parse_sol e x false) l0 e0 <> Panic).
  { intros. apply fold_res_no_panic. intros s x _. destruct (is_ident (mpath x) "file"). 2: apply parse_sol_np.
    apply bind_not_panic. apply get_file_list_np. intros fl. apply fold_res_no_panic. intros s' y _.
    apply bind_not_panic. apply abort_if_np. intros. apply parse_sol_np. }
  destruct l as [|mv [|m2 r]]; try apply G.
  destruct (is_ident (mpath mv) "file"). 2: apply parse_sol_np.
  apply bind_not_panic. apply get_list_ne_np. intros [fl|]; try discriminate.
  apply fold_res_no_panic. intros s' y _. apply bind_not_panic. apply abort_if_np. intros. apply parse_sol_np.
Qed.

Lemma edit_parse_family_np : forall e m, edit_parse_family e m <> Panic.
Proof.
  intros. unfold edit_parse_family. apply bind_not_panic. apply get_list_ne_np. intros [l|]; try discriminate.
  assert (G : forall l0 e0, fold_res (fun (e : edit) (x : meta) =>
        if is_ident (mpath x) "file" then fl <- get_file_list x ;; fold_res (fun (e : edit) (y : meta) => _ <- abort_if_is_file y ;; sol_nested e y false true) fl e
        else sol_nested e x false false) l0 e0 <> Panic).
  { intros. apply fold_res_no_panic. intros s x _. destruct (is_ident (mpath x) "file"). 2: apply sol_nested_np.
    apply bind_not_panic. apply get_file_list_np. intros fl. apply fold_res_no_panic. intros s' y _.
    apply bind_not_panic. apply abort_if_np. intros. apply sol_nested_np. }
  destruct l as [|mv [|m2 r]]; try apply G.
  destruct (is_ident (mpath mv) "file"). 2: apply sol_nested_np.
  apply bind_not_panic. apply get_list_ne_np. intros [fl|]; try discriminate.
  apply fold_res_no_panic. intros s' y _. apply bind_not_panic. apply abort_if_np. intros. apply sol_nested_np.
Qed.

Lemma name_np : forall m (g : string -> acfg), (s <- get_lit_str m ;; x <- format_ident s ;; Ok (g x)) <> Panic.
Proof.
  intros. apply bind_not_panic. apply get_lit_str_not_panic. intros s. apply bind_not_panic.
  unfold format_ident. destruct (is_ident_str s); discriminate. intros; discriminate.
Qed.

Lemma parse_shared_np : forall c m k r, parse_shared fexists c m k = Some r -> r <> Panic.
Proof.
  intros c m k r. destruct k; simpl; intros H; inversion H; subst r; clear H.
  - apply name_np.
  - apply bind_not_panic. apply get_lit_str_not_panic. intros. apply bind_not_panic. unfold lib_of.
    destruct (String.eqb a "std"); try discriminate. destruct (String.eqb a "smol"); try discriminate.
    destruct (String.eqb a "tokio"); try discriminate. destruct (String.eqb a "async_std"); discriminate. intros; discriminate.
  - destruct m; discriminate.
  - apply bind_not_panic. unfold get_lit. destruct m; try discriminate. destruct v; discriminate.
    intros. apply bind_not_panic. unfold chan_of. destruct a; try discriminate. destruct ((0 <=? z)%Z && (z <=? usize_max)%Z); discriminate.
    intros; discriminate.
  - apply bind_not_panic. destruct (a_mac c). apply edit_parse_np. apply edit_parse_family_np. intros; discriminate.
  - destruct m; discriminate.
  - apply bind_not_panic. unfold meta_get_path. apply bind_not_panic. apply get_lit_str_not_panic. intros. destruct (fexists a); discriminate.
    intros; discriminate.
Qed.

Lemma step_actor_np : forall c m, step_actor fexists c m <> Panic.
Proof.
  intros c m. unfold step_actor. apply bind_not_panic. apply get_ident_np. intros x.
  destruct (classify x); simpl; try discriminate.
  - apply (parse_shared_np c m KName _ eq_refl).
  - apply (parse_shared_np c m KLib _ eq_refl).
  - apply (parse_shared_np c m KShow _ eq_refl).
  - apply (parse_shared_np c m KChannel _ eq_refl).
  - apply bind_not_panic. apply edit_parse_np. intros; discriminate.
  - apply (parse_shared_np c m KDebut _ eq_refl).
  - apply (parse_shared_np c m KFile _ eq_refl).
  - destruct (a_mac c); try discriminate. apply name_np.
  - destruct m; discriminate.
  - destruct (a_filter c); try discriminate. apply bind_not_panic. apply filter_not_panic. intros; discriminate.
  - destruct (a_filter c); try discriminate. apply bind_not_panic. apply filter_not_panic. intros; discriminate.
  - apply bind_not_panic. apply expect_word_np. intros; discriminate.
Qed.

Lemma parse_nested_actor_np : forall c l, parse_nested_actor fexists c l <> Panic.
Proof.
  intros. unfold parse_nested_actor. destruct (check_path_set l []); try discriminate.
  apply fold_res_no_panic. intros s x I. apply step_actor_np.
Qed.

Lemma cross_check_np : forall c, cross_check fcount c <> Panic.
Proof.
  intros. unfold cross_check. apply bind_not_panic.
  - destruct (cfg_active c); try discriminate. destruct (a_file (c_top c)); try discriminate. destruct (fcount s); discriminate.
  - intros. destruct (a_mac (c_top a)); try discriminate. destruct (a_lib (c_top a)); discriminate.
Qed.

Lemma step_family_np : forall st m, step_family fexists st m <> Panic.
Proof.
  intros [c mems] m. unfold step_family. apply bind_not_panic. apply get_ident_np. intros x.
  destruct (classify x); simpl; try discriminate;
    try (apply bind_not_panic; [apply expect_word_np | intros; discriminate]).
  - apply bind_not_panic. apply (parse_shared_np c m KName _ eq_refl). intros; discriminate.
  - apply bind_not_panic. apply (parse_shared_np c m KLib _ eq_refl). intros; discriminate.
  - apply bind_not_panic. apply (parse_shared_np c m KShow _ eq_refl). intros; discriminate.
  - apply bind_not_panic. apply (parse_shared_np c m KChannel _ eq_refl). intros; discriminate.
  - apply bind_not_panic. apply (parse_shared_np c m KEdit _ eq_refl). intros; discriminate.
  - apply bind_not_panic. apply (parse_shared_np c m KDebut _ eq_refl). intros; discriminate.
  - apply bind_not_panic. apply (parse_shared_np c m KFile _ eq_refl). intros; discriminate.
Qed.

Lemma parse_member_np : forall proto mem, parse_member fexists proto mem <> Panic.
Proof.
  intros. unfold parse_member. destruct mem; simpl in *; try discriminate.
  apply bind_not_panic. apply parse_nested_actor_np; auto. intros. destruct (a_first a); discriminate.
Qed.

Lemma step_family_mems : forall c ms m c' ms', step_family fexists (c, ms) m = Ok (c', ms') ->
  ms' = (if is_key KActor m then ms ++ [m] else ms)%list.
Proof.
  intros c ms m c' ms'. unfold step_family, get_ident, is_key, mkey.
  destruct (mpath m) as [|x [|y r]] eqn:P; simpl; try discriminate.
  destruct (classify x) eqn:K; simpl; intros H; try discriminate;
    try (apply bind_ok in H; destruct H as [c1 [_ H]]; inversion H; reflexivity); inversion H; reflexivity.
Qed.

Lemma fold_family_mems : forall l c ms c' ms', fold_res (step_family fexists) l (c, ms) = Ok (c', ms') ->
  ms' = (ms ++ members_of l)%list.
Proof.
  induction l as [|m l IH]; simpl; intros c ms c' ms' H. inversion H. rewrite app_nil_r; auto.
  apply bind_ok in H. destruct H as [[c1 ms1] [H1 H2]]. apply step_family_mems in H1. apply IH in H2. subst.
  unfold members_of. simpl. destruct (is_key KActor m); auto. rewrite <- app_assoc. auto.
Qed.

Lemma existsb_false_In : forall {A} (f : A -> bool) l x, existsb f l = false -> In x l -> f x = false.
Proof. intros. destruct (f x) eqn:E; auto. assert (existsb f l = true). apply existsb_exists; eauto. congruence. Qed.

Theorem parse_args_never_panics : forall mc l, parse_args fexists fcount mc l <> Panic.
Proof.
  intros mc l. unfold parse_args. apply bind_not_panic. 2: apply cross_check_np.
  destruct mc.
  - apply bind_not_panic. apply parse_nested_actor_np; auto. intros; discriminate.
  - unfold parse_nested_family. destruct (check_path_set l [["actor"]]); try discriminate.
    apply bind_not_panic. apply fold_res_no_panic. intros s x _. apply step_family_np.
    intros [c1 mems]. destruct mems; try discriminate. apply bind_not_panic; try (intros; discriminate).
    apply fold_res_no_panic. intros s x _. apply bind_not_panic; try (intros; discriminate). apply parse_member_np.
Qed.

(* ---------- example ---------- *)
Lemma macs_fold : forall ids acc,
  is_ok (fold_res (fun acc s => match mac_from_ident s with Some k => Ok (acc ++ [k])%list | None => Diag DExample end) ids acc)
  = forallb (fun s => String.eqb s "actor" || String.eqb s "family") ids.
Proof.
  induction ids; simpl; intros; auto. unfold mac_from_ident at 1.
  destruct (String.eqb a "actor"); simpl. apply IHids. destruct (String.eqb a "family"); simpl; auto.
Qed.

Lemma expand_names : forall l, forallb (fun m => single (mpath m)) l = true ->
  forallb (fun s => String.eqb s "actor" || String.eqb s "family") (map leaf_name l)
  = forallb (fun x => is_ident (mpath x) "actor" || is_ident (mpath x) "family") l.
Proof.
  induction l; simpl; intros; auto. apply andb_prop in H. destruct H. rewrite IHl; auto. f_equal.
  unfold leaf_name, is_ident. destruct (mpath a) as [|x [|y r]]; simpl in *; auto; discriminate.
Qed.

Lemma step_example_isok : forall e m, is_ok (step_example fexists e m) = ex_item_valid fexists m.
Proof.
  intros e m. unfold step_example, ex_item_valid, xclassify.
  destruct (is_ident (mpath m) "main"). destruct m; auto.
  destruct (is_ident (mpath m) "path").
  { unfold v_file, meta_get_path. destruct (get_lit_str m) eqn:E; simpl.
    - apply get_lit_str_ok in E. destruct E as [E1 E2]. rewrite E1, E2. simpl. destruct (fexists a); auto.
    - pose proof (get_lit_str_isok m) as H. rewrite E in H. simpl in H. destruct (v_str m); auto. destruct (String.eqb s ""); simpl in *; auto; discriminate.
    - exfalso. apply (get_lit_str_not_panic m); auto. }
  destruct (is_ident (mpath m) "expand"); auto.
  unfold v_expand. destruct m as [p|p l|p|p v]; simpl; auto.
  rewrite words_fold. rewrite get_idents_spec. rewrite forallb_and. rewrite bare_words.
  destruct (forallb v_flag l); simpl; auto.
  destruct (forallb (fun m => single (mpath m)) l) eqn:E; simpl; auto.
  rewrite <- (expand_names l E). pose proof (macs_fold (map leaf_name l) []) as MF.
  destruct (fold_res _ (map leaf_name l) []); simpl in *; auto.
Qed.

Lemma fold_example_isok : forall l e, is_ok (fold_res (step_example fexists) l e) = forallb (ex_item_valid fexists) l.
Proof.
  induction l as [|m l IH]; simpl; intros; auto.
  rewrite <- (step_example_isok e m). destruct (step_example fexists e m); simpl; auto.
Qed.

Definition is_xpath (m : meta) : bool := match xclassify m with XPath => true | _ => false end.
Definition is_xmain (m : meta) : bool := match xclassify m with XMain => true | _ => false end.

Definition is_some {A} (o : option A) : bool := match o with Some _ => true | None => false end.

Lemma step_example_frame : forall e m e', step_example fexists e m = Ok e' ->
  (is_some (x_path e') = is_xpath m || is_some (x_path e)) /\ (x_main e' = is_xmain m || x_main e).
Proof.
  intros e m e'. unfold step_example, is_xpath, is_xmain, xclassify.
  destruct (is_ident (mpath m) "main"). intros H. apply bind_ok in H. destruct H as [u [_ H]]. inversion H; simpl; auto.
  destruct (is_ident (mpath m) "path"). intros H. apply bind_ok in H. destruct H as [s [_ H]]. inversion H; simpl; auto.
  destruct (is_ident (mpath m) "expand"). intros H. apply bind_ok in H. destruct H as [o [_ H]]. destruct o; try discriminate.
  apply bind_ok in H. destruct H as [u [_ H]]. apply bind_ok in H. destruct H as [ids [_ H]]. apply bind_ok in H. destruct H as [ms [_ H]]. inversion H; simpl; auto.
  discriminate.
Qed.

Lemma fold_example_frame : forall l e e', fold_res (step_example fexists) l e = Ok e' ->
  (is_some (x_path e') = existsb is_xpath l || is_some (x_path e)) /\ (x_main e' = existsb is_xmain l || x_main e).
Proof.
  induction l as [|m l IH]; simpl; intros e e' H. inversion H; auto.
  apply bind_ok in H. destruct H as [e1 [H1 H2]]. apply step_example_frame in H1. apply IH in H2. destruct H1 as [A1 A2], H2 as [B1 B2].
  rewrite B1, B2, A1, A2. split; rewrite orb_assoc; f_equal; apply orb_comm.
Qed.

Lemma has_xpath : forall l, has_xkey XPath l = existsb is_xpath l.
Proof. intros. unfold has_xkey, is_xpath. induction l; simpl; auto; try (rewrite IHl; destruct (xclassify a); auto). Qed.
Lemma has_xmain : forall l, has_xkey XMain l = existsb is_xmain l.
Proof. intros. unfold has_xkey, is_xmain. induction l; simpl; auto; try (rewrite IHl; destruct (xclassify a); auto). Qed.

Theorem example_accept_iff_valid : forall l, is_ok (parse_example fexists l) = valid_example fexists l.
Proof.
  intros l. unfold parse_example, valid_example. rewrite check_path_set_nil. destruct (nodupb (map mpath l)); simpl; auto.
  rewrite <- (fold_example_isok l ecfg0). destruct (fold_res (step_example fexists) l ecfg0) eqn:F; simpl; auto.
  apply fold_example_frame in F. destruct F as [F _]. simpl in F. rewrite orb_false_r in F. rewrite has_xpath. rewrite <- F.
  destruct (x_path a); auto.
Qed.

Theorem example_never_panics : forall l, parse_example fexists l <> Panic.
Proof.
  intros. unfold parse_example. destruct (check_path_set l []); try discriminate.
  apply bind_not_panic. 2: intros a; destruct (x_path a); discriminate.
  apply fold_res_no_panic. intros e m _. unfold step_example.
  destruct (is_ident (mpath m) "main"). apply bind_not_panic. apply expect_word_np. intros; discriminate.
  destruct (is_ident (mpath m) "path").
  apply bind_not_panic. unfold meta_get_path. apply bind_not_panic. apply get_lit_str_not_panic. intros; destruct (fexists a); discriminate. intros; discriminate.
  destruct (is_ident (mpath m) "expand"); try discriminate.
  apply bind_not_panic. apply get_list_np. intros [ml|]; try discriminate. rewrite words_fold. rewrite get_idents_spec.
  destruct (forallb v_flag ml); simpl; try discriminate.
  destruct (forallb (fun m0 => single (mpath m0)) ml); simpl; try discriminate.
  apply bind_not_panic; try (intros; discriminate). apply fold_res_no_panic. intros. destruct (mac_from_ident x); discriminate.
Qed.

Theorem example_main_faithful : forall l e, parse_example fexists l = Ok e -> x_main e = has_xkey XMain l.
Proof.
  intros l e. unfold parse_example. destruct (check_path_set l []); try discriminate. intros H.
  apply bind_ok in H. destruct H as [e1 [H1 H2]]. destruct (x_path e1); try discriminate. inversion H2; subst.
  apply fold_example_frame in H1. destruct H1 as [_ H1]. rewrite H1. simpl. rewrite orb_false_r. rewrite has_xmain; auto.
Qed.

(* ---------- family: one step, the loop ---------- *)
Lemma step_family_ok : forall c ms m c' ms', a_mac c = Family -> step_family fexists (c, ms) m = Ok (c', ms') -> c' = apply_fam_item c m.
Proof.
  intros c ms m c' ms' MC. unfold step_family, get_ident, apply_fam_item, apply_item, mkey.
  destruct (mpath m) as [|x [|y r]] eqn:P; simpl; try discriminate.
  destruct (classify x) eqn:K; simpl; intros H; try discriminate;
    try (apply bind_ok in H; destruct H as [c1 [H1 H2]]; inversion H2; subst ms'; try subst c1).
  - apply (name_ok m (fun o => set_name o c)); auto.
  - apply (lib_ok m (fun o => set_lib o c)); auto.
  - crush_m m; inversion H1; auto.
  - apply (chan_ok m (fun o => set_chan o c)); auto.
  - unfold edit_den_family. rewrite MC in H1. destruct (edit_parse_family (a_edit c) m); simpl in H1; inversion H1; auto.
  - crush_m m; inversion H1; auto.
  - apply (file_ok m (fun o => set_file o c)); auto.
  - inversion H; auto.
  - auto.
  - auto.
Qed.

Lemma step_family_isok : forall c ms m, (a_edit c = edit0 \/ is_key KEdit m = false) -> a_mac c = Family ->
  is_ok (step_family fexists (c, ms) m) = fam_item_valid fexists m.
Proof.
  intros c ms m. unfold step_family, get_ident, fam_item_valid, is_key, mkey.
  destruct (mpath m) as [|x [|y r]] eqn:P; simpl; auto.
  destruct (classify x) eqn:K; simpl; intros ED MC; auto.
  - rewrite <- (name_isok m (fun o => set_name (Some o) c)). destruct (s <- get_lit_str m;; x0 <- format_ident s;; Ok (set_name (Some x0) c)); auto.
  - rewrite <- (lib_isok m (fun o => set_lib o c)). destruct (s <- get_lit_str m;; l <- lib_of s;; Ok (set_lib l c)); auto.
  - crush_m m.
  - rewrite <- (chan_isok m (fun o => set_chan o c)). destruct (v <- get_lit m;; ch <- chan_of v;; Ok (set_chan ch c)); auto.
  - destruct ED as [ED|ED]; try discriminate. rewrite ED, MC. unfold v_edit_family. destruct (edit_parse_family edit0 m); auto.
  - crush_m m.
  - rewrite <- (file_isok m (fun o => set_file (Some o) c)). destruct (p <- meta_get_path fexists m;; Ok (set_file (Some p) c)); auto.
  - crush_m m.
  - crush_m m.
Qed.

Lemma apply_fam_item_mac : forall c m, a_mac (apply_fam_item c m) = a_mac c.
Proof. intros. unfold apply_fam_item, apply_item. destruct (mkey m); auto. Qed.
Lemma apply_fam_item_edit : forall c m, is_key KEdit m = false -> a_edit (apply_fam_item c m) = a_edit c.
Proof. intros c m. unfold apply_fam_item, apply_item, is_key. destruct (mkey m); simpl; auto; discriminate. Qed.

Definition naf := (fun p : path => negb (path_mem p [["actor"]])).

Lemma has_key_false_NoDup_f : forall k m l, k <> KOther -> k <> KActor -> mkey m = k -> NoDup (filter naf (map mpath (m :: l))) -> has_key k l = false.
Proof.
  intros k m l N NA K D. simpl in D. pose proof (mkey_path m k K N) as PM. rewrite PM in D.
  assert (NF : naf [kname k] = true). { destruct k; try reflexivity; congruence. }
  rewrite NF in D. inversion D; subst. destruct (has_key (mkey m) l) eqn:E; auto.
  unfold has_key in E. apply existsb_exists in E. destruct E as [m' [I1 I2]]. unfold is_key in I2. apply okey_beq_eq in I2.
  exfalso. apply H1. apply filter_In. split; auto. rewrite <- (mkey_path m' (mkey m) I2 N). apply in_map; auto.
Qed.

Lemma NoDup_filter_tail : forall (f : path -> bool) p l, NoDup (filter f (p :: l)) -> NoDup (filter f l).
Proof. intros. simpl in H. destruct (f p); auto. inversion H; auto. Qed.

Lemma fold_family_isok : forall l c ms, NoDup (filter naf (map mpath l)) -> a_mac c = Family ->
  (a_edit c = edit0 \/ has_key KEdit l = false) ->
  is_ok (fold_res (step_family fexists) l (c, ms)) = forallb (fam_item_valid fexists) l.
Proof.
  induction l as [|m l IH]; intros c ms ND MC ED; cbn [fold_res forallb]; auto.
  assert (ED1 : a_edit c = edit0 \/ is_key KEdit m = false).
  { destruct ED as [ED|ED]; auto. apply has_key_cons_false in ED. tauto. }
  rewrite <- (step_family_isok c ms m ED1 MC).
  destruct (step_family fexists (c, ms) m) as [[c' ms']| |] eqn:S; cbn [bind is_ok andb]; auto.
  pose proof (step_family_ok c ms m c' ms' MC S) as E. subst c'. apply IH; auto.
  - simpl in ND. apply (NoDup_filter_tail naf (mpath m)); auto.
  - rewrite apply_fam_item_mac; auto.
  - destruct (is_key KEdit m) eqn:IK.
    + right. unfold is_key in IK. apply okey_beq_eq in IK. apply (has_key_false_NoDup_f KEdit m l); auto; discriminate.
    + rewrite (apply_fam_item_edit c m IK). destruct ED as [ED|ED]; [auto | right; apply has_key_cons_false in ED; tauto].
Qed.

Lemma fold_family_den : forall l c ms c' ms', a_mac c = Family -> fold_res (step_family fexists) l (c, ms) = Ok (c', ms') -> c' = fold_left apply_fam_item l c.
Proof.
  induction l as [|m l IH]; simpl; intros c ms c' ms' MC H. inversion H; auto.
  apply bind_ok in H. destruct H as [[c1 ms1] [H1 H2]]. apply step_family_ok in H1; auto. subst c1. apply IH in H2. auto.
  rewrite apply_fam_item_mac; auto.
Qed.

(* ---------- family: fields of the top configuration ---------- *)
Fixpoint uniq_key (K : okey) (l : list meta) : bool :=
  match l with [] => true | m :: r => (if is_key K m then negb (has_key K r) else true) && uniq_key K r end.

Lemma uniq_key_f : forall K l, K <> KOther -> K <> KActor -> NoDup (filter naf (map mpath l)) -> uniq_key K l = true.
Proof.
  induction l as [|m l IH]; intros N NA ND; simpl; auto.
  rewrite IH; auto. 2: apply (NoDup_filter_tail naf (mpath m)); auto. rewrite andb_true_r.
  destruct (is_key K m) eqn:IK; auto. unfold is_key in IK. apply okey_beq_eq in IK.
  rewrite (has_key_false_NoDup_f K m l); auto.
Qed.

Lemma fold_field_gen : forall {T} (ap : acfg -> meta -> acfg) (F : acfg -> T) (K : okey) (d : mac -> T -> meta -> T),
  (forall c m, a_mac (ap c m) = a_mac c) ->
  (forall c m, F (ap c m) = if is_key K m then d (a_mac c) (F c) m else F c) ->
  forall l c, uniq_key K l = true ->
  F (fold_left ap l c) = match find_key K l with Some m => d (a_mac c) (F c) m | None => F c end.
Proof.
  intros T ap F K d HM HF. induction l as [|m l IH]; intros c U; simpl; auto.
  simpl in U. apply andb_prop in U. destruct U as [U1 U2]. unfold find_key. simpl. destruct (is_key K m) eqn:IK.
  - apply negb_true_iff in U1. rewrite IH; auto. rewrite (has_key_find_none K l U1). rewrite HF. rewrite IK. auto.
  - rewrite IH; auto. rewrite HF. rewrite IK. rewrite HM. auto.
Qed.

Lemma fold_field_frame : forall {T} (ap : acfg -> meta -> acfg) (F : acfg -> T),
  (forall c m, F (ap c m) = F c) -> forall l c, F (fold_left ap l c) = F c.
Proof. intros T ap F H. induction l; simpl; intros; auto. rewrite IHl. auto. Qed.

Definition fam_fold (l : list meta) := fold_left apply_fam_item l (set_mac Family acfg0).

Lemma fam_mac : forall l, a_mac (fam_fold l) = Family.
Proof. intros. unfold fam_fold. rewrite (fold_field_frame apply_fam_item a_mac apply_fam_item_mac). auto. Qed.
Lemma fam_filter : forall l, a_filter (fam_fold l) = None.
Proof. intros. unfold fam_fold. rewrite (fold_field_frame apply_fam_item a_filter). auto. intros. unfold apply_fam_item, apply_item. destruct (mkey m); auto. Qed.
Lemma fam_first : forall l, a_first (fam_fold l) = None.
Proof. intros. unfold fam_fold. rewrite (fold_field_frame apply_fam_item a_first). auto. intros. unfold apply_fam_item, apply_item. destruct (mkey m); auto. Qed.
Lemma fam_attr : forall l, a_attr (fam_fold l) = false.
Proof. intros. unfold fam_fold. rewrite (fold_field_frame apply_fam_item a_attr). auto. intros. unfold apply_fam_item, apply_item. destruct (mkey m); auto. Qed.

Lemma fam_edit : forall l, NoDup (filter naf (map mpath l)) ->
  a_edit (fam_fold l) = match find_key KEdit l with Some m => edit_den_family edit0 m | None => edit0 end.
Proof.
  intros. unfold fam_fold. rewrite (fold_field_gen apply_fam_item a_edit KEdit (fun _ e m => edit_den_family e m) apply_fam_item_mac); auto.
  intros c m. unfold apply_fam_item, apply_item, is_key. destruct (mkey m); simpl; auto.
  apply uniq_key_f; auto; discriminate.
Qed.
Lemma fam_file : forall l, NoDup (filter naf (map mpath l)) ->
  a_file (fam_fold l) = match find_key KFile l with Some m => v_str m | None => None end.
Proof.
  intros. unfold fam_fold. rewrite (fold_field_gen apply_fam_item a_file KFile (fun _ _ m => v_str m) apply_fam_item_mac); auto.
  intros c m. unfold apply_fam_item, apply_item, is_key. destruct (mkey m); simpl; auto.
  apply uniq_key_f; auto; discriminate.
Qed.
Lemma fam_lib_spec : forall l, NoDup (filter naf (map mpath l)) -> a_lib (fam_fold l) = fam_lib l.
Proof.
  intros. unfold fam_fold, fam_lib. rewrite (fold_field_gen apply_fam_item a_lib KLib (fun _ _ m => lib_den m) apply_fam_item_mac); auto.
  intros c m. unfold apply_fam_item, apply_item, is_key. destruct (mkey m); simpl; auto.
  apply uniq_key_f; auto; discriminate.
Qed.
Lemma fam_chan : forall l, NoDup (filter naf (map mpath l)) ->
  a_chan (fam_fold l) = match find_key KChannel l with Some m => chan_den m | None => Unbounded end.
Proof.
  intros. unfold fam_fold. rewrite (fold_field_gen apply_fam_item a_chan KChannel (fun _ _ m => chan_den m) apply_fam_item_mac); auto.
  intros c m. unfold apply_fam_item, apply_item, is_key. destruct (mkey m); simpl; auto.
  apply uniq_key_f; auto; discriminate.
Qed.

Definition fix_rcv (c : acfg) : acfg := match a_rcv c with RSlf => set_rcv RRwLock c | _ => c end.
Lemma fix_rcv_frame : forall c, a_mac (fix_rcv c) = a_mac c /\ a_edit (fix_rcv c) = a_edit c /\ a_filter (fix_rcv c) = a_filter c
  /\ a_first (fix_rcv c) = a_first c /\ a_file (fix_rcv c) = a_file c /\ a_lib (fix_rcv c) = a_lib c /\ a_chan (fix_rcv c) = a_chan c /\ a_attr (fix_rcv c) = a_attr c.
Proof. intros. unfold fix_rcv. destruct (a_rcv c); simpl; repeat split; reflexivity. Qed.

(* ---------- family: members ---------- *)
Lemma fold_collect_isok : forall {X Y} (g : X -> res Y) l acc,
  is_ok (fold_res (fun acc x => y <- g x ;; Ok (acc ++ [y])%list) l acc) = forallb (fun x => is_ok (g x)) l.
Proof. induction l; simpl; intros; auto. destruct (g a); simpl; auto. Qed.

Lemma fold_collect_ok : forall {X Y} (g : X -> res Y) (h : X -> Y) l acc r,
  (forall x y, In x l -> g x = Ok y -> y = h x) ->
  fold_res (fun acc x => y <- g x ;; Ok (acc ++ [y])%list) l acc = Ok r -> r = (acc ++ map h l)%list /\ (forall x, In x l -> is_ok (g x) = true).
Proof.
  induction l; simpl; intros acc r Hh H. inversion H. rewrite app_nil_r. split; [auto | intros x []].
  apply bind_ok in H. destruct H as [acc1 [H1 H2]]. apply bind_ok in H1. destruct H1 as [y [H1 H3]]. inversion H3; subst acc1.
  apply IHl in H2. destruct H2 as [H2 H4]. subst r. rewrite <- app_assoc. simpl. rewrite (Hh a y); auto. split; auto.
  intros x [E|I]. subst. rewrite H1; auto. auto. intros; apply (Hh x); auto.
Qed.

Lemma valid_first : forall ml, forallb (item_valid fexists Family) ml = true ->
  is_some (match find_key KFirstName ml with Some m => v_str m | None => None end) = has_key KFirstName ml.
Proof.
  intros ml V. unfold find_key, has_key. destruct (find (is_key KFirstName) ml) eqn:E.
  - apply find_some in E. destruct E as [E1 E2]. assert (X : existsb (is_key KFirstName) ml = true). apply existsb_exists; eauto. rewrite X.
    rewrite forallb_forall in V. specialize (V m E1). unfold is_key in E2. apply okey_beq_eq in E2. unfold item_valid in V. rewrite E2 in V.
    unfold v_name in V. destruct (v_str m); auto; discriminate.
  - destruct (existsb (is_key KFirstName) ml) eqn:X; auto. apply existsb_exists in X. destruct X as [x [X1 X2]].
    pose proof (find_none _ _ E x X1). congruence.
Qed.

Lemma parse_member_isok : forall proto mem, a_edit proto = edit0 -> a_filter proto = None -> a_mac proto = Family -> a_first proto = None ->
  is_ok (parse_member fexists proto mem) = member_valid fexists mem.
Proof.
  intros proto mem E0 F0 M0 N0. unfold parse_member, member_valid. destruct mem as [p|p ml|p|p v]; simpl in *; auto.
  pose proof (parse_nested_actor_isok ml proto E0 F0) as H. rewrite M0 in H.
  destruct (parse_nested_actor fexists proto ml) as [other| |] eqn:P; simpl in *; rewrite <- H; simpl; auto.
  symmetry in H. apply andb_prop in H. destruct H as [H H3]. apply andb_prop in H. destruct H as [H1 H2].
  apply parse_nested_actor_den in P. destruct P as [P ND]. subst other. rewrite den_first; auto. rewrite N0.
  rewrite <- (valid_first ml H2). destruct (match find_key KFirstName ml with Some m => v_str m | None => None end); auto.
Qed.

Lemma parse_member_den : forall top mem y, parse_member fexists (proto_of top) mem = Ok y ->
  y = denote_member top mem /\ NoDup (map mpath (member_list mem)).
Proof.
  intros top mem y. unfold parse_member, denote_member. destruct mem as [p|p ml|p|p v]; simpl; try discriminate. intros H.
  apply bind_ok in H. destruct H as [other [H1 H2]]. apply parse_nested_actor_den in H1. destruct H1 as [H1 ND]. subst other.
  destruct (a_first (denote_actor_from (proto_of top) ml)); try discriminate. inversion H2; auto.
Qed.

(* ---------- family: accept <-> valid, faithfulness ---------- *)
Lemma proto_frame : forall c, a_edit (proto_of c) = edit0 /\ a_filter (proto_of c) = a_filter c /\ a_mac (proto_of c) = a_mac c /\ a_first (proto_of c) = a_first c.
Proof. intros. unfold proto_of. simpl. repeat split; reflexivity. Qed.

Lemma top_facts : forall l, let top := fix_rcv (fam_fold l) in
  a_mac top = Family /\ a_filter top = None /\ a_first top = None /\ a_attr top = false.
Proof.
  intros l top. destruct (fix_rcv_frame (fam_fold l)) as [A [B [C [D [E [F [G H]]]]]]]. unfold top.
  rewrite A, C, D, H. rewrite fam_mac, fam_filter, fam_first, fam_attr. repeat split; reflexivity.
Qed.

Lemma existsb_map : forall {A B} (f : B -> bool) (g : A -> B) l, existsb f (map g l) = existsb (fun x => f (g x)) l.
Proof. induction l; simpl; auto. rewrite IHl; auto. Qed.

Lemma existsb_ext_in : forall {A} (f g : A -> bool) l, (forall x, In x l -> f x = g x) -> existsb f l = existsb g l.
Proof. induction l; simpl; intros; auto. rewrite H; auto. rewrite IHl; auto. Qed.

Lemma forallb_ext_in : forall {A} (f g : A -> bool) l, (forall x, In x l -> f x = g x) -> forallb f l = forallb g l.
Proof. induction l; simpl; intros; auto. rewrite H; auto. rewrite IHl; auto. Qed.

Lemma cps_actor : forall l, check_path_set l [["actor"]] = nodupb (filter not_actor_path (map mpath l)).
Proof. intros. apply check_path_set_spec. Qed.

Lemma parse_nested_family_isok : forall l,
  is_ok (parse_nested_family fexists (set_mac Family acfg0) l) =
  nodupb (filter not_actor_path (map mpath l)) && forallb (fam_item_valid fexists) l
  && negb (match members_of l with [] => true | _ => false end) && forallb (member_valid fexists) (members_of l).
Proof.
  intros l.
  unfold parse_nested_family. rewrite cps_actor. destruct (nodupb (filter not_actor_path (map mpath l))) eqn:ND; simpl; auto.
  apply nodupb_NoDup in ND.
  rewrite <- (fold_family_isok l (set_mac Family acfg0) [] ND eq_refl (or_introl eq_refl)).
  destruct (fold_res (step_family fexists) l (set_mac Family acfg0, [])) as [[c1 mems]| |] eqn:F; simpl; auto.
  pose proof (fold_family_den l (set_mac Family acfg0) [] c1 mems eq_refl F) as E1. pose proof (fold_family_mems _ _ _ _ _ F) as E2. simpl in E2. subst mems.
  fold (fam_fold l) in E1. subst c1. fold (fix_rcv (fam_fold l)).
  destruct (members_of l) as [|m0 mr] eqn:ML; [simpl; auto|]. cbv match beta. rewrite <- ML. cbn [negb andb].
  destruct (top_facts l) as [T1 [T2 [T3 T4]]].
  pose proof (fold_collect_isok (parse_member fexists (proto_of (fix_rcv (fam_fold l)))) (members_of l) []) as FC.
  destruct (fold_res _ (members_of l) []) eqn:FM; simpl in *; rewrite FC; apply forallb_ext_in; intros x I;
    (apply parse_member_isok; [reflexivity | exact T2 | exact T1 | exact T3]).
Qed.

Lemma parse_nested_family_den : forall l c, parse_nested_family fexists (set_mac Family acfg0) l = Ok c ->
  c = {| c_top := denote_family_top l; c_members := map (denote_member (denote_family_top l)) (members_of l) |}
  /\ NoDup (filter not_actor_path (map mpath l)) /\ (forall mem, In mem (members_of l) -> NoDup (map mpath (member_list mem))).
Proof.
  intros l c. unfold parse_nested_family. rewrite cps_actor. destruct (nodupb (filter not_actor_path (map mpath l))) eqn:ND; try discriminate.
  apply nodupb_NoDup in ND. intros H. apply bind_ok in H. destruct H as [[c1 mems] [F H]].
  pose proof (fold_family_den l (set_mac Family acfg0) [] c1 mems eq_refl F) as E1. pose proof (fold_family_mems _ _ _ _ _ F) as E2. simpl in E2. subst mems.
  fold (fam_fold l) in E1. subst c1. fold (fix_rcv (fam_fold l)) in H. change (fix_rcv (fam_fold l)) with (denote_family_top l) in H.
  destruct (members_of l) as [|m0 mr] eqn:ML; try discriminate. rewrite <- ML in *.
  apply bind_ok in H. destruct H as [ms [H1 H2]]. inversion H2; subst c. clear H2.
  assert (HD : forall x y, In x (members_of l) -> parse_member fexists (proto_of (denote_family_top l)) x = Ok y -> y = denote_member (denote_family_top l) x).
  { intros x y _ P. apply parse_member_den in P. tauto. }
  pose proof (fold_collect_ok _ _ _ _ _ HD H1) as [R1 R2]. simpl in R1. subst ms. split; auto. split; auto.
  intros mem I. specialize (R2 mem I). destruct (parse_member fexists (proto_of (denote_family_top l)) mem) eqn:P; try discriminate.
  apply parse_member_den in P. tauto.
Qed.

Lemma fam_active_spec : forall l, NoDup (filter not_actor_path (map mpath l)) ->
  (forall mem, In mem (members_of l) -> NoDup (map mpath (member_list mem))) ->
  cfg_active {| c_top := denote_family_top l; c_members := map (denote_member (denote_family_top l)) (members_of l) |} = fam_markers l.
Proof.
  intros l ND NM. unfold cfg_active, fam_markers. simpl.
  change (denote_family_top l) with (fix_rcv (fam_fold l)).
  destruct (top_facts l) as [T1 [T2 [T3 T4]]]. rewrite T1.
  destruct (fix_rcv_frame (fam_fold l)) as [A [B _]]. rewrite B. rewrite fam_edit; auto. f_equal.
  - unfold markers_family. destruct (find_key KEdit l); auto.
  - rewrite existsb_map. apply existsb_ext_in. intros mem I. unfold denote_member. simpl.
    apply markers_spec; auto.
Qed.

Lemma cross_check_family_isok : forall c, a_mac (c_top c) = Family ->
  is_ok (cross_check fcount c) =
  (if cfg_active c then match a_file (c_top c) with Some f => match fcount f with FOne => true | _ => false end | None => false end else true)
  && negb (match a_lib (c_top c) with Smol => true | _ => false end).
Proof.
  intros c M. unfold cross_check. destruct (cfg_active c); simpl.
  - destruct (a_file (c_top c)); simpl; auto. destruct (fcount s); simpl; auto. rewrite M. destruct (a_lib (c_top c)); auto.
  - rewrite M. destruct (a_lib (c_top c)); auto.
Qed.

Theorem family_accept_iff_valid : forall l,
  is_ok (parse_args fexists fcount Family l) = valid_family fexists fcount l.
Proof.
  intros l. unfold parse_args, valid_family.
  pose proof (parse_nested_family_isok l) as H.
  destruct (parse_nested_family fexists (set_mac Family acfg0) l) as [c| |] eqn:P; simpl in *; rewrite <- H; simpl; auto.
  apply parse_nested_family_den in P. destruct P as [P [ND NM]]. subst c.
  destruct (top_facts l) as [T1 _]. rewrite cross_check_family_isok; auto.
  rewrite fam_active_spec; auto. simpl. change (denote_family_top l) with (fix_rcv (fam_fold l)).
  destruct (fix_rcv_frame (fam_fold l)) as [_ [_ [_ [_ [E [F _]]]]]]. rewrite E, F. rewrite fam_file; auto. rewrite fam_lib_spec; auto.
  unfold file_one. destruct (find_key KFile l); auto.
Qed.

Theorem family_faithful : forall l c, parse_args fexists fcount Family l = Ok c -> c = denote_family l.
Proof.
  intros l c H. unfold parse_args in H. apply bind_ok in H. destruct H as [c1 [P H]].
  apply parse_nested_family_den in P. destruct P as [P [ND NM]]. subst c1.
  unfold cross_check in H. rewrite fam_active_spec in H; auto. unfold denote_family. simpl in H.
  destruct (top_facts l) as [T1 _]. change (fix_rcv (fam_fold l)) with (denote_family_top l) in T1.
  destruct (fam_markers l).
  - destruct (a_file (denote_family_top l)); try discriminate. destruct (fcount s); try discriminate. simpl in H. rewrite T1 in H.
    destruct (a_lib (denote_family_top l)); try discriminate; inversion H; auto.
  - simpl in H. rewrite T1 in H. destruct (a_lib (denote_family_top l)); try discriminate; inversion H; auto.
Qed.

(* ---------- documented rules (corollaries) ---------- *)
Lemma not_ok_diag : forall {A} (r : res A), is_ok r = false -> r <> Panic -> exists d, r = Diag d.
Proof. intros. destruct r; simpl in *; try discriminate; eauto. congruence. Qed.

Theorem actor_rule_duplicate : forall l, nodupb (map mpath l) = false -> is_ok (parse_args fexists fcount Actor l) = false.
Proof. intros. unfold parse_args, parse_nested_actor. rewrite check_path_set_nil. rewrite H. auto. Qed.

Theorem family_rule_duplicate : forall l, nodupb (filter not_actor_path (map mpath l)) = false -> is_ok (parse_args fexists fcount Family l) = false.
Proof. intros. unfold parse_args, parse_nested_family. rewrite cps_actor. rewrite H. auto. Qed.

Lemma forallb_false_In : forall {A} (f : A -> bool) l x, In x l -> f x = false -> forallb f l = false.
Proof. intros. destruct (forallb f l) eqn:E; auto. rewrite forallb_forall in E. rewrite E in H0; auto. Qed.

Theorem actor_rule_invalid_item : forall l m, In m l -> item_valid fexists Actor m = false ->
  is_ok (parse_args fexists fcount Actor l) = false.
Proof.
  intros l m I V. rewrite actor_accept_iff_valid. unfold valid_actor. rewrite (forallb_false_In _ _ _ I V).
  rewrite andb_false_r. auto.
Qed.

Lemma unknown_key_invalid : forall mc m, mkey m = KOther -> item_valid fexists mc m = false.
Proof. intros. unfold item_valid. rewrite H. auto. Qed.

Lemma has_key_nf : forall l, has_key KInclude l = true \/ has_key KExclude l = true -> 1 <= nf l.
Proof.
  induction l; simpl; intros. destruct H; discriminate. unfold nf. simpl. unfold is_filter_key.
  unfold has_key in *. simpl in H. destruct (is_key KInclude a); simpl; try lia. destruct (is_key KExclude a); simpl; try lia. apply IHl. auto.
Qed.

Lemma include_exclude_nf : forall l, has_key KInclude l = true -> has_key KExclude l = true -> Nat.leb (nf l) 1 = false.
Proof.
  induction l; simpl; intros. discriminate. apply Nat.leb_gt. unfold nf. simpl. unfold is_filter_key.
  unfold has_key in H, H0. simpl in H, H0.
  destruct (is_key KInclude a) eqn:A1; simpl.
  - assert (is_key KExclude a = false). { unfold is_key in *. apply okey_beq_eq in A1. rewrite A1. auto. }
    rewrite H1 in H0. simpl in H0. pose proof (has_key_nf l (or_intror H0)). unfold nf, is_filter_key in H2. lia.
  - destruct (is_key KExclude a) eqn:A2; simpl.
    + simpl in H. pose proof (has_key_nf l (or_introl H)). unfold nf, is_filter_key in H1. lia.
    + simpl in *. specialize (IHl H H0). apply Nat.leb_gt in IHl. unfold nf, is_filter_key in IHl. auto.
Qed.

Theorem actor_rule_include_exclude : forall l, has_key KInclude l = true -> has_key KExclude l = true ->
  is_ok (parse_args fexists fcount Actor l) = false.
Proof.
  intros l I X. rewrite actor_accept_iff_valid. unfold valid_actor. rewrite include_exclude_nf; auto.
  rewrite andb_false_r. auto.
Qed.

Theorem actor_rule_marker_needs_file : forall l, markers l = true -> has_key KFile l = false ->
  is_ok (parse_args fexists fcount Actor l) = false.
Proof.
  intros l M F. rewrite actor_accept_iff_valid. unfold valid_actor. rewrite M. unfold file_one. rewrite (has_key_find_none _ _ F).
  rewrite andb_false_r. auto.
Qed.

Theorem actor_rule_marker_one_macro : forall l m f, markers l = true ->
  find_key KFile l = Some m -> v_str m = Some f -> fcount f <> FOne -> is_ok (parse_args fexists fcount Actor l) = false.
Proof.
  intros l m f M F V C. rewrite actor_accept_iff_valid. unfold valid_actor. rewrite M. unfold file_one. rewrite F, V.
  destruct (fcount f); try congruence; rewrite andb_false_r; auto.
Qed.

Theorem family_rule_invalid_item : forall l m, In m l -> fam_item_valid fexists m = false ->
  is_ok (parse_args fexists fcount Family l) = false.
Proof.
  intros l m I V. rewrite family_accept_iff_valid. unfold valid_family. rewrite (forallb_false_In _ _ _ I V).
  rewrite andb_false_r. auto.
Qed.

Theorem family_rule_smol : forall l, fam_lib l = Smol -> is_ok (parse_args fexists fcount Family l) = false.
Proof. intros l H. rewrite family_accept_iff_valid. unfold valid_family. rewrite H. simpl. rewrite andb_false_r. auto. Qed.

Theorem family_rule_no_members : forall l, members_of l = [] -> is_ok (parse_args fexists fcount Family l) = false.
Proof. intros l H. rewrite family_accept_iff_valid. unfold valid_family. rewrite H. simpl. repeat rewrite andb_false_r. auto. Qed.

Theorem family_rule_member_invalid : forall l mem, In mem (members_of l) -> member_valid fexists mem = false ->
  is_ok (parse_args fexists fcount Family l) = false.
Proof.
  intros l mem I V. rewrite family_accept_iff_valid. unfold valid_family. rewrite (forallb_false_In _ _ _ I V).
  repeat rewrite andb_false_r. auto.
Qed.

Lemma member_needs_first_name : forall p ml, has_key KFirstName ml = false -> member_valid fexists (MList p ml) = false.
Proof. intros. unfold member_valid. rewrite H. rewrite andb_false_r. auto. Qed.

Lemma member_item_invalid : forall p ml m, In m ml -> item_valid fexists Family m = false -> member_valid fexists (MList p ml) = false.
Proof. intros p ml m I V. unfold member_valid. rewrite (forallb_false_In _ _ _ I V). repeat rewrite andb_false_r. auto. Qed.

Theorem family_rule_marker_needs_file : forall l, fam_markers l = true -> has_key KFile l = false ->
  is_ok (parse_args fexists fcount Family l) = false.
Proof.
  intros l M F. rewrite family_accept_iff_valid. unfold valid_family. rewrite M. unfold file_one. rewrite (has_key_find_none _ _ F).
  simpl. repeat rewrite andb_false_r. auto.
Qed.

(* former known-finding classes, now rules *)
Lemma name_not_ident_invalid : forall mc m, mkey m = KName -> v_name m = false -> item_valid fexists mc m = false.
Proof. intros. unfold item_valid. rewrite H. auto. Qed.

Lemma word_only_invalid : forall mc m, mkey m = KDebug -> v_flag m = false -> item_valid fexists mc m = false.
Proof. intros. unfold item_valid. rewrite H. auto. Qed.

Lemma filter_names_words_only : forall mc m, (mkey m = KInclude \/ mkey m = KExclude) -> v_filter m = false -> item_valid fexists mc m = false.
Proof. intros mc m [H|H] V; unfold item_valid; rewrite H; auto. Qed.

Lemma lock_word_only : forall m, (mkey m = KMutex \/ mkey m = KRwLock) -> v_flag m = false -> fam_item_valid fexists m = false.
Proof. intros m [H|H] V; unfold fam_item_valid; rewrite H; auto. Qed.

Theorem example_rule_invalid_item : forall l m, In m l -> ex_item_valid fexists m = false -> is_ok (parse_example fexists l) = false.
Proof.
  intros l m I V. rewrite example_accept_iff_valid. unfold valid_example. rewrite (forallb_false_In _ _ _ I V).
  rewrite andb_false_r. auto.
Qed.

Lemma example_unknown_invalid : forall m, xclassify m = XOther -> ex_item_valid fexists m = false.
Proof. intros. unfold ex_item_valid. rewrite H. auto. Qed.

(* ---------- accepted options are reflected: lookup forms ---------- *)
Lemma actor_ok_shape : forall l c, parse_args fexists fcount Actor l = Ok c ->
  NoDup (map mpath l) /\ c_members c = [] /\
  (c_top c = denote_actor_from (set_mac Actor acfg0) l \/ c_top c = set_attr true (denote_actor_from (set_mac Actor acfg0) l)).
Proof.
  intros l c H. pose proof (actor_faithful l c H) as E. unfold parse_args in H. apply bind_ok in H. destruct H as [c1 [H1 _]].
  apply bind_ok in H1. destruct H1 as [a [H1 _]]. apply parse_nested_actor_den in H1. destruct H1 as [_ ND].
  subst c. unfold denote_actor. simpl. split; auto. split; auto. destruct (markers l); auto.
Qed.

Theorem actor_lib_reflected : forall l c, parse_args fexists fcount Actor l = Ok c ->
  a_lib (c_top c) = match find_key KLib l with Some m => lib_den m | None => Std end.
Proof. intros l c H. destruct (actor_ok_shape l c H) as [ND [_ [E|E]]]; rewrite E; simpl; rewrite den_lib; auto. Qed.

Theorem actor_channel_reflected : forall l c, parse_args fexists fcount Actor l = Ok c ->
  a_chan (c_top c) = match find_key KChannel l with Some m => chan_den m | None => Unbounded end.
Proof. intros l c H. destruct (actor_ok_shape l c H) as [ND [_ [E|E]]]; rewrite E; simpl; rewrite den_chan; auto. Qed.

Theorem actor_name_reflected : forall l c, parse_args fexists fcount Actor l = Ok c ->
  a_name (c_top c) = match find_key KName l with Some m => v_str m | None => None end.
Proof. intros l c H. destruct (actor_ok_shape l c H) as [ND [_ [E|E]]]; rewrite E; simpl; rewrite den_name; auto. Qed.

Theorem actor_file_reflected : forall l c, parse_args fexists fcount Actor l = Ok c ->
  a_file (c_top c) = match find_key KFile l with Some m => v_str m | None => None end.
Proof. intros l c H. destruct (actor_ok_shape l c H) as [ND [_ [E|E]]]; rewrite E; simpl; rewrite den_file; auto. Qed.

Theorem actor_flags_reflected : forall l c, parse_args fexists fcount Actor l = Ok c ->
  a_debut (c_top c) = has_key KDebut l /\ a_interact (c_top c) = has_key KInteract l /\ a_show (c_top c) = has_key KShow l
  /\ a_debug (c_top c) = has_key KDebug l.
Proof.
  intros l c H. destruct (actor_ok_shape l c H) as [ND [_ E]].
  assert (D : forall (F : acfg -> bool) K, K <> KOther -> (forall c m, F (apply_item c m) = if is_key K m then true else F c) ->
              F (set_mac Actor acfg0) = false -> (forall a, F (set_attr true a) = F a) -> F (c_top c) = has_key K l).
  { intros F K NK HF F0 FA. destruct E as [E|E]; rewrite E; try rewrite FA; rewrite (den_flag F K NK HF l _ ND); rewrite F0; destruct (has_key K l); auto. }
  repeat split; apply D; try discriminate; auto; intros c0 m; unfold apply_item, is_key; destruct (mkey m); auto.
Qed.

Theorem actor_filter_reflected : forall l c, parse_args fexists fcount Actor l = Ok c -> has_key KExclude l = false ->
  a_filter (c_top c) = match find_key KInclude l with Some m => Some (filter_den true m) | None => None end.
Proof. intros l c H X. destruct (actor_ok_shape l c H) as [ND [_ [E|E]]]; rewrite E; simpl; rewrite den_filter; auto. Qed.

Lemma family_ok_shape : forall l c, parse_args fexists fcount Family l = Ok c ->
  NoDup (filter not_actor_path (map mpath l)) /\ (forall mem, In mem (members_of l) -> NoDup (map mpath (member_list mem))) /\ c = denote_family l.
Proof.
  intros l c H. pose proof (family_faithful l c H) as E. unfold parse_args in H. apply bind_ok in H. destruct H as [c1 [P _]].
  apply parse_nested_family_den in P. tauto.
Qed.

(* a member's channel is its own `channel` option when present (0 = unbounded), else the family's, else unbounded *)
Theorem family_member_channel : forall l c, parse_args fexists fcount Family l = Ok c ->
  map (fun p => a_chan (snd p)) (c_members c) =
  map (fun mem => match find_key KChannel (member_list mem) with Some m => chan_den m
                  | None => match find_key KChannel l with Some m => chan_den m | None => Unbounded end end) (members_of l).
Proof.
  intros l c H. destruct (family_ok_shape l c H) as [ND [NM E]]. subst c. unfold denote_family. simpl. rewrite map_map.
  apply map_ext_in. intros mem I. unfold denote_member. simpl. rewrite den_chan; auto.
  destruct (find_key KChannel (member_list mem)); auto. change (denote_family_top l) with (fix_rcv (fam_fold l)).
  destruct (fix_rcv_frame (fam_fold l)) as [_ [_ [_ [_ [_ [_ [G _]]]]]]]. unfold proto_of. simpl. rewrite G. apply fam_chan; auto.
Qed.

Theorem family_member_lib : forall l c, parse_args fexists fcount Family l = Ok c ->
  map (fun p => a_lib (snd p)) (c_members c) =
  map (fun mem => match find_key KLib (member_list mem) with Some m => lib_den m | None => fam_lib l end) (members_of l).
Proof.
  intros l c H. destruct (family_ok_shape l c H) as [ND [NM E]]. subst c. unfold denote_family. simpl. rewrite map_map.
  apply map_ext_in. intros mem I. unfold denote_member. simpl. rewrite den_lib; auto.
  destruct (find_key KLib (member_list mem)); auto. change (denote_family_top l) with (fix_rcv (fam_fold l)).
  destruct (fix_rcv_frame (fam_fold l)) as [_ [_ [_ [_ [_ [F _]]]]]]. unfold proto_of. simpl. rewrite F. apply fam_lib_spec; auto.
Qed.

(* show is not inherited by members *)
Theorem family_member_show : forall l c, parse_args fexists fcount Family l = Ok c ->
  map (fun p => a_show (snd p)) (c_members c) = map (fun mem => has_key KShow (member_list mem)) (members_of l).
Proof.
  intros l c H. destruct (family_ok_shape l c H) as [ND [NM E]]. subst c. unfold denote_family. simpl. rewrite map_map.
  apply map_ext_in. intros mem I. unfold denote_member. simpl.
  rewrite (den_flag a_show KShow); auto. destruct (has_key KShow (member_list mem)); auto. discriminate.
  intros c0 m; unfold apply_item, is_key; destruct (mkey m); auto.
Qed.

Theorem family_lock_reflected : forall l c, parse_args fexists fcount Family l = Ok c -> a_rcv (c_top c) <> RSlf.
Proof.
  intros l c H. destruct (family_ok_shape l c H) as [_ [_ E]]. subst c. unfold denote_family. simpl.
  assert (a_rcv (denote_family_top l) <> RSlf). { unfold denote_family_top. destruct (a_rcv (fold_left apply_fam_item l (set_mac Family acfg0))) eqn:R; simpl; congruence. }
  destruct (fam_markers l); auto.
Qed.

End FSThm.

(* ---------- documented rules of the edit grammar ("nesting `file` is not permitted", unknown edit option, empty lists) ---------- *)
Lemma get_list_ne_mid : forall p l1 (x : meta) l2 h, get_list_ne (MList p (l1 ++ x :: l2)%list) h = Ok (Some (l1 ++ x :: l2)%list).
Proof. intros. unfold get_list_ne. simpl. destruct l1; reflexivity. Qed.

Theorem edit_rule_nested_file_top : forall e p l1 l2 inner,
  is_ok (edit_parse e (MList p [MList ["file"] (l1 ++ MList ["file"] inner :: l2)])) = false.
Proof.
  intros. unfold edit_parse. simpl. rewrite get_list_ne_mid. simpl. apply fold_res_fail. intros s. reflexivity.
Qed.

Theorem edit_rule_nested_file_in_sol : forall e sol l1 l2 inner, (sol = "script" \/ sol = "live") ->
  is_ok (parse_sol e (MList [sol] (l1 ++ MList ["file"] inner :: l2)) true) = false.
Proof.
  intros e sol l1 l2 inner S. unfold parse_sol.
  destruct (if is_ident (mpath (MList [sol] (l1 ++ MList ["file"] inner :: l2))) "script" then if is_none (e_script e) then Ok true else Diag DDup
            else if is_ident (mpath (MList [sol] (l1 ++ MList ["file"] inner :: l2))) "live" then if is_none (e_live e) then Ok false else Diag DDup else Diag DEdit); simpl; auto.
  rewrite get_list_ne_mid. simpl. apply fold_res_fail. intros s. reflexivity.
Qed.

Theorem edit_rule_unknown_option : forall e p x, is_ident (mpath x) "script" = false -> is_ident (mpath x) "live" = false ->
  is_ident (mpath x) "file" = false -> is_ok (edit_parse e (MList p [x])) = false.
Proof. intros e p x H1 H2 H3. unfold edit_parse. simpl. rewrite H3. unfold parse_sol. rewrite H1, H2. reflexivity. Qed.

(* `edit()`, `script()`, `live()`, `imp()`, `trt()`, `file()`: an empty list is rejected wherever the edit grammar reads a list *)
Theorem edit_rule_empty_list : forall e p,
  is_ok (edit_parse e (MList p [])) = false /\ is_ok (edit_parse_family e (MList p [])) = false
  /\ (forall f, is_ok (parse_sol e (MList p []) f) = false)
  /\ (forall os f, is_ok (nested_idents os (MList p []) f) = false)
  /\ is_ok (get_file_list (MList p [])) = false.
Proof.
  intros e p. repeat split; try reflexivity.
  intros f. unfold parse_sol. destruct (if is_ident (mpath (MList p [])) "script" then if is_none (e_script e) then Ok true else Diag DDup
            else if is_ident (mpath (MList p [])) "live" then if is_none (e_live e) then Ok false else Diag DDup else Diag DEdit); reflexivity.
Qed.

Theorem edit_rule_empty_file_list : forall e p q, is_ok (edit_parse e (MList p [MList ["file"] []; q])) = false
  /\ is_ok (edit_parse e (MList p [MList ["file"] []])) = false.
Proof. intros. split; reflexivity. Qed.
