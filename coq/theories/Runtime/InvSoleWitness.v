(* Why [stopped_by_sole_owner] needs the guard (and [not_clonable_senders] the missing Clone): a failing input by computation.
   Two clients own one handle each (as after a clone), there is no guard; client 0 performs a self-consuming call, its stop
   message is taken and the loop ends with [Stopped] although two handles exist, and client 1 still holds its handle afterwards. *)
From Coq Require Import List Arith Bool.
Import ListNotations.
From IT Require Import Runtime.Actor Runtime.InvSole Runtime.Explore.

Definition m_noguard : rmodel :=
  {| r_cap := None;
     r_meths := [ {| rm_reply := true; rm_send := SBlocking; rm_loud_send := true; rm_loud_wait := true; rm_fields := [0]; rm_args := [0];
                     rm_callee := 0; rm_reply_own := true; rm_loud_reply := true; rm_msg := true |} ];
     r_clonable := true; r_guard := false; r_stop_first := true; r_drain := true |}.

(* client 0: Ready -> StopSend -> StopWait (the stop message is queued); the actor has not taken it yet *)
Definition s_two_handles : st0 := run0 m_noguard 0 [([Consume 0 []], 1); ([], 1)] [Cl 0; Cl 0].

Theorem stopped_with_other_handle_refuted :
  r_guard m_noguard = false /\ r_clonable m_noguard = true
  /\ exited s_two_handles = None /\ senders s_two_handles = 2
  /\ (exists cl, nth_error (clients s_two_handles) 0 = Some cl /\ stopping cl = true /\ c_nh cl = 1)
  /\ exists s', Actor.step sem0 sem_slf0 0 m_noguard s_two_handles Ac = Some s'
       /\ exited s' = Some Stopped
       /\ senders s' = 2
       /\ exists cl1, nth_error (clients s') 1 = Some cl1 /\ c_nh cl1 = 1.
Proof.
  vm_compute. repeat split.
  - eexists. repeat split.
  - eexists. split; [reflexivity|]. repeat split. eexists. split; reflexivity.
Qed.

(* the same programs and schedule with the guard: the self-consuming call is refused, nothing is queued, the actor stays alive *)
Example same_schedule_with_guard :
  let m := {| r_cap := None; r_meths := r_meths m_noguard; r_clonable := true; r_guard := true; r_stop_first := true; r_drain := true |} in
  let s := run0 m 0 [([Consume 0 []], 1); ([], 1)] [Cl 0; Cl 0] in
  queue s = [] /\ senders s = 1 /\ Actor.step sem0 sem_slf0 0 m s Ac = None
  /\ match nth_error (clients s) 0 with Some cl => c_rets cl = [((0, 0), Refused)] | None => False end.
Proof. vm_compute. repeat split. Qed.

Print Assumptions stopped_with_other_handle_refuted.
