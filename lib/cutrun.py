"""Run the REAL `write::write` (hook job fn:write) in a rustc child with harness/cut/libcut.so preloaded.

One rustc process per run (a cut kills the process).  LD_PRELOAD is set for that child only.
"""
import os, subprocess, shutil, glob, hashlib
import hook

VERIF = hook.VERIF
SHIM_SRC = os.path.join(VERIF, "harness", "cut", "libcut.c")
SHIM_DIR = os.path.join(hook.CACHE, "cut")

_shim = {}


def build_shim():
    if "so" in _shim:
        return _shim["so"]
    os.makedirs(SHIM_DIR, exist_ok=True)
    src = open(SHIM_SRC, "rb").read()
    so = os.path.join(SHIM_DIR, "libcut_%s.so" % hashlib.sha1(src).hexdigest()[:12])
    if not os.path.exists(so):
        cc = shutil.which("gcc") or shutil.which("clang")
        if not cc:
            raise hook.InfraError("no C compiler for libcut.so")
        r = hook.sh([cc, "-O1", "-fPIC", "-shared", "-o", so + ".tmp", SHIM_SRC, "-ldl"])
        if r.returncode != 0:
            raise hook.InfraError("libcut.so does not build:\n" + r.stdout[-3000:])
        os.replace(so + ".tmp", so)
    _shim["so"] = so
    return so


# policy keys (mirrored by `pol` in coq/theories/Fs/Crash.v)
POLICY_ENV = {
    "cut_open": "CUT_AT_OPEN", "fail_open": "FAIL_OPEN", "budget": "CUT_AFTER_BYTES", "fail_fsync": "FAIL_FSYNC", "cut_fsync": "CUT_AT_FSYNC",
    "fail_rename": "FAIL_RENAME", "fail_unlink": "FAIL_UNLINK", "cut_unlink": "CUT_AT_UNLINK", "fail_chmod": "FAIL_CHMOD",
}


def policy_env(pol, substr, log):
    env = {"CUT_PATH_SUBSTR": substr, "CUT_LOG": log}
    for k, name in POLICY_ENV.items():
        v = pol.get(k)
        if v is not None and not (k != "budget" and v == 0):
            env[name] = str(v)
    if pol.get("budget") is not None:
        env["CUT_MODE"] = "kill" if pol.get("kill", True) else "error"
    if pol.get("cut_rename_before"):
        env["CUT_AT_RENAME"] = "before"
    elif pol.get("cut_rename_after"):
        env["CUT_AT_RENAME"] = "after"
    return env


def run_write(workdir, target, new_bytes, pol, timeout=120):
    """workdir: private scratch directory of this run; target: path of the file to rewrite (already holding the old content).
    Returns dict(rc, status in {'killed','ok','err','panic','other'}, log=[lines], out=text)"""
    so = hook.build_hook()
    shim = build_shim()
    os.makedirs(workdir, exist_ok=True)
    jf = os.path.join(workdir, "jobs")
    open(jf, "wb").write(hook.enc_records([("fn:write", ["", new_bytes, target])]))
    drv = os.path.join(workdir, "driver.rs")
    open(drv, "w").write('interthread::__verif_batch!("%s");\n' % jf)
    log = os.path.join(workdir, "cut.log")
    env = dict(hook.ENV, CARGO_MANIFEST_DIR=hook.manifest_dir(hook.ALL_CRATES, "all"))
    env.update(policy_env(pol, os.path.basename(target), log))
    env["LD_PRELOAD"] = shim
    cmd = ["rustc", "--edition", "2021", "--crate-type", "lib", "--emit", "metadata", "--out-dir", workdir,
           "--extern", "interthread=" + so, "-L", "dependency=" + os.path.join(hook.TARGET, "debug", "deps"), drv]
    try:
        r = hook.sh(cmd, env=env, timeout=timeout, cwd=workdir)
        rc, out = r.returncode, r.stdout
    except subprocess.TimeoutExpired:
        rc, out = 124, "timeout"
    status = "other"
    outp = jf + ".out"
    if rc == 137:
        status = "killed"
    elif rc == 0 and os.path.exists(outp):
        res = hook.dec_records(open(outp, "rb").read())
        if len(res) == 1 and res[0][0] == "VALUE":
            status = "ok" if res[0][1][0] == "true" else "err"
        elif len(res) == 1:
            status = "panic"
            out += "\n" + repr(res[0])[:500]
    lines = open(log, errors="replace").read().splitlines() if os.path.exists(log) else []
    return {"rc": rc, "status": status, "log": lines, "out": out[-1500:]}


def run_entry(workdir, kind, attr, item, target, pol, timeout=120):
    """the REAL macro entry point (`actor` / `family`) on (attr, item) in a rustc child with the cut shim watching files named like `target`
    (the file the attribute's `file = ".."` option names).  Returns dict(rc, status in {'killed','ok','err','other'}, log, out)"""
    so = hook.build_hook()
    shim = build_shim()
    os.makedirs(workdir, exist_ok=True)
    jf = os.path.join(workdir, "jobs")
    open(jf, "wb").write(hook.enc_records([(kind, [attr, item, hook.manifest_dir(hook.ALL_CRATES, "all"), workdir])]))
    drv = os.path.join(workdir, "driver.rs")
    open(drv, "w").write('interthread::__verif_batch!("%s");\n' % jf)
    log = os.path.join(workdir, "cut.log")
    env = dict(hook.ENV, CARGO_MANIFEST_DIR=hook.manifest_dir(hook.ALL_CRATES, "all"))
    env.update(policy_env(pol, os.path.basename(target), log))
    env["LD_PRELOAD"] = shim
    cmd = ["rustc", "--edition", "2021", "--crate-type", "lib", "--emit", "metadata", "--out-dir", workdir,
           "--extern", "interthread=" + so, "-L", "dependency=" + os.path.join(hook.TARGET, "debug", "deps"), drv]
    try:
        r = hook.sh(cmd, env=env, timeout=timeout, cwd=workdir)
        rc, out = r.returncode, r.stdout
    except subprocess.TimeoutExpired:
        rc, out = 124, "timeout"
    status = "other"
    outp = jf + ".out"
    if rc == 137:
        status = "killed"
    elif rc == 0 and os.path.exists(outp):
        res = hook.dec_records(open(outp, "rb").read())
        if len(res) == 1:
            status = "ok" if res[0][0] == "TOKENS" else "err"
            if status == "err":
                out += "\n" + repr(res[0])[:500]
    lines = open(log, errors="replace").read().splitlines() if os.path.exists(log) else []
    return {"rc": rc, "status": status, "log": lines, "out": out[-1500:]}


def tmp_files(target):
    """sibling files whose name extends the target's file name"""
    return sorted(p for p in glob.glob(glob.escape(target) + "*") if p != target)


if __name__ == "__main__":
    import tempfile, sys
    d = tempfile.mkdtemp(prefix="c17_", dir=hook.WORK if os.path.isdir(hook.WORK) else None)
    t = os.path.join(d, "c17probe_lib.rs")
    for pol in [{}, {"budget": 5}, {"budget": 5, "kill": False}, {"cut_open": 1}, {"fail_rename": 1}, {"cut_rename_after": True}, {"fail_unlink": 1, "fail_fsync": 1}]:
        open(t, "wb").write(b"HELLO WORLD")
        for f in tmp_files(t):
            os.remove(f)
        r = run_write(os.path.join(d, "w"), t, b"hello, new world", pol)
        print(pol, r["rc"], r["status"], repr(open(t, "rb").read()), [(os.path.basename(f), open(f, "rb").read()) for f in tmp_files(t)])
        for l in r["log"]:
            print("    ", l)
        if r["status"] == "other":
            print(r["out"])
        shutil.rmtree(os.path.join(d, "w"), ignore_errors=True)
