#!/bin/bash
# usage: mutant.sh <seed id> <check id> [tier]   -- apply seeded patch to /repo, run a check, revert; the evidence file is preserved
cd /verif
cp evidence/$2.json /tmp/evidence_$2.bak 2>/dev/null
git -C /repo apply /verif/seeded/$1/patch.diff 2>/dev/null || exit 9
./check $2 --tier ${3:-quick} > /tmp/mutant_$1_$2.log 2>&1; rc=$?
git -C /repo checkout -- .
cp /tmp/evidence_$2.bak evidence/$2.json 2>/dev/null
echo "seed=$1 check=$2 exit=$rc violations=$(grep -c '^VIOLATION' /tmp/mutant_$1_$2.log) with-failing-input=$(grep '^VIOLATION' /tmp/mutant_$1_$2.log | grep -vc no-failing)"
