(* C16 -- write-to-file touches only the macro's file markers and inserts the code once.
   Statements only; models in Text/Atp.v Text/Nested.v Text/Assemble.v, proofs in Text/AtpThm.v Text/NestedThm.v
   Text/Assemble.v.  All texts are ASCII (list ascii); byte offsets = character offsets. *)
From Coq Require Import List String Ascii Arith Bool.
Import ListNotations.
From IT Require Import Text.Atp Text.AtpThm Text.Nested Text.NestedThm Text.Assemble.

(* ---- assembly: for every file content and every located attribute / impl end ---- *)
(* everything outside the attribute (exactly its bytes: |old| = |attr|) and outside the inserted block
   is preserved in order; the block starts exactly where the annotated impl ends; the attribute is deleted
   (edit(file)) or replaced by the result of the marker surgery, which is a subsequence of it *)
Theorem C16_assembly_frame : forall src item_end a_idx a_str remove obj init block out,
  edit_write src item_end a_idx a_str remove obj init block = Some out ->
  exists A old B new sfx,
    src = A ++ old ++ B ++ sfx /\
    out = A ++ new ++ B ++ inserted obj init block ++ sfx /\
    List.length A = a_idx /\ List.length old = List.length a_str /\
    List.length (A ++ old ++ B) = item_end /\
    (remove = true -> new = []) /\ (remove = false -> subseq new old /\ edit_remove a_str old = Some new).
Proof. exact assembly_frame. Qed.

(* ---- surgery: for every attribute text ---- *)
(* parse_args records only positions of the delimiters it saw *)
Theorem C16_parse_args_marks : forall s l, parse_args s = Some l -> Forall (ok_arg s) l.
Proof. exact parse_args_marks. Qed.

(* frame: every deleted byte range is `file ... (`, one `)` together with the trailing comma of its group, or one
   parenthesised group `( ... )` *)
Theorem C16_surgery_frame : forall s rs, file_ranges s = Some rs -> Forall (range_shape s) rs.
Proof. exact surgery_frame. Qed.

(* the new attribute text is the old one with characters deleted, nothing inserted or reordered *)
Theorem C16_surgery_subseq : forall actv attr out, edit_remove actv attr = Some out -> subseq out attr.
Proof. exact edit_remove_subseq. Qed.

(* an attribute that is not file-active is left byte-identical (second compilation: nothing more to remove) *)
Theorem C16_surgery_inactive_noop : forall actv attr, is_active_text actv = Some false -> edit_remove actv attr = Some attr.
Proof. exact edit_remove_inactive. Qed.

(* ---- scanner: for every line and every carried-over state ---- *)
(* the scanned line has the length of the source line and differs from it only by blanks, hence offsets found in the
   scanned text are offsets into the source *)
Theorem C16_atp_blanking_only : forall o line o' out, parse_line o line = Done o' out ->
  List.length out = List.length line /\ forall i d, nth i out d = nth i line d \/ nth i out d = sp.
Proof. exact atp_blanking_only. Qed.

Theorem C16_atp_offsets_preserved : forall ls cs, parse_lines None ls = inl cs -> forall i, line_offset cs i = line_offset ls i.
Proof. exact atp_offsets_preserved. Qed.

(* termination, full strength (holds since the repair of the lifetime block): every line, from every carried-over
   state, is scanned within the model's fuel 2*|line|+4; a whole text is always scanned *)
Theorem C16_atp_terminates : forall o line, exists o' out, parse_line o line = Done o' out.
Proof. exact atp_terminates. Qed.

Theorem C16_atp_lines_total : forall ls o, exists cs, parse_lines o ls = inl cs.
Proof. exact atp_lines_total. Qed.

(* a line without slash, apostrophe and double quote is returned verbatim *)
Theorem C16_atp_plain_line_verbatim : forall line, plain_line line = true -> parse_line None line = Done None line.
Proof. exact atp_plain_line_verbatim. Qed.

(* full-strength statement (FALSE, F8): text inside a block comment is never visible to the item search.
   Refuted: the hash sign at offset 9 of AtpThm.nested_line (an attribute inside an outer block comment, after an inner
   block comment has closed) lies inside the outer comment and survives the scan. *)
Theorem C16_atp_nested_comment_refuted : exists line out, parse_lines None [line] = inl [out] /\ nth 9 line sp = "#"%char /\ nth 9 out sp = "#"%char.
Proof. exists nested_line. exact atp_nested_comment_refuted. Qed.

Print Assumptions C16_assembly_frame.
Print Assumptions C16_parse_args_marks.
Print Assumptions C16_surgery_frame.
Print Assumptions C16_surgery_subseq.
Print Assumptions C16_surgery_inactive_noop.
Print Assumptions C16_atp_blanking_only.
Print Assumptions C16_atp_offsets_preserved.
Print Assumptions C16_atp_terminates.
Print Assumptions C16_atp_lines_total.
Print Assumptions C16_atp_plain_line_verbatim.
Print Assumptions C16_atp_nested_comment_refuted.
