From Coq Require Import List Arith Bool Lia.
Import ListNotations.
From IT Require Import Runtime.Actor Runtime.Lists.

Section Inv.
Context {A V : Type}.
Variable sem : nat -> A -> list V -> option (A * V).
Variable sem_slf : nat -> A -> list V -> V.
Variable dv : V.
Notation st := (@st A V).
Notation step := (step sem sem_slf dv).
Notation step' := (step' sem sem_slf dv).
Notation run_from := (run_from sem sem_slf dv).
Notation run := (run sem sem_slf dv).

(* case analysis of one step: one goal per transition *)
Ltac step_cases H :=
  unfold Actor.step, step_client, step_actor in H;
  repeat match type of H with
  | context [match ?x with _ => _ end] => destruct x eqn:?; try discriminate H
  end;
  try (injection H as <-).

Definition cap_ok (m : rmodel) (s : st) := forall n, r_cap m = Some n -> length (queue s) <= n.

Lemma room_length m (q : list (@msg V)) n : r_cap m = Some n -> room (r_cap m) q = true -> length q < n.
Proof. intros -> H. unfold room in H. apply Nat.ltb_lt in H. exact H. Qed.

Lemma cap_step m s ch s' : cap_ok m s -> step m s ch = Some s' -> cap_ok m s'.
Proof.
  intros I H. destruct ch as [t|]; cbn [Actor.step] in H.
  - step_cases H; intros n Hn; specialize (I n Hn); cbn in *; 
      try rewrite app_length; cbn; 
      try (match goal with R : room _ _ = true |- _ => pose proof (room_length _ _ _ Hn R) end); try lia.
  - step_cases H; intros n Hn; specialize (I n Hn); cbn in *;
      try (match goal with E : queue s = _ |- _ => rewrite E in * end); cbn in *; try lia.
Qed.

(* every reachable state *)
Lemma inv_run (P : st -> Prop) m :
  (forall s ch s', P s -> step m s ch = Some s' -> P s') ->
  forall sched s, P s -> P (run_from m s sched).
Proof.
  intros Hstep sched. induction sched as [|ch sched IH]; intros s Hs; cbn [Actor.run_from fold_left]; [exact Hs|].
  apply IH. unfold Actor.step'. destruct (step m s ch) eqn:E; [eapply Hstep; eauto|exact Hs].
Qed.

Theorem cap_reachable m a0 progs sched n :
  r_cap m = Some n -> length (queue (run m a0 progs sched)) <= n.
Proof.
  intros Hn. unfold Actor.run.
  apply (inv_run (cap_ok m) m (cap_step m)) with (sched := sched) (s := Actor.init a0 progs); [|exact Hn].
  intros k _. cbn. lia.
Qed.

(* ---- nothing is discarded on the handle side while the actor is alive ---- *)
Definition all_blocking (m : rmodel) := forallb (fun rm => match rm_send rm with SBlocking => true | STry => false end) (r_meths m).
Definition no_loss (s : st) := alive s = true -> lost s = [].

Lemma alive_mono m s ch s' : step m s ch = Some s' -> alive s' = true -> alive s = true.
Proof.
  intros H. destruct ch as [t|]; cbn [Actor.step] in H.
  - step_cases H; cbn; auto.
  - unfold step_actor in H. unfold alive. destruct (exited s); [discriminate|auto].
Qed.

Lemma meth_blocking m k rm : all_blocking m = true -> meth m k = Some rm -> rm_send rm = SBlocking.
Proof.
  unfold all_blocking, meth. intros H E. apply nth_error_In in E.
  rewrite forallb_forall in H. specialize (H _ E). destruct (rm_send rm); [reflexivity|discriminate].
Qed.

Lemma no_loss_step m s ch s' : all_blocking m = true -> no_loss s -> step m s ch = Some s' -> no_loss s'.
Proof.
  intros B I H Al. pose proof (alive_mono _ _ _ _ H Al) as Al0. specialize (I Al0).
  destruct ch as [t|]; cbn [Actor.step] in H.
  - step_cases H; cbn in *; try assumption; try congruence;
      try (match goal with H1 : negb (alive ?x) = true, H2 : alive ?x = true |- _ => rewrite H2 in H1; discriminate end);
      try (match goal with E : meth _ _ = Some ?rm, S : rm_send ?rm = STry |- _ => rewrite (meth_blocking _ _ _ B E) in S; discriminate end).
  - step_cases H; cbn in *; try assumption; try congruence.
Qed.

Theorem no_loss_reachable m a0 progs sched :
  all_blocking m = true -> no_loss (run m a0 progs sched).
Proof.
  intros B. unfold Actor.run.
  apply (inv_run no_loss m (fun s ch s' => no_loss_step m s ch s' B)). intros _. reflexivity.
Qed.

(* a caller whose send finds the queue full waits: nothing changes, its call is still pending *)
Definition at_send (s : st) (t : nat) cid k vs ab :=
  exists c, nth_error (clients s) t = Some c /\ c_pc c = Sending cid k vs ab.

Theorem blocked_waits m s t cid k vs ab rm :
  at_send s t cid k vs ab -> meth m k = Some rm -> rm_send rm = SBlocking ->
  alive s = true -> room (r_cap m) (queue s) = false ->
  step m s (Cl t) = None /\ step' m s (Cl t) = s.
Proof.
  intros (c & Hc & Hpc) Hm Hs Al R. unfold Actor.step'. cbn [Actor.step]. unfold step_client.
  rewrite Hc, Hpc, Hm, Al, R, Hs. cbn. split; reflexivity.
Qed.

(* ... and as soon as there is room it is accepted at the tail of the queue, exactly once *)
Theorem unblocked_enqueues m s t cid k vs ab rm :
  at_send s t cid k vs ab -> meth m k = Some rm ->
  alive s = true -> room (r_cap m) (queue s) = true ->
  exists s', step m s (Cl t) = Some s' /\ queue s' = queue s ++ [Msg cid k (route dv (rm_fields rm) vs)] /\ enq s' = enq s ++ [cid] /\ lost s' = lost s.
Proof.
  intros (c & Hc & Hpc) Hm Al R. cbn [Actor.step]. unfold step_client.
  rewrite Hc, Hpc, Hm, Al, R. cbn. eexists; split; [reflexivity|]. cbn. auto.
Qed.

(* channel = 0 / absent: capacity never makes a caller wait *)
Theorem unbounded_never_waits m s t cid k vs ab rm :
  r_cap m = None -> at_send s t cid k vs ab -> meth m k = Some rm -> alive s = true ->
  step m s (Cl t) <> None.
Proof.
  intros Hc (c & Hn & Hpc) Hm Al. cbn [Actor.step]. unfold step_client.
  rewrite Hn, Hpc, Hm, Al, Hc. cbn. discriminate.
Qed.


(* ---- FIFO: what the channel accepted is what the actor took, in order, plus what is still queued ---- *)
Definition fifo_ok (s : st) := enq s = deq s ++ qids s.

Lemma fifo_step m s ch s' : fifo_ok s -> step m s ch = Some s' -> fifo_ok s'.
Proof.
  unfold fifo_ok, qids. intros I H. destruct ch as [t|]; cbn [Actor.step] in H.
  - step_cases H; cbn in *; try assumption; rewrite I, ?map_app, <- ?app_assoc; cbn; reflexivity.
  - step_cases H; cbn in *; try assumption;
      try (match goal with E : queue s = _ |- _ => rewrite E in * end); cbn in *;
      rewrite I, <- ?app_assoc, ?app_nil_r; cbn; try reflexivity.
Qed.

Theorem fifo_reachable m a0 progs sched : fifo_ok (run m a0 progs sched).
Proof. unfold Actor.run. apply (inv_run fifo_ok m (fifo_step m)). reflexivity. Qed.

(* ---- processing: executed calls (and the one in progress) are an order-preserving subsequence of what was
        taken; without faults and stop messages it is exactly what was taken ---- *)
Definition proc_ok (s : st) :=
  subseq (applied_ids s ++ busy_id s) (deq s)
  /\ (dropped s = [] -> moved s = 0 -> deq s = applied_ids s ++ busy_id s).

Ltac nil_facts :=
  repeat match goal with
  | D : _ ++ _ = [] |- _ => apply app_eq_nil in D; destruct D
  | D : _ :: _ = [] |- _ => discriminate D
  | D : S _ = 0 |- _ => discriminate D
  end.

Lemma proc_step m s ch s' : proc_ok s -> step m s ch = Some s' -> proc_ok s'.
Proof.
  unfold proc_ok, applied_ids, busy_id, qids. intros [I1 I2] H. destruct ch as [t|]; cbn [Actor.step] in H.
  - step_cases H; cbn in *; split; assumption.
  - step_cases H; cbn in *;
      repeat (match goal with E : busy s = _ |- _ => rewrite E in * end); cbn in *;
      rewrite ?map_app, ?app_nil_r in *; cbn in *.
    all: split;
      [ first [ assumption | apply subseq_snoc; assumption | apply subseq_app_r; assumption
              | apply subseq_app_r; eapply subseq_drop_r; eassumption | eapply subseq_drop_r; eassumption | idtac ]
      | intros D M; nil_facts;
        try (match goal with E : map msg_id (queue _) = [] |- _ => rewrite E in * end);
        rewrite ?app_nil_r; try (rewrite I2 by auto); rewrite <- ?app_assoc; try reflexivity; try assumption ].
Qed.
End Inv.
