"""C20 -- after the actor dies, calls fail loudly: never hang, never silently vanish."""
import random
import rt_common, probe, gen_impl
from common import *
PID = "C20"


def generic_only_configs():
    """actors whose value-returning methods are all generic (their reply senders travel inside closures, no Script variant names one) or that return
    nothing at all: in-flight callers wait for replies there too, the receiver must drain on every runtime"""
    cs = []
    item = ("impl A {\n    pub fn new(v: i8) -> Self { todo!() }\n    pub fn inc(&mut self) {}\n"
            "    pub fn gen<T: Into<i8> + Send + 'static>(&mut self, t: T) -> i8 { 0 }\n    pub fn vgen<T: Into<i8> + Send + 'static>(&mut self, t: T) {}\n}")
    for lib in gen_impl.LIBS:
        for ch in (None, 2):
            cs.append({"kind": "actor", "lib": lib, "attr": gen_impl.actor_attr(lib, ch), "item": item, "nmodels": 1,
                       "label": "generic-replies lib=%s channel=%s" % (lib, ch), "cfg": (lib, ch, "generic-replies")})
    return cs


def run(rep):
    rng = random.Random(rep.seed)
    rep.extra["rule"] = ("instances = real expansions for lib x channel x debut x impl blocks; probe scenarios = panic injected into an executing method with callers "
                         "in flight (queued, blocked on a full queue, waiting for replies) and arriving later, on the real runtimes; non-trivial = distinct (lib, channel, debut) classes")
    kf = known_findings()
    known_async = [f for f in kf["finding"] if f.get("property") == PID and f.get("class") == "async-channel-buffered-reply"]

    def per_model(rep, c, j, r):
        # C20_no_hang needs a draining receiver (std, tokio) or the drain guard in play (async_std, smol, repair e47f24b)
        if r["drain"] != "true" and not known_async:
            return False
        return True

    owners, res = rt_common.run_runtime(rep, PID, "wf_C20",
        ["fun (A V : Type) sem sem_slf dv => @C20_loud A V sem sem_slf dv {i} {w}",
         "fun (A V : Type) sem sem_slf dv => @C20_no_fabrication A V sem sem_slf dv {i} {w}",
         "fun (A V : Type) sem sem_slf dv => @C20_no_hang A V sem sem_slf dv {i} {w} (eq_refl true <: r_drain (elab {i}) = true)"],
        rt_common.std_configs(rng, rep.tier) + generic_only_configs(),
        dfs=("(bad_c20 {m})", "true"), dfs_when=lambda r: r["drain"] != "true",
        search="c20_search", search_what="client 0 makes a method panic, clients 1 and 2 then call every method (Runtime/Explore.v faulted); anomalies: 1 completed without execution and without panic, 2 fabricated value, 3 caller still inside a call at the end; dfs monitor: a call completed silently, or a caller inside a call has no enabled step although the actor is dead",
        extra_funs=[("drain", "r_drain (elab {i})")], per_model_check=per_model)
    ndrain = sum(1 for r in res if r["drain"] == "true")
    rep.notes.append("C20_no_hang instantiated for %d instances with a draining receiver (std, tokio) or a drain guard in play (async_std, smol); %d instances without" % (ndrain, len(res) - ndrain))
    runs = []
    for lib in gen_impl.LIBS:
        for ch in ((0, 1) if rep.tier == "quick" else (0, 1, 2, 3)):
            runs.append(["fault", lib, ch, "waiting=2", "later=4"])
            runs.append(["fault", lib, ch, "waiting=1", "later=2", "units=2"])      # in-flight calls whose reply type is spelled `-> ()`
            if rep.tier != "quick":
                runs.append(["fault", lib, ch, "waiting=3", "later=2", "order=adds_first"])
    hang_libs = ("async_std", "smol") if known_async else ()
    # a self-consuming call on a dead actor (sole handle, guarded method): loud too, never a made-up refusal
    runs += [["consume", lib, ch, "handles=1", "dead=1"] for lib in gen_impl.LIBS for ch in ((0, 2) if rep.tier == "quick" else (0, 1, 2, 3))]
    seen = rt_common.impl_side(rep, PID, runs, lambda a, d: (probe.oracle_consume(d), []) if a[0] == "consume" else probe.oracle_fault(d, hang_libs))
    rt_common.model_vs_probe(rep, PID, 'fault', [(lib, ch, {'waiting': 2, 'later': 4}) for lib in gen_impl.LIBS for ch in (0, 1, 2)])
    if seen and known_async:
        rep.known_finding("async-channel-buffered-reply: %d in-flight value-returning calls on async_std / smol block forever after the actor died (e.g. %s); proved refuted in Coq: C20_no_hang_refuted_without_drain" % (len(seen), seen[0]))


def replay(rep, path):
    return rt_common.replay_generic(rep, path)
