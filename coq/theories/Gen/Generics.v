(* Gen/Generics.v -- trait algebra of the generated handle (`Live`) struct (property C11, static half).

   What is modelled: the handle struct as the macro emits it (attribute list, own generic parameters with the bounds
   written inline / in its where-clause, field types), classified through a closed TABLE of the field types the
   generator can produce (the mpsc sender of the selected lib, `Arc<SystemTime>`, `String`, `PhantomData<P>`); the
   decision procedure [hasb] for `Send | Sync | 'static | Clone` over that table; the requirement set of
   `#[derive(Clone)]` (every type parameter of the struct - finding F5); the set of values a generated async method
   keeps alive across its await points.

   What is NOT modelled: rustc's trait solver.  The auto-trait / derive rules of std, tokio, async-channel and oneshot
   enter as the record [auto_trait_facts] over an ABSTRACT relation [holds] ("this trait is implemented for this type in
   the real world"); every theorem is stated for all relations satisfying the record, and [facts_model] shows the record
   is satisfiable (the boolean semantics is a model of it).  rustc itself is the oracle on the real code (harness/typecheck). *)
From Coq Require Import List String Ascii Bool.
Import ListNotations.
Open Scope string_scope.

Inductive tr := Send | Sync | Static | Clone.
Definition tr_eqb (a b : tr) : bool :=
  match a, b with Send, Send | Sync, Sync | Static, Static | Clone, Clone => true | _, _ => false end.
Lemma tr_eqb_eq a b : tr_eqb a b = true <-> a = b.
Proof. split; [destruct a, b; cbn; congruence|intros ->; destruct b; reflexivity]. Qed.

(* a Rust type as written in the expansion: path applied to arguments (a lifetime argument is a path `'a`) *)
Inductive rty := RApp (path : string) (args : list rty) | ROther (txt : string).

Inductive sender_kind := SkStd | SkStdSync | SkTokioUnbounded | SkTokio | SkAsyncStd | SkAsyncChannel.

(* classified field type: the table *)
Inductive ty :=
| TParam (x : string)                       (* a type or lifetime parameter of the handle *)
| TScript (name : string) (args : list string)   (* the message enum applied to parameters of the handle *)
| TSender (k : sender_kind) (t : ty)
| TArc (t : ty)
| TPhantom (t : ty)
| TString
| TSystemTime
| TUnknown (txt : string).

Record live_desc := {
  ld_name : string;
  ld_script : string;
  ld_attrs : list string;                   (* outer attributes of the struct, token-rendered, e.g. "derive ( Clone )" *)
  ld_tparams : list string;                 (* type parameters, declaration order *)
  ld_lparams : list string;                 (* lifetime parameters *)
  ld_cparams : list string;                 (* const parameters *)
  ld_bounds : list (string * tr);           (* bounds on the struct's own parameters (inline and where-clause), the four traits only *)
  ld_fields : list (string * rty);
  ld_clone_impls : list (list string) }.    (* hand-written `impl Clone for Live`: the type parameters each one bounds by Clone *)

(* ---- the table ---- *)
Definition strip_lead (p : string) : string :=
  match p with String ":"%char (String ":"%char r) => r | _ => p end.

Definition sender_of (p : string) : option sender_kind :=
  let p := strip_lead p in
  if p =? "std::sync::mpsc::Sender" then Some SkStd
  else if p =? "std::sync::mpsc::SyncSender" then Some SkStdSync
  else if p =? "tokio::sync::mpsc::UnboundedSender" then Some SkTokioUnbounded
  else if p =? "tokio::sync::mpsc::Sender" then Some SkTokio
  else if p =? "async_std::channel::Sender" then Some SkAsyncStd
  else if p =? "async_channel::Sender" then Some SkAsyncChannel
  else None.

Fixpoint mem (x : string) (l : list string) : bool :=
  match l with [] => false | y :: t => (x =? y) || mem x t end.

Definition arg_name (a : rty) : option string := match a with RApp p [] => Some p | _ => None end.
Fixpoint arg_names (l : list rty) : option (list string) :=
  match l with
  | [] => Some []
  | a :: t => match arg_name a, arg_names t with Some x, Some r => Some (x :: r) | _, _ => None end
  end.

Fixpoint render (r : rty) : string :=
  match r with
  | ROther t => t
  | RApp p args => p ++ "<" ++ (fix go (l : list rty) : string := match l with [] => "" | a :: t => render a ++ "," ++ go t end) args ++ ">"
  end.

Fixpoint classify (ld : live_desc) (r : rty) : ty :=
  match r with
  | ROther t => TUnknown t
  | RApp p args =>
    match args with
    | [] =>
      if mem p (ld_tparams ld) then TParam p
      else if mem p (ld_lparams ld) then TParam p
      else if strip_lead p =? "std::string::String" then TString
      else if strip_lead p =? "std::time::SystemTime" then TSystemTime
      else if p =? ld_script ld then TScript p []
      else TUnknown p
    | [a] =>
      match sender_of p with
      | Some k => TSender k (classify ld a)
      | None =>
        if strip_lead p =? "std::sync::Arc" then TArc (classify ld a)
        else if strip_lead p =? "std::marker::PhantomData" then TPhantom (classify ld a)
        else if p =? ld_script ld then
          match arg_name a with
          | Some x => if mem x (ld_tparams ld) || mem x (ld_lparams ld) || mem x (ld_cparams ld) then TScript p [x] else TUnknown (render r)
          | None => TUnknown (render r)
          end
        else TUnknown (render r)
      end
    | _ =>
      if p =? ld_script ld then
        match arg_names args with
        | Some xs => if forallb (fun x => mem x (ld_tparams ld) || mem x (ld_lparams ld) || mem x (ld_cparams ld)) xs then TScript p xs else TUnknown (render r)
        | None => TUnknown (render r)
        end
      else TUnknown (render r)
    end
  end.

Definition fields_ty (ld : live_desc) : list ty := map (fun f => classify ld (snd f)) (ld_fields ld).

Fixpoint known (x : ty) : bool :=
  match x with
  | TUnknown _ => false
  | TSender _ t | TArc t | TPhantom t => known t
  | _ => true
  end.
(* every field type is in the table (an unknown field type breaks the tie) *)
Definition fields_known (ld : live_desc) : bool := forallb known (fields_ty ld).

(* ---- boolean semantics: which traits a classified type has, given those of the parameters ---- *)
Section Sem.
Variable env : string -> tr -> bool.        (* the instantiation of parameter p implements trait t *)
Variable script_send : bool.                (* the message type (the call payloads) is Send *)

Fixpoint hasb (t : tr) (x : ty) : bool :=
  match x with
  | TParam p => env p t
  | TScript _ args =>
    match t with
    | Send => script_send
    | Static => forallb (fun a => env a Static) args        (* a type outlives 'static iff its generic arguments do *)
    | _ => false
    end
  | TSender _ a => match t with Send | Sync => hasb Send a | Static => hasb Static a | Clone => true end
  | TArc a => match t with Send | Sync => hasb Send a && hasb Sync a | Static => hasb Static a | Clone => true end
  | TPhantom a => match t with Clone => true | _ => hasb t a end
  | TString | TSystemTime => true
  | TUnknown _ => false
  end.
End Sem.

(* ---- Clone: who provides the impl and what it requires of the parameters ---- *)
Definition derives_clone (ld : live_desc) : bool := mem "derive ( Clone )" (ld_attrs ld).
(* `#[derive(Clone)]` on `struct S<P..>` emits `impl<P: Clone ..> Clone for S<P..>`: one `Clone` bound per TYPE parameter,
   whether or not a field needs it.  A hand-written impl requires what its own header says. *)
Definition clone_requirements (ld : live_desc) : option (list string) :=
  if derives_clone ld then Some (ld_tparams ld)
  else match ld_clone_impls ld with [ps] => Some ps | _ => None end.
(* the body of the impl clones every field: each must be Clone once the impl's bounds are assumed *)
Definition clone_fields_ok (ld : live_desc) : bool :=
  forallb (hasb (fun _ _ => true) false Clone) (fields_ty ld).
(* the property's demand: Clone whatever the parameters are *)
Definition clone_unconditional (ld : live_desc) : bool :=
  match clone_requirements ld with Some [] => clone_fields_ok ld | _ => false end.

(* ---- decision on one real handle struct (what the T-tie evaluates) ---- *)
(* a const parameter carries no type: it is vacuously 'static (and is consulted for nothing else) *)
Definition bound_of (ld : live_desc) (p : string) (t : tr) : bool :=
  (tr_eqb t Static && mem p (ld_cparams ld)) || existsb (fun b => (fst b =? p) && tr_eqb (snd b) t) (ld_bounds ld).
Definition has (ld : live_desc) : tr -> ty -> bool := hasb (bound_of ld) true.
Definition live_auto_ok (ld : live_desc) (t : tr) : bool := forallb (has ld t) (fields_ty ld).
Definition live_static_ok (ld : live_desc) : bool :=
  forallb (fun p => bound_of ld p Static) (ld_tparams ld ++ ld_lparams ld).
(* premise of the Send / Sync / 'static theorem *)
Definition wf_send (ld : live_desc) : bool :=
  fields_known ld && live_auto_ok ld Send && live_auto_ok ld Sync && live_static_ok ld.

(* whole-struct semantics under an instantiation *)
Definition live_hasb (env : string -> tr -> bool) (ss : bool) (ld : live_desc) (t : tr) : bool :=
  match t with
  | Send | Sync => forallb (hasb env ss t) (fields_ty ld)
  | Static => forallb (fun p => env p Static) (ld_tparams ld ++ ld_lparams ld)
  | Clone => match clone_requirements ld with
             | Some reqs => forallb (fun p => env p Clone) reqs && clone_fields_ok ld
             | None => false
             end
  end.

(* ---- futures of the generated async methods ---- *)
Inductive selfk := ByRef | ByMut | ByVal | NoSelf.
Record fut_desc := {
  fd_name : string;
  fd_self : selfk;
  fd_params : list string;                  (* parameter types: call payloads, opaque *)
  fd_reply : option string;                 (* a oneshot pair is created; the reply type *)
  fd_send_await : bool;                     (* the mpsc send is awaited (async-channel, bounded tokio) *)
  fd_recognised : bool }.                   (* the body is one of the template's statement sequences *)
Inductive held :=
| HSelf (k : selfk)                         (* `&self` / `&mut self` / `self` *)
| HPayload (t : string)                     (* an argument, until it is moved into the message *)
| HMsg                                      (* the message, until the send completes *)
| HSendFut                                  (* the pending send (borrows the sender, owns the message) *)
| HReplyRx (t : string).                    (* the oneshot receiver awaited at the tail *)
Definition held_of (fd : fut_desc) : list held :=
  HSelf (fd_self fd) :: map HPayload (fd_params fd) ++ [HMsg]
  ++ (if fd_send_await fd then [HSendFut] else [])
  ++ match fd_reply fd with Some r => [HReplyRx r] | None => [] end.

(* ================= the world ================= *)
Section World.
Variable holds : tr -> ty -> Prop.          (* trait t is implemented for (this instantiation of) type x *)
Variable lholds : live_desc -> tr -> Prop.  (* ... for the handle struct *)
Variable hsend : live_desc -> held -> Prop. (* the held value is Send *)
Variable fsend : live_desc -> fut_desc -> Prop.  (* the future returned by the method is Send *)
Variable psend : string -> Prop.            (* payload type (by its text) is Send *)

Record auto_trait_facts : Prop := {
  (* std::sync::mpsc::{Sender (Sync since 1.72), SyncSender}, tokio::sync::mpsc::{Sender, UnboundedSender}, async_channel::Sender *)
  f_sender_send : forall k t, holds Send t -> holds Send (TSender k t);
  f_sender_sync : forall k t, holds Send t -> holds Sync (TSender k t);
  f_sender_static : forall k t, holds Static t -> holds Static (TSender k t);
  f_sender_clone : forall k t, holds Clone (TSender k t);
  f_arc_send : forall t, holds Send t -> holds Sync t -> holds Send (TArc t);
  f_arc_sync : forall t, holds Send t -> holds Sync t -> holds Sync (TArc t);
  f_arc_static : forall t, holds Static t -> holds Static (TArc t);
  f_arc_clone : forall t, holds Clone (TArc t);
  f_phantom : forall t x, t <> Clone -> holds t x -> holds t (TPhantom x);
  f_phantom_clone : forall x, holds Clone (TPhantom x);
  f_string : forall t, holds t TString;
  f_systime : forall t, holds t TSystemTime;
  f_script_static : forall n args, (forall a, In a args -> holds Static (TParam a)) -> holds Static (TScript n args);
  (* auto traits of a struct: all fields *)
  f_struct_auto : forall ld t, t = Send \/ t = Sync -> (forall x, In x (fields_ty ld) -> holds t x) -> lholds ld t;
  f_struct_static : forall ld, (forall p, In p (ld_tparams ld ++ ld_lparams ld) -> holds Static (TParam p)) -> lholds ld Static;
  (* Clone of the handle comes from the impl [clone_requirements] describes, and from nowhere else *)
  f_clone_if : forall ld reqs, clone_requirements ld = Some reqs -> clone_fields_ok ld = true ->
      (forall p, In p reqs -> holds Clone (TParam p)) -> lholds ld Clone;
  f_clone_only_if : forall ld, lholds ld Clone ->
      exists reqs, clone_requirements ld = Some reqs /\ forall p, In p reqs -> holds Clone (TParam p);
  (* references; oneshot::Receiver / tokio::sync::oneshot::Receiver; the pending send; async-fn futures *)
  f_ref : forall ld, lholds ld Sync -> hsend ld (HSelf ByRef);
  f_mut : forall ld, lholds ld Send -> hsend ld (HSelf ByMut);
  f_val : forall ld, lholds ld Send -> hsend ld (HSelf ByVal);
  f_noself : forall ld, hsend ld (HSelf NoSelf);
  f_payload : forall ld t, psend t -> hsend ld (HPayload t);
  f_msg : forall ld, (forall n args, holds Send (TScript n args)) -> hsend ld HMsg;
  f_sendfut : forall ld, (forall n args, holds Send (TScript n args)) -> hsend ld HSendFut;
  f_replyrx : forall ld t, psend t -> hsend ld (HReplyRx t);
  f_future : forall ld fd, fd_recognised fd = true -> (forall h, In h (held_of fd) -> hsend ld h) -> fsend ld fd }.

Hypothesis facts : auto_trait_facts.

(* an instantiation of the handle exists only if it meets the bounds written on the struct *)
Definition bounds_hold (ld : live_desc) := forall p t, bound_of ld p t = true -> holds t (TParam p).
(* the call payloads (hence the message type) are Send *)
Definition payload_send := forall n args, holds Send (TScript n args).

Lemma forallb_In {X} (f : X -> bool) l : forallb f l = true -> forall x, In x l -> f x = true.
Proof. intros H x. apply (proj1 (forallb_forall f l) H). Qed.

Lemma has_sound ld : bounds_hold ld -> payload_send -> forall x t, has ld t x = true -> holds t x.
Proof.
  intros B P. unfold has. induction x as [p|n args|k a IH|a IH|a IH| | |u]; intros t H; cbn in H.
  - apply B. exact H.
  - destruct t; try discriminate.
    + apply P.
    + apply (f_script_static facts). intros a Ia. apply B. exact (forallb_In _ _ H a Ia).
  - destruct t.
    + apply (f_sender_send facts). apply IH. exact H.
    + apply (f_sender_sync facts). apply IH. exact H.
    + apply (f_sender_static facts). apply IH. exact H.
    + apply (f_sender_clone facts).
  - destruct t.
    + apply andb_prop in H. destruct H as [H1 H2]. apply (f_arc_send facts); apply IH; assumption.
    + apply andb_prop in H. destruct H as [H1 H2]. apply (f_arc_sync facts); apply IH; assumption.
    + apply (f_arc_static facts). apply IH. exact H.
    + apply (f_arc_clone facts).
  - destruct t.
    + apply (f_phantom facts); [discriminate|]. apply IH. exact H.
    + apply (f_phantom facts); [discriminate|]. apply IH. exact H.
    + apply (f_phantom facts); [discriminate|]. apply IH. exact H.
    + apply (f_phantom_clone facts).
  - apply (f_string facts).
  - apply (f_systime facts).
  - discriminate.
Qed.

(* every instantiation of the handle that meets the struct's own bounds is Send, Sync and 'static, provided the call
   payloads are Send *)
Theorem live_send_sync_static ld : wf_send ld = true -> bounds_hold ld -> payload_send ->
  lholds ld Send /\ lholds ld Sync /\ lholds ld Static.
Proof.
  intros W B P. unfold wf_send in W. repeat (apply andb_prop in W; destruct W as [W ?]).
  split; [|split].
  - apply (f_struct_auto facts); [left; reflexivity|]. intros x Ix. apply (has_sound ld B P). exact (forallb_In _ _ H1 x Ix).
  - apply (f_struct_auto facts); [right; reflexivity|]. intros x Ix. apply (has_sound ld B P). exact (forallb_In _ _ H0 x Ix).
  - apply (f_struct_static facts). intros p Ip. apply B. exact (forallb_In _ _ H p Ip).
Qed.

(* Clone holds exactly when the parameters named by [clone_requirements] are Clone *)
Theorem live_clone_iff ld : clone_fields_ok ld = true ->
  (lholds ld Clone <-> exists reqs, clone_requirements ld = Some reqs /\ forall p, In p reqs -> holds Clone (TParam p)).
Proof.
  intros F. split; [apply (f_clone_only_if facts)|]. intros (reqs & E & H). exact (f_clone_if facts ld reqs E F H).
Qed.

(* guarded form of the property's Clone clause: with an empty requirement set the handle is Clone for every instantiation *)
Theorem live_clone_guarded ld : clone_unconditional ld = true -> lholds ld Clone.
Proof.
  unfold clone_unconditional. destruct (clone_requirements ld) as [[|p r]|] eqn:E; try discriminate.
  intros F. apply (f_clone_if facts ld [] E F). intros p [].
Qed.

(* a handle without type parameters that derives Clone is Clone *)
Corollary live_clone_no_tparams ld : derives_clone ld = true -> ld_tparams ld = [] -> clone_fields_ok ld = true -> lholds ld Clone.
Proof.
  intros D T F. apply live_clone_guarded. unfold clone_unconditional, clone_requirements. rewrite D, T. exact F.
Qed.

(* the futures of the generated async methods are Send: everything they keep across an await point is *)
Theorem future_send ld fd : wf_send ld = true -> bounds_hold ld -> payload_send ->
  fd_recognised fd = true -> (forall t, In t (fd_params fd) -> psend t) -> (forall r, fd_reply fd = Some r -> psend r) ->
  fsend ld fd.
Proof.
  intros W B P R Pp Pr. destruct (live_send_sync_static ld W B P) as (LS & LY & _).
  apply (f_future facts ld fd R). intros h Ih. unfold held_of in Ih. destruct Ih as [<-|Ih].
  - destruct (fd_self fd); [apply (f_ref facts)|apply (f_mut facts)|apply (f_val facts)|apply (f_noself facts)]; assumption.
  - apply in_app_or in Ih. destruct Ih as [Ih|Ih].
    + apply in_map_iff in Ih. destruct Ih as (t & <- & It). apply (f_payload facts). apply Pp. exact It.
    + destruct Ih as [<-|Ih]; [apply (f_msg facts); exact P|].
      change (In h ((if fd_send_await fd then [HSendFut] else []) ++ match fd_reply fd with Some r => [HReplyRx r] | None => [] end)) in Ih.
      apply in_app_or in Ih. destruct Ih as [Ih|Ih].
      * revert Ih. destruct (fd_send_await fd); intros Ih; cbn in Ih; [|destruct Ih]. destruct Ih as [<-|Ih]; [|destruct Ih]. apply (f_sendfut facts). exact P.
      * revert Ih. destruct (fd_reply fd) as [r|] eqn:E; intros Ih; cbn in Ih; [|destruct Ih]. destruct Ih as [<-|Ih]; [|destruct Ih]. apply (f_replyrx facts). apply Pr. reflexivity.
Qed.
End World.

(* ================= the boolean semantics is a model of the facts ================= *)
Section Model.
Variable env : string -> tr -> bool.
Variable ss : bool.

Definition m_holds (t : tr) (x : ty) : Prop := hasb env ss t x = true.
Definition m_lholds (ld : live_desc) (t : tr) : Prop := live_hasb env ss ld t = true.
Definition m_psend (t : string) : Prop := True.
Definition m_hsend (ld : live_desc) (h : held) : Prop :=
  match h with
  | HSelf ByRef => m_lholds ld Sync
  | HSelf ByMut | HSelf ByVal => m_lholds ld Send
  | HSelf NoSelf | HPayload _ | HReplyRx _ => True
  | HMsg | HSendFut => ss = true
  end.
Definition m_fsend (ld : live_desc) (fd : fut_desc) : Prop := forall h, In h (held_of fd) -> m_hsend ld h.

Lemma facts_model : auto_trait_facts m_holds m_lholds m_hsend m_fsend m_psend.
Proof.
  unfold m_holds, m_lholds.
  constructor; cbn; intros; auto.
  - rewrite H, H0. reflexivity.
  - rewrite H, H0. reflexivity.
  - destruct t; cbn; auto.
  - apply forallb_forall. exact H.
  - destruct H as [-> | ->]; cbn; apply forallb_forall; exact H0.
  - apply forallb_forall. exact H.
  - rewrite H. apply andb_true_intro. split; [apply forallb_forall; exact H1|exact H0].
  - destruct (clone_requirements ld) as [reqs|]; [|discriminate]. exists reqs. split; [reflexivity|].
    apply andb_prop in H. destruct H as [H _]. intros p Ip. exact (forallb_In _ _ H p Ip).
  - exact (H "" []).
  - exact (H "" []).
Qed.
End Model.

(* ================= finding F5: the derive adds `P: Clone` for every type parameter ================= *)
(* known class: the handle derives Clone and has at least one type parameter *)
Definition f5_class (ld : live_desc) : bool := derives_clone ld && match ld_tparams ld with [] => false | _ => true end.

(* the handle of `impl<T> A<T> { pub fn new() -> Self; pub fn put(&mut self, t: T) }` (lib = std), as translated from the real expansion *)
Definition f5_witness : live_desc :=
  {| ld_name := "ALive"; ld_script := "AScript"; ld_attrs := ["derive ( Clone )"];
     ld_tparams := ["T"]; ld_lparams := []; ld_cparams := [];
     ld_bounds := [("T", Send); ("T", Sync); ("T", Static)];
     ld_fields := [("sender", RApp "std::sync::mpsc::Sender" [RApp "AScript" [RApp "T" []]])];
     ld_clone_impls := [] |}.
(* an instantiation of T that is Send + Sync + 'static but not Clone *)
Definition f5_env (p : string) (t : tr) : bool := match t with Clone => false | _ => true end.

Lemma f5_refuted :
  f5_class f5_witness = true /\ wf_send f5_witness = true /\ clone_unconditional f5_witness = false /\
  exists holds lholds hsend fsend psend,
    auto_trait_facts holds lholds hsend fsend psend /\ bounds_hold holds f5_witness /\ payload_send holds /\
    lholds f5_witness Send /\ ~ lholds f5_witness Clone.
Proof.
  split; [reflexivity|]. split; [reflexivity|]. split; [reflexivity|].
  exists (m_holds f5_env true), (m_lholds f5_env true), (m_hsend f5_env true), (m_fsend f5_env true), m_psend.
  split; [apply facts_model|]. split.
  - intros p t H. unfold m_holds. cbn. destruct t; try reflexivity. unfold bound_of in H. cbn in H. rewrite !andb_false_r in H. discriminate H.
  - split; [intros n args; reflexivity|]. split; [reflexivity|]. unfold m_lholds. vm_compute. discriminate.
Qed.

(* the premises of the theorems are satisfiable on real shapes: debut handle with a private (phantom) parameter, tokio *)
Example wf_send_example :
  wf_send {| ld_name := "ALive"; ld_script := "AScript"; ld_attrs := ["derive ( Clone )"];
             ld_tparams := ["T"; "U"]; ld_lparams := []; ld_cparams := ["N"];
             ld_bounds := [("T", Send); ("T", Sync); ("T", Static); ("U", Send); ("U", Sync); ("U", Static)];
             ld_fields := [("sender", RApp "tokio::sync::mpsc::Sender" [RApp "AScript" [RApp "T" []; RApp "N" []]]);
                           ("debut", RApp "::std::sync::Arc" [RApp "::std::time::SystemTime" []]);
                           ("name", RApp "::std::string::String" []);
                           ("_0", RApp "::std::marker::PhantomData" [RApp "U" []])];
             ld_clone_impls := [] |} = true.
Proof. reflexivity. Qed.
Example clone_unconditional_example :
  clone_unconditional {| ld_name := "ALive"; ld_script := "AScript"; ld_attrs := ["derive ( Clone )"];
             ld_tparams := []; ld_lparams := []; ld_cparams := []; ld_bounds := [];
             ld_fields := [("sender", RApp "std::sync::mpsc::SyncSender" [RApp "AScript" []])]; ld_clone_impls := [] |} = true.
Proof. reflexivity. Qed.
(* an unknown field type (here a raw pointer inside PhantomData) is rejected *)
Example unknown_field_rejected :
  wf_send {| ld_name := "ALive"; ld_script := "AScript"; ld_attrs := ["derive ( Clone )"];
             ld_tparams := ["T"]; ld_lparams := []; ld_cparams := []; ld_bounds := [("T", Send); ("T", Sync); ("T", Static)];
             ld_fields := [("sender", RApp "std::sync::mpsc::Sender" [RApp "AScript" []]); ("_0", RApp "::std::marker::PhantomData" [ROther "* const T"])];
             ld_clone_impls := [] |} = false.
Proof. reflexivity. Qed.
