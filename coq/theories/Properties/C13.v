(* C13 -- debut stamps are unique and ordered; comparisons follow them.  Statements only; proofs live in Debut/*.v.
   Time is N nanoseconds; `clock : nat -> N` is ANY function (k-th reading of the system clock): equal, decreasing and
   increasing readings are all instances.  `ir : debut_ir` is the statement form of a debut() body, `wf_debut ir = true` is
   re-established by the kernel on every run for the body the macro emits now (generated/C13_oblig.v). *)
From Coq Require Import List NArith Bool Arith Sorted String.
Import ListNotations.
From IT Require Import Debut.Debut Debut.DebutThm Debut.Conc Debut.Cmp.
Open Scope N_scope.

(* every stamp is strictly later than the one LAST held *)
Theorem C13_strict : forall ir, wf_debut ir = true ->
  forall fuel clock pos last t pos', run_debut ir fuel clock pos last = Some (t, pos') -> last < t.
Proof. exact debut_strict. Qed.

(* the stamp is the first reading that is not behind LAST (bumped when equal), and no further reading is consumed *)
Theorem C13_value : forall ir, wf_debut ir = true ->
  forall fuel clock pos last t pos', run_debut ir fuel clock pos last = Some (t, pos') ->
  exists j, pos' = S (pos + j) /\ (forall i, (i < j)%nat -> clock (pos + i)%nat < last) /\ last <= clock (pos + j)%nat
            /\ t = (if clock (pos + j)%nat =? last then last + bump_of ir else clock (pos + j)%nat).
Proof. exact debut_value. Qed.

(* creation completes as soon as the clock is no longer behind *)
Theorem C13_completes : forall ir, wf_debut ir = true ->
  forall clock pos last k, last <= clock (pos + k)%nat -> exists t p, run_debut ir (3 * k + 10) clock pos last = Some (t, p).
Proof. exact debut_completes. Qed.

(* n calls in the order in which they obtain the mutex, over any split of any stream of readings: strictly increasing *)
Theorem C13_sequence : forall ir, wf_debut ir = true ->
  forall n fuel clock pos last ts, run_seq ir fuel clock pos last n = Some ts -> StronglySorted N.lt (last :: ts).
Proof. exact debut_sequence. Qed.

Theorem C13_distinct : forall ir, wf_debut ir = true ->
  forall n fuel clock pos last ts, run_seq ir fuel clock pos last n = Some ts -> NoDup (last :: ts).
Proof. exact debut_distinct. Qed.

(* any number of threads, ANY interleaving of their statements (sched is any list of thread ids): two calls that returned
   hold different stamps, both later than what LAST held; stamps decrease along the log (newest first) *)
Theorem C13_interleavings : forall ir, wf_debut ir = true -> forall clock last pos sched i j ti tj,
  let g := grun ir clock (g0 last pos) sched in
  g_thr g i = TDone ti -> g_thr g j = TDone tj -> i <> j -> ti <> tj /\ last < ti /\ last < tj.
Proof. exact conc_distinct. Qed.

Theorem C13_lock_order : forall ir, wf_debut ir = true -> forall clock last pos sched,
  desc (map snd (g_log (grun ir clock (g0 last pos) sched)) ++ [last]).
Proof. exact conc_lock_order. Qed.

(* ==, cmp, partial_cmp, < all follow N.compare (stamp other) (stamp self): reverse creation order *)
Theorem C13_cmp : forall ir, wf_cmp ir = true -> forall a b,
  run_eq ir a b = Some (h_stamp a =? h_stamp b)
  /\ run_cmp ir a b = Some (N.compare (h_stamp b) (h_stamp a))
  /\ run_partial ir a b = Some (Some (N.compare (h_stamp b) (h_stamp a)))
  /\ run_lt ir a b = Some (h_stamp b <? h_stamp a).
Proof. exact cmp_agree. Qed.

(* the user-settable name never influences a comparison *)
Theorem C13_name_irrelevant : forall ir, wf_cmp ir = true -> forall a b s1 s2,
  run_eq ir (rename a s1) (rename b s2) = run_eq ir a b /\ run_cmp ir (rename a s1) (rename b s2) = run_cmp ir a b
  /\ run_partial ir (rename a s1) (rename b s2) = run_partial ir a b /\ run_lt ir (rename a s1) (rename b s2) = run_lt ir a b.
Proof. exact cmp_name_irrelevant. Qed.

(* == is an equivalence and cmp a strict total order consistent with it *)
Theorem C13_lawful : forall ir, wf_cmp ir = true -> forall a b c,
  run_eq ir a a = Some true
  /\ run_eq ir a b = run_eq ir b a
  /\ (run_eq ir a b = Some true -> run_eq ir b c = Some true -> run_eq ir a c = Some true)
  /\ (run_eq ir a b = Some true <-> run_cmp ir a b = Some Eq)
  /\ (run_cmp ir a b = Some Lt <-> run_cmp ir b a = Some Gt)
  /\ (run_cmp ir a b = Some Lt -> run_cmp ir b c = Some Lt -> run_cmp ir a c = Some Lt).
Proof. exact cmp_lawful. Qed.

(* after ANY history of new / clone / drop / rename: clones compare equal, handles of different actors never do *)
Theorem C13_clones_equal_actors_differ : forall dir ir, wf_debut dir = true -> wf_cmp ir = true ->
  forall fuel clock last pos ops h1 h2, let w := wrun dir fuel clock (w0 last pos) ops in
  In h1 (w_live w) -> In h2 (w_live w) -> run_eq ir h1 h2 = Some (Nat.eqb (h_arc h1) (h_arc h2)).
Proof. exact world_eq. Qed.

(* the actor created earlier is the greater one *)
Theorem C13_order_reverse_creation : forall dir ir, wf_debut dir = true -> wf_cmp ir = true ->
  forall fuel clock last pos ops h1 h2, let w := wrun dir fuel clock (w0 last pos) ops in
  In h1 (w_live w) -> In h2 (w_live w) -> (h_arc h1 < h_arc h2)%nat ->
  run_cmp ir h1 h2 = Some Gt /\ run_partial ir h1 h2 = Some (Some Gt) /\ run_lt ir h2 h1 = Some true /\ run_lt ir h1 h2 = Some false.
Proof. exact world_order. Qed.

(* inter_get_count = number of live clones *)
Theorem C13_count : forall dir ir, wf_debut dir = true -> wf_cmp ir = true ->
  forall fuel clock last pos ops h, let w := wrun dir fuel clock (w0 last pos) ops in
  In h (w_live w) -> run_count ir w h = Some (clones_of h (w_live w)).
Proof. exact world_count. Qed.

Print Assumptions C13_strict.
Print Assumptions C13_value.
Print Assumptions C13_completes.
Print Assumptions C13_sequence.
Print Assumptions C13_distinct.
Print Assumptions C13_interleavings.
Print Assumptions C13_lock_order.
Print Assumptions C13_cmp.
Print Assumptions C13_name_irrelevant.
Print Assumptions C13_lawful.
Print Assumptions C13_clones_equal_actors_differ.
Print Assumptions C13_order_reverse_creation.
Print Assumptions C13_count.
