(* Gen/EditC15.v -- corollaries that combine the parser theorems (EditParseThm) with the split theorems (EditSplitThm),
   the guarded family statement, and the refutation witnesses of the known findings (F7). *)
From Coq Require Import List String Bool Permutation Arith.
Import ListNotations.
From IT Require Import Gen.Edit Gen.EditSplitThm Gen.EditParseThm.
Open Scope string_scope.

Lemma forget_some : forall A (r : res A) a, forget r = Some a -> r = Ok a.
Proof. intros A [x|d] a H; simpl in H; inversion H; reflexivity. Qed.

(* a legal specification goes through the real pipeline exactly as its declarative meaning does *)
Theorem pipeline_legal : forall (A : Type) (e : edit_ast) (s l : part A),
  nonempty e = true -> legal e = true ->
  (e' <- edit_parse (render e) ;; actor_code_edit e' s l) = actor_code_edit (denote e) s l.
Proof.
  intros A e s l Hn Hl. assert (H := parse_grammar e Hn). rewrite Hl in H.
  apply forget_some in H. rewrite H. reflexivity.
Qed.

(* whatever was accepted by the parser is then accepted by the splitter iff its names exist: no false rejection *)
Theorem accepted_names_known : forall (A : Type) (m : meta) (e : edit_actor) (p : part A) (sol : bool),
  edit_parse m = Ok e ->
  let '(_, i, r) := get_t sol e in
  (forall n, In n (listed i) -> In n (names A (p_mets p))) -> (forall n, In n (listed r) -> In n (names A (p_trts p))) ->
  exists x, split_edit (get_t sol e) p = Ok x.
Proof.
  intros A m e p sol H. destruct (parse_names_nodup m e H) as [Hs Hl].
  assert (K : names_ok (get_t sol e)) by (destruct sol; assumption).
  destruct (get_t sol e) as [[d i] r] eqn:E. intros Hi Hr.
  unfold names_ok in K. destruct K as [K1 K2].
  exact (split_edit_known_accepted A (d, i, r) p K1 K2 Hi Hr).
Qed.

(* known class "family-edit-multi": a family-level list with a number of elements other than one *)
Definition fam_multi (e : fam_ast) : bool :=
  match e with FList l => negb (Nat.eqb (List.length l) 1) | _ => false end.

Theorem family_parse_guarded : forall e : fam_ast, nonempty_fam e = true -> fam_multi e = false ->
  forget (edit_parse_family (render_fam e)) = if legal_fam e then Some (denote_fam e) else None.
Proof.
  intros [| |l] Hn Hm.
  - reflexivity.
  - reflexivity.
  - simpl in Hm. apply negb_false_iff in Hm. apply Nat.eqb_eq in Hm.
    destruct l as [|x [|y l]]; simpl in Hm; try discriminate.
    apply parse_family_single. simpl in Hn. rewrite andb_true_r in Hn. exact Hn.
Qed.

Example family_guard_satisfiable :
  let e := FList [SFileS [SDef; SImp (Some [NName "new"])]] in
  nonempty_fam e = true /\ fam_multi e = false /\ legal_fam e = true.
Proof. repeat split. Qed.

(* FULL STATEMENT (false of the crate):  forall e, nonempty_fam e = true ->
     forget (edit_parse_family (render_fam e)) = if legal_fam e then Some (denote_fam e) else None. *)
Theorem family_edit_multi_refuted : exists e : fam_ast,
  nonempty_fam e = true /\ fam_multi e = true /\ legal_fam e = true
  /\ forget (edit_parse_family (render_fam e)) <> Some (denote_fam e).
Proof.
  exists (FList [SSect SDef; SSect (SImp None)]). repeat split. vm_compute. discriminate.
Qed.

(* every legal family specification of the known class is rejected, so the class is exactly where the guard fails *)
Theorem family_edit_multi_all_rejected : forall l : list sitem, List.length l <> 1 ->
  edit_parse_family (render_fam (FList l)) = Diag DUnexpectedNested.
Proof.
  intros l H. simpl. apply parse_family_multi_diag. rewrite map_length. exact H.
Qed.

(* FULL STATEMENT (false of the crate): the `edit` of a family member means what it means for an actor:
     forall e, nonempty e = true -> forget (edit_parse_member (render e)) = if legal e then Some (denote e) else None. *)
Theorem member_edit_refuted :
  (exists e : edit_ast, nonempty e = true /\ legal e = true /\ is_diag (edit_parse_member (render e)) = true)
  /\ (exists e e', nonempty e = true /\ legal e = true /\ edit_parse_member (render e) = Ok e'
        /\ ea_script e' = empty_t /\ ea_script (denote e) <> empty_t).
Proof.
  split.
  - exists (EList [EPart (PSol true (Some [SSect (SImp (Some [NName "play"]))]))]). repeat split.
  - exists EBare. eexists. repeat split. vm_compute. discriminate.
Qed.

(* hypotheses of the split theorems are satisfiable on a non-trivial struct *)
Example split_example :
  let p := mk_part true ["new"; "inc"; "get"] ["PartialEq"; "Eq"] in
  let t : tuples := ((true, false), (Some [("get", true); ("new", false)], false), (Some [], true)) in
  part_nodup unit p /\
  split_edit t p = Ok (mk_part false ["inc"] [], mk_part true ["get"; "new"] ["PartialEq"; "Eq"], mk_part false ["get"] ["PartialEq"; "Eq"]).
Proof.
  split.
  - split; simpl; repeat constructor; simpl; intuition discriminate.
  - reflexivity.
Qed.

Example grammar_example :
  let e := EList [EPart (PSol true (Some [SSect SDef; SFileS [SImp None]])); EFile [PSol false (Some [SSect (SImp (Some [NName "a"; NName "b"]))])]] in
  nonempty e = true /\ legal e = true /\ edit_parse (render e) = Ok (denote e).
Proof. repeat split. Qed.
