(* Proofs about the debut() interpreter of Debut.v: for every well-formed body, every clock, every LAST. *)
From Coq Require Import List NArith Bool Arith Lia Sorted.
From IT Require Import Debut.Debut.
Import ListNotations.
Open Scope N_scope.

Lemma wf_cond_sem : forall c, wf_cond c = true -> forall s, beval c s = (s_next s <=? s_last s).
Proof.
  intros c H s.
  destruct c as [o a b | c']; [destruct o, a, b; try discriminate H; reflexivity|].
  destruct c' as [o a b | c'']; [|discriminate H].
  destruct o, a, b; try discriminate H; simpl; symmetry; apply N.leb_antisym.
Qed.

Lemma wf_eq_sem : forall c, wf_eq c = true -> forall s, beval c s = (s_next s =? s_last s).
Proof.
  intros c H s.
  destruct c as [o a b | c']; [|discriminate H].
  destruct o, a, b; try discriminate H; simpl; [apply N.eqb_sym|reflexivity].
Qed.

Lemma wf_body_inv : forall b, wf_body b = true ->
  exists c e n, b = canon c e n /\ wf_cond c = true /\ wf_eq e = true /\ 1 <= n.
Proof.
  intros b H. unfold wf_body in H.
  repeat match type of H with
  | (match ?x with _ => _ end) = true => destruct x; try discriminate H
  end.
  apply andb_prop in H. destruct H as [H H3]. apply andb_prop in H. destruct H as [H1 H2].
  do 3 eexists. split; [reflexivity|]. repeat split; auto. apply N.leb_le; exact H3.
Qed.

Lemma wf_debut_inv : forall ir, wf_debut ir = true ->
  d_static ir = true /\ d_locked ir = true /\ d_ret ir = VNext /\
  exists c e n, d_body ir = canon c e n /\ wf_cond c = true /\ wf_eq e = true /\ 1 <= n /\ bump_of ir = n.
Proof.
  intros ir H. unfold wf_debut in H.
  apply andb_prop in H. destruct H as [H H4]. apply andb_prop in H. destruct H as [H H3]. apply andb_prop in H. destruct H as [H1 H2].
  repeat split; auto.
  - destruct (d_ret ir); [discriminate|reflexivity].
  - destruct (wf_body_inv _ H3) as (c & e & n & E & A & B & C). exists c, e, n. repeat split; auto.
    unfold bump_of. rewrite E. reflexivity.
Qed.

Lemma exec_mono : forall clock f k s r, exec f clock k s = Some r -> forall f', (f <= f')%nat -> exec f' clock k s = Some r.
Proof.
  intros clock f. induction f as [|f IH]; intros k s r H f' L; [discriminate H|].
  destruct f' as [|f']; [lia|]. simpl in *. destruct (step1 clock k s); auto. apply IH with (f' := f') in H; [exact H|lia].
Qed.

Lemma exec_step : forall clock f k s k' s', step1 clock k s = Next k' s' -> exec (S f) clock k s = exec f clock k' s'.
Proof. intros. simpl. rewrite H. reflexivity. Qed.

(* ------------------------------------------------------------------------------------------------ *)
Section Canon.
Variables (clock : nat -> N) (c e : bexp) (n : N) (pos0 : nat) (last0 : N).
Hypothesis Hc : wf_cond c = true.
Hypothesis He : wf_eq e = true.
Hypothesis Hn : 1 <= n.

Let BUMP := SAssign VNext (EAdd VNext n).
Let REREAD := SAssign VNext ENow.
Let IFS := SIf e [BUMP] [REREAD].
Let W := SWhile c [IFS].
Let STORE := SAssign VLast (EVar VNext).
Definition mk (l x : N) (p : nat) : st := {| s_last := l; s_next := x; s_pos := p |}.

Definition behind (j : nat) : Prop := forall i, (i < j)%nat -> clock (pos0 + i)%nat < last0.
Definition value (j : nat) : N := if clock (pos0 + j)%nat =? last0 then last0 + n else clock (pos0 + j)%nat.

(* every configuration the body can reach from (canon, LAST = last0, next unread reading pos0) *)
Inductive R : list stmt -> st -> Prop :=
  | R_init : forall x, R (canon c e n) (mk last0 x pos0)
  | R_loop : forall j x p, behind j -> x = clock (pos0 + j)%nat -> p = S (pos0 + j) -> R [W; STORE] (mk last0 x p)
  | R_loopb : forall j x p, behind j -> clock (pos0 + j)%nat = last0 -> x = last0 + n -> p = S (pos0 + j) -> R [W; STORE] (mk last0 x p)
  | R_if : forall j x p, behind j -> x = clock (pos0 + j)%nat -> x <= last0 -> p = S (pos0 + j) -> R [IFS; W; STORE] (mk last0 x p)
  | R_bump : forall j x p, behind j -> x = clock (pos0 + j)%nat -> x = last0 -> p = S (pos0 + j) -> R [BUMP; W; STORE] (mk last0 x p)
  | R_reread : forall j x p, behind j -> x = clock (pos0 + j)%nat -> x < last0 -> p = S (pos0 + j) -> R [REREAD; W; STORE] (mk last0 x p)
  | R_store : forall j x p, behind j -> last0 <= clock (pos0 + j)%nat -> x = value j -> p = S (pos0 + j) -> R [STORE] (mk last0 x p)
  | R_end : forall j x p, behind j -> last0 <= clock (pos0 + j)%nat -> x = value j -> p = S (pos0 + j) -> R [] (mk x x p).

Definition final (s : st) : Prop :=
  exists j, behind j /\ last0 <= clock (pos0 + j)%nat /\ s = mk (value j) (value j) (S (pos0 + j)).

Lemma R_step : forall k s, R k s ->
  match step1 clock k s with Next k' s' => R k' s' | Done s' => final s' | Stuck => False end.
Proof.
  intros k s H. inversion H; subst; clear H.
  - (* init *) simpl. apply R_loop with (j := O); [intros i Hi; lia|rewrite Nat.add_0_r; reflexivity|rewrite Nat.add_0_r; reflexivity].
  - (* loop on a raw reading *)
    unfold W at 1. unfold step1. rewrite (wf_cond_sem c Hc). simpl s_next. simpl s_last.
    destruct (clock (pos0 + j)%nat <=? last0) eqn:E.
    + simpl. apply N.leb_le in E. apply R_if with (j := j); auto.
    + apply N.leb_gt in E. apply R_store with (j := j); auto; [lia|].
      unfold value. destruct (N.eqb_spec (clock (pos0 + j)%nat) last0); [lia|reflexivity].
  - (* loop after the bump *)
    unfold W at 1. unfold step1. rewrite (wf_cond_sem c Hc). simpl s_next. simpl s_last.
    destruct (last0 + n <=? last0) eqn:E; [apply N.leb_le in E; lia|].
    apply R_store with (j := j); auto; [lia|]. unfold value. rewrite H1. rewrite N.eqb_refl. reflexivity.
  - (* if *)
    unfold IFS at 1. unfold step1. rewrite (wf_eq_sem e He). simpl s_next. simpl s_last.
    destruct (N.eqb_spec (clock (pos0 + j)%nat) last0) as [E|E]; simpl.
    + apply R_bump with (j := j); auto.
    + apply R_reread with (j := j); auto. lia.
  - (* bump *)
    simpl. apply R_loopb with (j := j); auto; lia.
  - (* re-read *)
    simpl. apply R_loop with (j := S j).
    + intros i Hi. destruct (Nat.eq_dec i j) as [->|Ne]; [exact H2|apply H0; lia].
    + rewrite Nat.add_succ_r. reflexivity.
    + rewrite Nat.add_succ_r. reflexivity.
  - (* store *)
    simpl. apply R_end with (j := j); auto.
  - (* end *)
    simpl. exists j. repeat split; auto.
Qed.

Lemma exec_R : forall fuel k s s', R k s -> exec fuel clock k s = Some s' -> final s'.
Proof.
  induction fuel as [|f IH]; intros k s s' HR H; [discriminate H|].
  simpl in H. pose proof (R_step k s HR) as P. destruct (step1 clock k s) as [k1 s1| s1 |].
  - exact (IH k1 s1 s' P H).
  - inversion H; subst. exact P.
  - contradiction.
Qed.

(* progress: once a reading is not behind LAST the loop is left within 6 steps *)
Lemma loop_exit : forall x p, last0 <= x -> forall f, (6 <= f)%nat -> exists s', exec f clock [W; STORE] (mk last0 x p) = Some s'.
Proof.
  intros x p Hx f Hf.
  assert (G : exists s', exec 6 clock [W; STORE] (mk last0 x p) = Some s').
  { unfold W at 1. rewrite exec_step with (k' := if x <=? last0 then [IFS; W; STORE] else [STORE]) (s' := mk last0 x p).
    2:{ unfold step1. rewrite (wf_cond_sem c Hc). simpl s_next. simpl s_last. destruct (x <=? last0); reflexivity. }
    destruct (x <=? last0) eqn:E.
    - apply N.leb_le in E. assert (x = last0) by lia. subst x.
      unfold IFS at 1. rewrite exec_step with (k' := [BUMP; W; STORE]) (s' := mk last0 last0 p).
      2:{ unfold step1. rewrite (wf_eq_sem e He). simpl s_next. simpl s_last. rewrite N.eqb_refl. reflexivity. }
      rewrite exec_step with (k' := [W; STORE]) (s' := mk last0 (last0 + n) p); [|reflexivity].
      unfold W at 1. rewrite exec_step with (k' := [STORE]) (s' := mk last0 (last0 + n) p).
      2:{ unfold step1. rewrite (wf_cond_sem c Hc). simpl s_next. simpl s_last.
          destruct (last0 + n <=? last0) eqn:E2; [apply N.leb_le in E2; lia|reflexivity]. }
      simpl. eexists; reflexivity.
    - simpl. eexists; reflexivity. }
  destruct G as [s' G]. exists s'. apply exec_mono with (f := 6%nat); auto.
Qed.

Lemma loop_completes : forall k x p, last0 <= clock (p + k)%nat ->
  exists s', exec (3 * k + 9) clock [W; STORE] (mk last0 x p) = Some s'.
Proof.
  induction k as [|k IH]; intros x p Hk.
  - destruct (N.leb_spec last0 x) as [L|L]; [apply loop_exit; [exact L|simpl; lia]|].
    change (3 * 0 + 9)%nat with (S (S (S 6))).
    unfold W at 1. rewrite exec_step with (k' := [IFS; W; STORE]) (s' := mk last0 x p).
    2:{ unfold step1. rewrite (wf_cond_sem c Hc). simpl s_next. simpl s_last.
        destruct (x <=? last0) eqn:E; [reflexivity|apply N.leb_gt in E; lia]. }
    unfold IFS at 1. rewrite exec_step with (k' := [REREAD; W; STORE]) (s' := mk last0 x p).
    2:{ unfold step1. rewrite (wf_eq_sem e He). simpl s_next. simpl s_last.
        destruct (N.eqb_spec x last0); [lia|reflexivity]. }
    rewrite exec_step with (k' := [W; STORE]) (s' := mk last0 (clock p) (S p)); [|reflexivity].
    apply loop_exit; [rewrite Nat.add_0_r in Hk; exact Hk|lia].
  - destruct (N.leb_spec last0 x) as [L|L]; [apply loop_exit; [exact L|lia]|].
    replace (3 * S k + 9)%nat with (S (S (S (3 * k + 9)))) by lia.
    unfold W at 1. rewrite exec_step with (k' := [IFS; W; STORE]) (s' := mk last0 x p).
    2:{ unfold step1. rewrite (wf_cond_sem c Hc). simpl s_next. simpl s_last.
        destruct (x <=? last0) eqn:E; [reflexivity|apply N.leb_gt in E; lia]. }
    unfold IFS at 1. rewrite exec_step with (k' := [REREAD; W; STORE]) (s' := mk last0 x p).
    2:{ unfold step1. rewrite (wf_eq_sem e He). simpl s_next. simpl s_last.
        destruct (N.eqb_spec x last0); [lia|reflexivity]. }
    rewrite exec_step with (k' := [W; STORE]) (s' := mk last0 (clock p) (S p)); [|reflexivity].
    apply IH. rewrite Nat.add_succ_r in Hk. exact Hk.
Qed.

Lemma canon_completes : forall k x, last0 <= clock (pos0 + k)%nat ->
  exists s', exec (3 * k + 10) clock (canon c e n) (mk last0 x pos0) = Some s'.
Proof.
  intros k x Hk. replace (3 * k + 10)%nat with (S (3 * k + 9)) by lia.
  unfold canon. rewrite exec_step with (k' := [W; STORE]) (s' := mk last0 (clock pos0) (S pos0)); [|reflexivity].
  destruct k as [|k].
  - apply loop_exit; [rewrite Nat.add_0_r in Hk; exact Hk|simpl; lia].
  - destruct (loop_completes k (clock pos0) (S pos0)) as [s' E].
    + rewrite Nat.add_succ_r in Hk. exact Hk.
    + exists s'. apply exec_mono with (f := (3 * k + 9)%nat); [exact E|lia].
Qed.
End Canon.

(* ------------------------------------------------------------------------------------------------ *)
(* Results for every well-formed ir *)

Definition reading_value (ir : debut_ir) (last r : N) : N := if r =? last then last + bump_of ir else r.

(* everything a completed call guarantees *)
Theorem debut_post : forall ir, wf_debut ir = true ->
  forall fuel clock pos last s, run_full ir fuel clock pos last = Some s ->
  exists j, (forall i, (i < j)%nat -> clock (pos + i)%nat < last) /\ last <= clock (pos + j)%nat
            /\ s_next s = reading_value ir last (clock (pos + j)%nat) /\ s_last s = s_next s /\ s_pos s = S (pos + j).
Proof.
  intros ir H fuel clock pos last s E.
  destruct (wf_debut_inv ir H) as (_ & _ & _ & c & e & n & B & Hc & He & Hn & Bn).
  unfold run_full in E. rewrite B in E.
  destruct (exec_R clock c e n pos last Hc He Hn fuel _ _ s (R_init clock c e n pos last 0) E) as (j & Bh & Le & ->).
  exists j. unfold reading_value. rewrite Bn. repeat split; auto.
Qed.

Lemma bump_pos : forall ir, wf_debut ir = true -> 1 <= bump_of ir.
Proof. intros ir H. destruct (wf_debut_inv ir H) as (_ & _ & _ & c & e & n & _ & _ & _ & Hn & Bn). rewrite Bn. exact Hn. Qed.

Lemma reading_value_gt : forall ir last r, wf_debut ir = true -> last <= r -> last < reading_value ir last r.
Proof.
  intros ir last r H L. pose proof (bump_pos ir H). unfold reading_value. destruct (N.eqb_spec r last); lia.
Qed.

Theorem debut_strict : forall ir, wf_debut ir = true ->
  forall fuel clock pos last t pos', run_debut ir fuel clock pos last = Some (t, pos') -> last < t.
Proof.
  intros ir H fuel clock pos last t pos' E. unfold run_debut in E.
  destruct (run_full ir fuel clock pos last) as [s|] eqn:F; [|discriminate E].
  destruct (debut_post ir H _ _ _ _ _ F) as (j & _ & Le & Nx & _ & _).
  destruct (wf_debut_inv ir H) as (_ & _ & Rt & _). rewrite Rt in E. simpl in E. inversion E; subst.
  rewrite Nx. apply reading_value_gt; auto.
Qed.

Theorem debut_value : forall ir, wf_debut ir = true ->
  forall fuel clock pos last t pos', run_debut ir fuel clock pos last = Some (t, pos') ->
  exists j, pos' = S (pos + j) /\ (forall i, (i < j)%nat -> clock (pos + i)%nat < last) /\ last <= clock (pos + j)%nat
            /\ t = (if clock (pos + j)%nat =? last then last + bump_of ir else clock (pos + j)%nat).
Proof.
  intros ir H fuel clock pos last t pos' E. unfold run_debut in E.
  destruct (run_full ir fuel clock pos last) as [s|] eqn:F; [|discriminate E].
  destruct (debut_post ir H _ _ _ _ _ F) as (j & Bh & Le & Nx & _ & Ps).
  destruct (wf_debut_inv ir H) as (_ & _ & Rt & _). rewrite Rt in E. simpl in E. inversion E; subst.
  exists j. repeat split; auto.
Qed.

Theorem debut_completes : forall ir, wf_debut ir = true ->
  forall clock pos last k, last <= clock (pos + k)%nat ->
  exists t p, run_debut ir (3 * k + 10) clock pos last = Some (t, p).
Proof.
  intros ir H clock pos last k Hk.
  destruct (wf_debut_inv ir H) as (_ & _ & _ & c & e & n & B & Hc & He & Hn & _).
  destruct (canon_completes clock c e n pos last Hc He Hn k 0 Hk) as [s E].
  unfold run_debut, run_full. rewrite B. unfold mk in E. rewrite E. eauto.
Qed.

(* the stamp is stored: the next call starts from it *)
Theorem debut_stored : forall ir, wf_debut ir = true ->
  forall fuel clock pos last s, run_full ir fuel clock pos last = Some s -> next_last ir s = val (d_ret ir) s.
Proof.
  intros ir H fuel clock pos last s F.
  destruct (debut_post ir H _ _ _ _ _ F) as (j & _ & _ & _ & Ls & _).
  destruct (wf_debut_inv ir H) as (St & _ & Rt & _). unfold next_last. rewrite St, Rt. exact Ls.
Qed.

(* n calls in any order of obtaining the mutex, any split of the stream of readings: strictly increasing *)
Theorem debut_sequence : forall ir, wf_debut ir = true ->
  forall n fuel clock pos last ts, run_seq ir fuel clock pos last n = Some ts -> StronglySorted N.lt (last :: ts).
Proof.
  intros ir H. induction n as [|n IH]; intros fuel clock pos last ts E.
  - inversion E; subst. constructor; constructor.
  - simpl in E. destruct (run_full ir fuel clock pos last) as [s|] eqn:F; [|discriminate E].
    destruct (run_seq ir fuel clock (s_pos s) (next_last ir s) n) as [ts'|] eqn:G; [|discriminate E].
    inversion E; subst. pose proof (IH _ _ _ _ _ G) as S1. rewrite (debut_stored ir H _ _ _ _ _ F) in S1.
    assert (L : last < val (d_ret ir) s).
    { apply (debut_strict ir H fuel clock pos last _ (s_pos s)). unfold run_debut. rewrite F. reflexivity. }
    constructor; [exact S1|]. constructor; [exact L|].
    apply StronglySorted_inv in S1. destruct S1 as [_ S2]. rewrite Forall_forall in *. intros x Hx. specialize (S2 x Hx). lia.
Qed.

Lemma sorted_lt_nodup : forall l, StronglySorted N.lt l -> NoDup l.
Proof.
  induction l as [|a l IH]; intros S; constructor.
  - apply StronglySorted_inv in S. destruct S as [_ F]. rewrite Forall_forall in F. intros I. specialize (F a I). lia.
  - apply IH. apply StronglySorted_inv in S. tauto.
Qed.

Theorem debut_distinct : forall ir, wf_debut ir = true ->
  forall n fuel clock pos last ts, run_seq ir fuel clock pos last n = Some ts -> NoDup (last :: ts).
Proof. intros. apply sorted_lt_nodup. eapply debut_sequence; eauto. Qed.

(* the generated body is well-formed, and the hypotheses are satisfiable on equal / decreasing readings *)
Lemma canonical_wf : wf_debut debut_ir_canonical = true.
Proof. reflexivity. Qed.

Example ex_equal_reading : run_debut debut_ir_canonical 20 (clock_of [100; 100] 0) 0 100 = Some (101, 1%nat).
Proof. vm_compute. reflexivity. Qed.
Example ex_clock_steps_back : run_debut debut_ir_canonical 20 (clock_of [99; 98; 100; 105] 0) 0 100 = Some (101, 3%nat).
Proof. vm_compute. reflexivity. Qed.
Example ex_sequence : run_seq debut_ir_canonical 30 (clock_of [100; 101; 99; 100; 103] 0) 0 100 3 = Some [101; 102; 103].
Proof. vm_compute. reflexivity. Qed.

(* ---------- alternative bodies: each violates the property on a concrete input (witnesses for the failing-input search) ---------- *)
Definition alt (c e : bexp) (n : N) (behind : list stmt) (store : list stmt) : debut_ir :=
  {| d_static := true; d_locked := true;
     d_body := [SAssign VNext ENow; SWhile c [SIf e [SAssign VNext (EAdd VNext n)] behind]] ++ store; d_ret := VNext |}.

(* loop condition `while !(last <= next)`: an equal reading is returned unchanged *)
Lemma alt_le_refuted : exists clock last, exists t p,
  run_debut (alt (BNot (BCmp OLe VLast VNext)) (BCmp OEq VLast VNext) 1 [SAssign VNext ENow] [SAssign VLast (EVar VNext)]) 20 clock 0 last = Some (t, p) /\ ~ last < t.
Proof. exists (clock_of [100] 0), 100, 100, 1%nat. split; [vm_compute; reflexivity|lia]. Qed.

(* no store: the second call repeats the stamp *)
Lemma alt_nostore_refuted : exists clock last ts,
  run_seq (alt (BNot (BCmp OLt VLast VNext)) (BCmp OEq VLast VNext) 1 [SAssign VNext ENow] []) 20 clock 0 last 2 = Some ts /\ ~ NoDup ts.
Proof.
  exists (clock_of [101; 101] 0), 100, [101; 101]. split; [vm_compute; reflexivity|].
  intros D. inversion D as [|x l NI _]; subst. apply NI. left; reflexivity.
Qed.

(* bump by 0 ns: never terminates on an equal reading (no fuel suffices) *)
Lemma alt_bump0_stuck : forall fuel, run_debut (alt (BNot (BCmp OLt VLast VNext)) (BCmp OEq VLast VNext) 0 [SAssign VNext ENow] [SAssign VLast (EVar VNext)]) fuel (fun _ => 100) 0 100 = None.
Proof.
  intros fuel. unfold run_debut, run_full. simpl d_body.
  assert (G : forall f p, exec f (fun _ => 100) [SWhile (BNot (BCmp OLt VLast VNext)) [SIf (BCmp OEq VLast VNext) [SAssign VNext (EAdd VNext 0)] [SAssign VNext ENow]]; SAssign VLast (EVar VNext)]
                  {| s_last := 100; s_next := 100; s_pos := p |} = None).
  { induction f as [f IH] using lt_wf_ind. intros p. destruct f as [|[|[|f]]]; try reflexivity. simpl. apply IH. lia. }
  destruct fuel as [|f]; [reflexivity|]. simpl. rewrite G. reflexivity.
Qed.

(* the correspondence function `trace` computes what the theorems speak about *)
Lemma trace_run_seq : forall ir fuel clock n pos last ts, run_seq ir fuel clock pos last n = Some ts ->
  map (option_map fst) (fst (trace ir fuel clock pos last n)) = map Some ts.
Proof.
  intros ir fuel clock. induction n as [|n IH]; intros pos last ts E; simpl in *.
  - inversion E; reflexivity.
  - destruct (run_full ir fuel clock pos last) as [s|]; [|discriminate E].
    destruct (run_seq ir fuel clock (s_pos s) (next_last ir s) n) as [ts'|] eqn:G; [|discriminate E].
    inversion E; subst. specialize (IH _ _ _ G).
    destruct (trace ir fuel clock (s_pos s) (next_last ir s) n) as [tr l]. simpl in *. rewrite IH. reflexivity.
Qed.

Lemma search_canonical_empty : search_single debut_ir_canonical 5 = [].
Proof. vm_compute. reflexivity. Qed.
