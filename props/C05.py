"""C05 -- the handle mirrors exactly the selected public methods, with their signatures; impl re-emitted unchanged; documented type names."""
import random, json, os
import hook, inst, ir, rs
import c05_lib as L
from common import *

PID = "C05"
RULE = ("cases = (impl block from the C05 grammar) x lib x filter {none, include(S), exclude(S)} for EVERY subset S of the eligible names when <= 5 "
        "(sampled above), plus filters naming private / unknown / constructor / duplicate names, plus families (lock x members x per-member filter/name); "
        "each case: real macro outcome vs `gen` / `gen_family` of Gen/Classify.v evaluated by coqc on the transliterated input, through the projection "
        "(constructor, Script/Live/Family type names, member fields, ordered (name, vis, async, receiver, param types, return type, docs, generics, where-bounds) "
        "of the Live impl), user impl tokens = input tokens; oracle = declarative C05 spec on the real output; "
        "non-trivial = distinct (kind, lib, filter kind, |S|, #eligible, outcome) classes")

# regression inputs of two repaired defects (recurrence is a VIOLATION)
LONG_ITEM = ("impl A {\n    pub fn new() -> Self { todo!() }\n    pub fn reset<T>(count: u8, (key, x): (u8, String), val: fn(u8) -> u8, gq: T) -> Option<Self> "
             "where T: Into<String>, Vec<T>: Clone { todo!() }\n    pub fn wide(&mut self, first_argument: std::collections::HashMap<String, Vec<u8>>, second_argument: Self, "
             "third_argument: Option<Box<Self>>) -> Result<Vec<Self>, String> { todo!() }\n}")
ASSOC_ITEM = ("impl A {\n    const N: usize = 3;\n    pub fn new(seed: [u8; Self::N]) -> Self { todo!() }\n    pub fn put(&mut self, v: [u8; Self::N]) {}\n"
              "    pub fn get(&self) -> [u8; Self::N] { todo!() }\n    pub fn mixed(&mut self, a: Option<Self>, b: Vec<Self::Item>, c: Self::Item) -> Option<[u16; Self::N]> { None }\n"
              "    pub fn stat(v: [u8; Self::N]) -> Self::Item { todo!() }\n    pub fn fin(self, w: [u8; Self::N]) -> Option<Self::Item> { None }\n}")
ASSOC_GENERIC = ("impl<T: Send + 'static> G<T> {\n    pub fn new(t: T) -> Self { todo!() }\n    pub fn put(&mut self, v: [u8; Self::N], w: Vec<Self::Item>, o: Option<Self>) -> Self::Item { todo!() }\n"
                 "    pub fn st(x: Self::Item) -> Option<Self> { None }\n}")


def actor_cases(rng, tier):
    cases = []
    n_impl = 40 if tier == "quick" else 500
    for k in range(n_impl):
        lib = rng.choice(L.LIBS)
        item = L.gen_impl(rng, lib, nmax=8 if k % 3 else 4)
        imp = L.read_impl(item)
        base = {"lib": lib, "debut": rng.random() < 0.3, "show": rng.random() < 0.25}
        if rng.random() < 0.25:
            base["name"] = rng.choice(["Custom", "my_thing", "X9"])
        el = L.eligible_names(base, imp)
        for lb in L.LIBS:
            cases.append({"kind": "actor", "cfg": dict(base, lib=lb, debut=rng.random() < 0.5), "item": item, "imp": imp, "tag": "nofilter"})
        subs, exhaustive = L.subsets(el, rng)
        for s in subs:
            for fk in ("include", "exclude"):
                cases.append({"kind": "actor", "cfg": dict(base, filter=(fk, list(s))), "item": item, "imp": imp, "tag": "exh" if exhaustive else "sampled"})
        # filters the documentation does not allow: private, unknown, constructor, duplicate
        priv = [f["name"] for f in imp["methods"] if L.vis_of(f["vis"]) == ("VInh",)]
        bad = [["no_such_method"], ["new"], ["try_new"]]
        if priv:
            bad.append([priv[0]])
            bad.append(el[:1] + [priv[0]])
        if el:
            bad.append([el[0], el[0]])
            bad.append([el[-1], "zzz"])
        for s in bad:
            cases.append({"kind": "actor", "cfg": dict(base, filter=(rng.choice(["include", "exclude"]), s)), "item": item, "imp": imp, "tag": "badfilter"})
    return cases


def family_cases(rng, tier):
    cases = []
    n = 25 if tier == "quick" else 250
    n_exh = 0
    for k in range(n):
        lib = rng.choice(["std", "tokio", "async_std"])
        lock = rng.choice(["RwLock", "Mutex"])
        written = lock == "Mutex" or rng.random() < 0.5
        item = L.gen_impl(rng, lib, family=True, lock=lock, nmax=6)
        imp = L.read_impl(item)
        base = {"lib": lib, "lock": lock, "lock_written": written, "debut": rng.random() < 0.3, "show": rng.random() < 0.2}
        if rng.random() < 0.4:
            base["name"] = rng.choice(["MyActor", "Shared"])
        el = L.eligible_names(base, imp)
        for rep_i in range(3 if tier == "quick" else 4):
            firsts = rng.sample(L.FIRST_NAMES, rng.randint(1, 3))
            members = []
            for fn in firsts:
                m = {"first": fn}
                r = rng.random()
                if r < 0.6 and el:
                    s = [x for x in el if rng.random() < 0.5]
                    rng.shuffle(s)
                    m["filter"] = (rng.choice(["include", "exclude"]), s)
                if rng.random() < 0.2:
                    m["name"] = "Other"
                if rng.random() < 0.25:
                    m["show"] = True
                members.append(m)
            cases.append({"kind": "family", "cfg": dict(base, members=members), "item": item, "imp": imp, "tag": "family"})
        # a member naming a self-consuming / private method: rejected
        slf = [f["name"] for f in imp["methods"] if L.recv_of(f["self"])[0] == "RVal" and L.vis_of(f["vis"]) != ("VInh",)]
        if slf:
            cases.append({"kind": "family", "cfg": dict(base, members=[{"first": "User", "filter": ("include", [slf[0]])}]), "item": item, "imp": imp, "tag": "family-bad"})
        if len(el) <= 3 and n_exh < 3:
            n_exh += 1
            for s in L.subsets(el, rng)[0]:
                cases.append({"kind": "family", "cfg": dict(base, members=[{"first": "User", "filter": ("include", s)}, {"first": "Admin", "filter": ("exclude", s)}]),
                              "item": item, "imp": imp, "tag": "family-exh"})
    # `actor: &mut <shared>`: documented as not acceptable
    item = "impl A {\n    pub fn new() -> Self { todo!() }\n    pub fn get(&self) -> u8 { 0 }\n    pub fn bad(actor: &mut Arc<RwLock<Self>>, k: u8) {}\n}"
    cases.append({"kind": "family", "cfg": {"lib": "std", "lock": "RwLock", "members": [{"first": "User"}]}, "item": item, "imp": L.read_impl(item), "tag": "family-bad"})
    return cases


def fixed_cases():
    """hand-written regression inputs: every receiver / visibility / doc form at least once, both constructors"""
    item = """impl A {
    /// ctor doc
    pub fn new(v: i8) -> Self { todo!() }
    pub fn try_new(v: i8) -> Option<Self> { None }
    /// inc doc
    #[doc = "second"]
    pub fn inc(&mut self, x: Vec<Self>, y: &Self, (a, b): (Self, u8)) -> Option<Self> { None }
    pub(crate) fn get(&self, n: i8) -> i8 { n }
    pub(super) fn sup(&self) {}
    pub(in crate) fn inn(&mut self, mut k: u8) {}
    fn private(&self) {}
    pub fn stat(x: Self) -> Self { x }
    pub async fn st2<T: Into<u8>>(t: T) -> u8 { 0 }
    pub fn gen<T: Into<u8>>(&self, t: T) -> u8 where T: Clone { 0 }
    pub fn fin(self) -> Option<u8> { None }
    pub fn raw(mut self, k: u8) -> u8 { k }
}"""
    imp = L.read_impl(item)
    cs = []
    for lib in L.LIBS:
        for debut in (False, True):
            cs.append({"kind": "actor", "cfg": {"lib": lib, "debut": debut}, "item": item, "imp": imp, "tag": "fixed"})
    cs.append({"kind": "actor", "cfg": {"lib": "tokio", "filter": ("include", ["private"])}, "item": item, "imp": imp, "tag": "fixed"})
    cs.append({"kind": "actor", "cfg": {"lib": "tokio", "filter": ("exclude", ["fin", "raw", "stat"]), "name": "Renamed"}, "item": item, "imp": imp, "tag": "fixed"})
    fam = """impl A {
    pub fn new(v: i8) -> Self { todo!() }
    pub fn get(&self, n: i8) -> i8 { n }
    pub fn set(&mut self, n: i8) {}
    pub fn fin(self) -> Option<u8> { None }
    pub fn own(actor: &Arc<RwLock<Self>>, s: u8) -> u8 { s }
    pub fn full(actor: &::std::sync::Arc<::std::sync::RwLock<A>>) {}
    pub fn other(actor: &Arc<Mutex<Self>>, s: u8) -> u8 { s }
    pub fn stat(k: u8) -> u8 { k }
}"""
    for it in (LONG_ITEM, ASSOC_ITEM, ASSOC_GENERIC):
        rimp = L.read_impl(it)
        for lib in L.LIBS:
            cs.append({"kind": "actor", "cfg": {"lib": lib, "debut": lib == "tokio"}, "item": it, "imp": rimp, "tag": "regression"})
        cs.append({"kind": "actor", "cfg": {"lib": "std", "filter": ("include", ["put"] if "put" in it else ["reset"])}, "item": it, "imp": rimp, "tag": "regression"})
    fimp = L.read_impl(fam)
    cs.append({"kind": "family", "cfg": {"lib": "std", "lock": "RwLock", "name": "MyActor", "members": [{"first": "User", "filter": ("include", ["get", "own"])},
               {"first": "SuperAdmin", "filter": ("exclude", ["get"])}, {"first": "Io2", "name": "Other"}]}, "item": fam, "imp": fimp, "tag": "fixed"})
    cs.append({"kind": "family", "cfg": {"lib": "std", "lock": "RwLock", "members": [{"first": "User", "filter": ("include", ["fin"])}]}, "item": fam, "imp": fimp, "tag": "fixed"})
    return cs


def attr_of(case):
    return L.actor_attr(case["cfg"]) if case["kind"] == "actor" else L.family_attr(case["cfg"])


def evaluate_model(cases, intern):
    """one coqc run per batch: definitions of the impl blocks + one value per case"""
    impls, defs = {}, [L.COQ_DEFS]
    items = []
    for i, c in enumerate(cases):
        key = c["item"]
        if key not in impls:
            impls[key] = "impl_%d" % len(impls)
            defs.append("Definition %s : list method_in := %s." % (impls[key], L.clst([L.coq_method(f, intern) for f in c["imp"]["methods"]])))
        nm = impls[key]
        if c["kind"] == "actor":
            cfg = L.coq_cfg(c["cfg"], c["imp"])
            items.append(("c%d" % i, "pj (gen %s %s)" % (cfg, nm)))
            items.append(("d%d" % i, "has_dup (IT.Gen.ClassifyThm.elig_names %s %s)" % (cfg, nm)))
        else:
            fam = L.coq_fam(c["cfg"], c["imp"])
            items.append(("c%d" % i, "pjf (gen_family %s %s)" % (fam, nm)))
            items.append(("d%d" % i, "existsb (fun mb => has_dup (IT.Gen.ClassifyThm.elig_names (member_cfg %s mb) %s)) (f_members %s)" % (fam, nm, fam)))
    out = {}
    B = 400
    for b0 in range(0, len(cases), B):
        sub = [it for it in items if b0 <= int(it[0][1:]) < b0 + B]
        out.update(inst.coq_values("C05_cases_%d" % (b0 // B), L.COQ_IMPORTS + "From IT Require Gen.ClassifyThm.\n", sub, defs="\n".join(defs)))
    return out


def member_cfgs(c):
    if c["kind"] == "actor":
        return [c["cfg"]]
    f = c["cfg"]
    return [{"lib": f["lib"], "lock": f["lock"], "debut": f.get("debut", False), "filter": m.get("filter"), "name": m.get("name") or f.get("name"), "first": m["first"]}
            for m in f["members"]]


def snake(s):
    out = []
    for i, ch in enumerate(s):
        if ch.isupper():
            if i > 0:
                out.append("_")
            out.append(ch.lower())
        else:
            out.append(ch)
    return "".join(out)


def judge(rep, case, cls, text, printed, intern):
    """compare one case; returns (ok, violation-record or None, found)"""
    c, imp = case["cfg"], case["imp"]
    inputs = {f["name"]: f for f in imp["methods"]}
    cfgs = member_cfgs(case)
    valid = all(L.input_valid(m, imp) for m in cfgs) and not (case["tag"] == "family-bad" and "bad" in inputs)
    model = L.model_projection(printed, intern) if case["kind"] == "actor" else L.family_projection(printed, intern)
    rec = {"kind": case["kind"], "attr": attr_of(case), "item": case["item"], "real_class": cls, "model": "Diag" if model is None else "Ok"}
    if cls != "TOKENS":
        rec["real_output"] = text[:600]
        if model is None and cls == "DIAG":
            if valid:
                rec["what"] = "a configuration inside the documented envelope is rejected (model and macro agree): no handle is generated"
                return False, rec, True
            return True, None, None
        rec["what"] = "macro outcome %s but the model expands this input" % cls if model is not None else "macro outcome %s" % cls
        rec["expected"] = "an expansion whose Live impl has methods %s" % [[f["name"] for f, _ in L.oracle_expected(m, imp)] for m in cfgs]
        return False, rec, bool(valid)
    try:
        ex = ir.parse_expansion(text)
    except Exception as e:
        rec["what"] = "expansion not recognised: %r" % e
        return False, rec, False
    fails, diffs = [], []
    # the user's impl block, token for token
    user = L.canon_tokens(rs.flat(ex["user"][0]["all"])) if ex["user"] else []
    if user != imp["tokens"]:
        fails.append("the re-emitted user impl differs from the input impl block")
        rec["user_impl_emitted"] = " ".join(user)[:1500]
    reals = [L.real_projection(m) for m in ex["models"]]
    if len(reals) != len(cfgs):
        fails.append("%d generated models, expected %d" % (len(reals), len(cfgs)))
    else:
        for m, r in zip(cfgs, reals):
            fails += L.oracle(m, imp, r)
    if case["kind"] == "family":
        fam = ex["family"]
        fname = (c.get("name") or imp["actor_name"]) + "Family"
        got_fields = [(n, t.split("<")[0].strip()) for n, t, _ in fam["def"]["fields"]] if fam else None
        want_fields = [(snake(m["first"]), m["first"] + (m.get("name") or c.get("name") or imp["actor_name"]) + "Live") for m in c["members"]]
        if fam is None or fam["def"]["name"] != fname:
            fails.append("family struct %s, documented name %s" % (fam["def"]["name"] if fam else None, fname))
        elif got_fields != want_fields:
            fails.append("family fields %s, documented %s" % (got_fields, want_fields))
        if model is not None and fam is not None:
            if model["family"] != fam["def"]["name"] or [tuple(x) for x in model["fields"]] != got_fields:
                diffs.append("family def %s %s, model %s %s" % (fam["def"]["name"], got_fields, model["family"], model["fields"]))
    if model is None:
        diffs.append("model rejects this input (Diag) but the macro expands it")
    else:
        mods = [model] if case["kind"] == "actor" else model["models"]
        if len(mods) != len(reals):
            diffs.append("%d models, model %d" % (len(reals), len(mods)))
        else:
            for mm, r in zip(mods, reals):
                diffs += L.compare(mm, r, inputs)
    if fails:
        rec["what"] = "the real expansion violates C05: " + "; ".join(fails[:6])
        rec["observed"] = [{"live": r["live"], "methods": [(m["name"], m["vis"], m["async"], m["params"], m["ret"]) for m in r["methods"]]} if r else None for r in reals]
        rec["expected"] = [[(f["name"], kind) for f, kind in L.oracle_expected(m, imp)] for m in cfgs]
        return False, rec, True
    if diffs:
        rec["what"] = "model and macro differ inside the C05 projection although the declarative spec holds on the real output (correspondence broken): " + "; ".join(diffs[:6])
        return False, rec, False
    return True, None, None


def run(rep):
    rng = random.Random(rep.seed)
    rep.extra["rule"] = RULE
    nthm, problems, _ = property_theorems(PID)
    rep.checker_cmds.append("make -C coq theories/Properties/C05.vo (Print Assumptions must be closed)")
    for _ in range(nthm):
        rep.oblige(not problems)
    bad = hygiene()
    rep.oblige(not bad)
    if problems or bad:
        rep.violation("theorems", {"what": "property theorem file no longer checks", "problems": problems, "hygiene": bad}, found=False)

    cases = fixed_cases() + actor_cases(rng, rep.tier) + family_cases(rng, rep.tier)
    intern = L.Interner()
    jobs = [(c["kind"], [attr_of(c), c["item"]]) for c in cases]
    res = hook.run_parallel(jobs, tag="c05", shards=12)
    if res is None:
        raise Infra("expansion batch timed out")
    vals = evaluate_model(cases, intern)
    rep.checker_cmds.append("coqc generated/C05_cases_*.v (gen / gen_family evaluated on the transliterated inputs)")
    nviol = 0
    for i, (case, (cls, fields)) in enumerate(zip(cases, res)):
        rep.evaluations += 1
        c, imp = case["cfg"], case["imp"]
        flt = c.get("filter")
        rep.count("kind", case["tag"])
        rep.count("lib", c["lib"])
        rep.count("filter", "none" if flt is None else flt[0]) if case["kind"] == "actor" else rep.count("members", str(len(c["members"])))
        rep.count("real_class", cls)
        for f in imp["methods"]:
            if i % 7 == 0:
                rep.count("receiver", f["self"] or ("actor-convention" if (f["params"] and L.pat_is_actor(f["params"][0][0])) else "none"))
                rep.count("visibility", f["vis"] or "private")
        # premise of the guarded theorems at this input: eligible names pairwise distinct
        rep.oblige(vals["d%d" % i] == "false")
        try:
            ok, rec, found = judge(rep, case, cls, fields[0] if fields else "", vals["c%d" % i], intern)
        except Exception as e:  # an expansion of a shape the recogniser cannot take apart
            ok, found = False, False
            rec = {"what": "real outcome could not be analysed (%r): correspondence not established" % e, "attr": attr_of(case), "item": case["item"], "real_class": cls,
                   "real_output": (fields[0] if fields else "")[:1500]}
        rep.oblige(ok)
        el = len(L.eligible_names(member_cfgs(case)[0], imp))
        rep.nontrivial.add((case["kind"], c["lib"], None if flt is None else flt[0], None if flt is None else len(flt[1]), el, cls))
        if i % 97 == 0:
            rep.sample({"attr": attr_of(case), "item": case["item"][:400], "real_class": cls, "model": vals["c%d" % i][:300]})
        if not ok and nviol < 12:
            nviol += 1
            rep.violation("%s_%d" % (case["tag"], i), rec, found=found)
    rep.assumptions += [
        "envelope of the grammar: methods with `self`, `&self`, `&mut self`, `mut self` or no receiver; in families additionally the documented `actor: &<shared model type>` "
        "convention (by-value `actor: <shared>` and the same convention under plain `actor` are modelled in Coq but not generated: the documentation does not describe them)",
        "excluded from generation: typed `self: T` receivers, non-doc attributes on methods (#[cfg], #[inline]; the macro drops them), parameters/methods named like generated "
        "identifiers (inter_*, C07/C19), duplicate method names (rustc rejects them; guard NoDup of the theorems), `Self` inside method-level generic bounds or where clauses",
        "the actor self type is a plain path whose generic arguments sit on the last segment (turbofish model `A < T >` -> `A :: < T >`); `Self ::` in the RETURN type of a constructor is not looked at",
        "doc comments, generics text and where clauses are carried opaquely through the Coq model (interned); their preservation is checked on the real expansion by the differential tie",
        "preservation of parameter / return types is compared token-wise after `Self` -> actor type substitution; rustc-level meaning of the signature (type checking of client code) is not exercised here",
        "the classification of compliant return types of self-consuming methods (Option<_>, Result<_, String>, Result<_, &'static str>) is computed by the translator from the documented rule and proved/checked in C09",
    ]
