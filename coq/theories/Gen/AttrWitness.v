(* Gen/AttrWitness.v -- concrete witnesses: (a) every guard used in a C19 theorem is satisfiable on non-trivial inputs,
   (b) the full-strength statements are FALSE of the faithful model (refutations; each witness is replayed on the real macro
   by props/C19.py and listed in known_findings.txt). *)
From Coq Require Import List String Ascii NArith ZArith Bool.
Import ListNotations.
From IT Require Import Gen.Attr Gen.AttrSpec Gen.AttrThm.
Open Scope string_scope.

Definition ftrue (s : string) := true.
Definition fone (s : string) := FOne.
Definition fmany (s : string) := FMany.

Definition nv k s := MNV [k] (VStr s).
Definition w p := MPath [p].

(* ---- guards are satisfiable ---- *)
Definition ex_actor : list meta :=
  [nv "name" "B"; nv "lib" "tokio"; MNV ["channel"] (VInt 2); w "debut"; w "interact"; w "show"; MList ["include"] [w "inc"; w "get"];
   nv "file" "src/main.rs"; MList ["edit"] [MList ["live"] [MList ["imp"] [MList ["file"] [w "inc"]]]]].
Example ex_actor_guard : existsb k_leaf_item ex_actor = false /\ k_name ex_actor = false. Proof. split; reflexivity. Qed.
Example ex_actor_valid : valid_actor ftrue fone ex_actor = true /\ is_ok (parse_args ftrue fone Actor ex_actor) = true. Proof. split; vm_compute; reflexivity. Qed.
Example ex_actor_two_macros : valid_actor ftrue fmany ex_actor = false /\ is_diag (parse_args ftrue fmany Actor ex_actor) = true. Proof. split; vm_compute; reflexivity. Qed.

Definition ex_family : list meta :=
  [nv "name" "Z"; MNV ["channel"] (VInt 3); w "Mutex"; w "debut";
   MList ["actor"] [nv "first_name" "U"; MNV ["channel"] (VInt 0); MList ["include"] [w "inc"]; w "show"];
   MList ["actor"] [nv "first_name" "V"; w "interact"]].
Example ex_family_guard : k_leaf ex_family = false /\ k_name ex_family = false. Proof. split; reflexivity. Qed.
Example ex_family_valid : valid_family ftrue fone ex_family = true /\ is_ok (parse_args ftrue fone Family ex_family) = true. Proof. split; vm_compute; reflexivity. Qed.
Example ex_family_channels :
  match parse_args ftrue fone Family ex_family with Ok c => map (fun p => a_chan (snd p)) (c_members c) | _ => [] end = [Unbounded; Buffer 3].
Proof. vm_compute. reflexivity. Qed.

Definition ex_example : list meta := [nv "path" "src/main.rs"; w "main"; MList ["expand"] [w "actor"]].
Example ex_example_guard : k_example ex_example = false. Proof. reflexivity. Qed.
Example ex_example_valid : valid_example ftrue ex_example = true /\ is_ok (parse_example ftrue ex_example) = true. Proof. split; vm_compute; reflexivity. Qed.

(* ---- refutations of the full-strength statements ---- *)
(* full: forall mc l, parse_args mc l <> Panic.   FALSE: name = "1x" *)
Lemma never_panics_refuted : exists l, k_name l = true /\ parse_args ftrue fone Actor l = Panic.
Proof. exists [nv "name" "1x"]. split; vm_compute; reflexivity. Qed.
Lemma never_panics_refuted_member : exists l, k_name l = true /\ parse_args ftrue fone Family l = Panic.
Proof. exists [MList ["actor"] [nv "first_name" "a b"]]. split; vm_compute; reflexivity. Qed.

(* full: forall l, is_ok (parse_args Actor l) = valid_actor l.   FALSE: Debug(foo), include(inc = 1) are accepted *)
Lemma actor_accept_iff_valid_refuted : exists l, existsb k_leaf_item l = true /\ valid_actor ftrue fone l = false /\ is_ok (parse_args ftrue fone Actor l) = true.
Proof. exists [MList ["Debug"] [w "foo"]]. repeat split; vm_compute; reflexivity. Qed.
Lemma actor_filter_leaf_refuted : exists l, existsb k_leaf_item l = true /\ valid_actor ftrue fone l = false /\ is_ok (parse_args ftrue fone Actor l) = true.
Proof. exists [MList ["include"] [MNV ["inc"] (VInt 1)]]. repeat split; vm_compute; reflexivity. Qed.
Lemma family_accept_iff_valid_refuted : exists l, k_leaf l = true /\ valid_family ftrue fone l = false /\ is_ok (parse_args ftrue fone Family l) = true.
Proof. exists [MNV ["Mutex"] (VInt 1); MList ["actor"] [nv "first_name" "U"]]. repeat split; vm_compute; reflexivity. Qed.

(* full: forall l, is_ok (parse_example l) = valid_example l.   FALSE: unknown options / main = 5 are accepted *)
Lemma example_accept_iff_valid_refuted : exists l, k_example l = true /\ valid_example ftrue l = false /\ is_ok (parse_example ftrue l) = true.
Proof. exists [nv "path" "src/main.rs"; w "bogus"; MNV ["main"] (VInt 5)]. repeat split; vm_compute; reflexivity. Qed.

(* "no option is silently ignored": FALSE for empty lists inside edit -- the configuration is the one of no `edit` at all *)
Lemma edit_empty_list_ignored :
  parse_args ftrue fone Actor [MList ["edit"] [MList ["script"] []]] = parse_args ftrue fone Actor []
  /\ parse_args ftrue fone Actor [MList ["edit"] []] = parse_args ftrue fone Actor []
  /\ parse_args ftrue fone Actor [MList ["edit"] [MList ["live"] [MList ["imp"] []]]] = parse_args ftrue fone Actor [].
Proof. repeat split; vm_compute; reflexivity. Qed.
(* ... and for the non-bare leaves of edit: `def(x)`, `imp(inc = 1)` mean `def`, `imp(inc)` *)
Lemma edit_leaf_ignored :
  parse_args ftrue fone Actor [MList ["edit"] [MList ["live"] [MList ["def"] [w "x"]; MList ["imp"] [MNV ["inc"] (VInt 1)]]]]
  = parse_args ftrue fone Actor [MList ["edit"] [MList ["live"] [w "def"; MList ["imp"] [w "inc"]]]].
Proof. vm_compute. reflexivity. Qed.

(* "every valid combination is accepted": FALSE for the documented edit forms of family / family members (F7) *)
Lemma family_documented_edit_rejected :
  is_diag (parse_args ftrue fone Family [MList ["edit"] [w "def"; w "imp"]; MList ["actor"] [nv "first_name" "U"]]) = true
  /\ is_diag (parse_args ftrue fone Family [MList ["actor"] [nv "first_name" "U"; MList ["edit"] [MList ["script"] [w "def"]]]]) = true
  /\ is_diag (parse_args ftrue fone Family [MList ["actor"] [nv "first_name" "U"; MList ["edit"] [MList ["live"] [MList ["imp"] [w "inc"]]]]]) = true
  /\ is_diag (parse_args ftrue fone Family [MList ["edit"] [MList ["live"] [w "def"]]; MList ["actor"] [nv "first_name" "U"]]) = true
  /\ is_ok (parse_args ftrue fone Family [MList ["edit"] [w "def"]; MList ["actor"] [nv "first_name" "U"]]) = true.
Proof. repeat split; vm_compute; reflexivity. Qed.
