"""C20 -- after the actor dies, calls fail loudly: never hang, never silently vanish."""
import random
import rt_common, probe, gen_impl
from common import *
PID = "C20"


def generic_only_configs():
    """actors whose value-returning methods are all generic (their reply senders travel inside closures, no Script variant names one) or that return
    nothing at all: in-flight callers wait for replies there too, the receiver must drain on every runtime"""
    cs = []
    item = ("impl A {\n    pub fn new(v: i8) -> Self { todo!() }\n    pub fn inc(&mut self) {}\n"
            "    pub fn gen<T: Into<i8> + Send + 'static>(&mut self, t: T) -> i8 { 0 }\n    pub fn vgen<T: Into<i8> + Send + 'static>(&mut self, t: T) {}\n}")
    for lib in gen_impl.LIBS:
        for ch in (None, 2):
            cs.append({"kind": "actor", "lib": lib, "attr": gen_impl.actor_attr(lib, ch), "item": item, "nmodels": 1,
                       "label": "generic-replies lib=%s channel=%s" % (lib, ch), "cfg": (lib, ch, "generic-replies")})
    return cs


def run(rep):
    rng = random.Random(rep.seed)
    rep.extra["rule"] = ("instances = real expansions for lib x channel x debut x impl blocks; probe scenarios = panic injected into an executing method with callers "
                         "in flight (queued, blocked on a full queue, waiting for replies) and arriving later, on the real runtimes; non-trivial = distinct (lib, channel, debut) classes")
    kf = known_findings()
    known_async = [f for f in kf["finding"] if f.get("property") == PID and f.get("class") == "async-channel-buffered-reply"]

    def per_model(rep, c, j, r):
        # C20_no_hang needs a draining receiver (std, tokio) or the drain guard in play (async_std, smol, repair e47f24b)
        if r["drain"] != "true" and not known_async:
            return False
        return True

    owners, res = rt_common.run_runtime(rep, PID, "wf_C20",
        ["fun (A V : Type) sem sem_slf dv => @C20_loud A V sem sem_slf dv {i} {w}",
         "fun (A V : Type) sem sem_slf dv => @C20_no_fabrication A V sem sem_slf dv {i} {w}",
         "fun (A V : Type) sem sem_slf dv => @C20_no_hang A V sem sem_slf dv {i} {w} (eq_refl true <: r_drain (elab {i}) = true)",
         "fun (A V : Type) sem sem_slf dv (H : r_stop_first (elab {i}) = true) => @C20_blocked_released_by_stop A V sem sem_slf dv {i} {w} H"],
        rt_common.std_configs(rng, rep.tier) + generic_only_configs(),
        dfs=("(bad_c20 {m})", "true"), dfs_when=lambda r: r["drain"] != "true",
        search="c20_search", search_what="client 0 makes a method panic, clients 1 and 2 then call every method (Runtime/Explore.v faulted); anomalies: 1 completed without execution and without panic, 2 fabricated value, 3 caller still inside a call at the end; dfs monitor: a call completed silently, or a caller inside a call has no enabled step although the actor is dead",
        extra_funs=[("drain", "r_drain (elab {i})")], per_model_check=per_model)
    interact_loud_part(rep, random.Random(rep.seed + 5))
    ndrain = sum(1 for r in res if r["drain"] == "true")
    rep.notes.append("C20_no_hang instantiated for %d instances with a draining receiver (std, tokio) or a drain guard in play (async_std, smol); %d instances without" % (ndrain, len(res) - ndrain))
    runs = []
    for lib in gen_impl.LIBS:
        for ch in ((0, 1) if rep.tier == "quick" else (0, 1, 2, 3)):
            runs.append(["fault", lib, ch, "waiting=2", "later=4"])
            runs.append(["fault", lib, ch, "waiting=1", "later=2", "units=2"])      # in-flight calls whose reply type is spelled `-> ()`
            if rep.tier != "quick":
                runs.append(["fault", lib, ch, "waiting=3", "later=2", "order=adds_first"])
    hang_libs = ("async_std", "smol") if known_async else ()
    # a self-consuming call on a dead actor (sole handle, guarded method): loud too, never a made-up refusal
    runs += [["consume", lib, ch, "handles=1", "dead=1"] for lib in gen_impl.LIBS for ch in ((0, 2) if rep.tier == "quick" else (0, 1, 2, 3))]
    seen = rt_common.impl_side(rep, PID, runs, lambda a, d: (probe.oracle_consume(d), []) if a[0] == "consume" else probe.oracle_fault(d, hang_libs))
    rt_common.model_vs_probe(rep, PID, 'fault', [(lib, ch, {'waiting': 2, 'later': 4}) for lib in gen_impl.LIBS for ch in (0, 1, 2)])
    if seen and known_async:
        rep.known_finding("async-channel-buffered-reply: %d in-flight value-returning calls on async_std / smol block forever after the actor died (e.g. %s); proved refuted in Coq: C20_no_hang_refuted_without_drain" % (len(seen), seen[0]))


def interact_loud_part(rep, rng):
    """`interact` methods that hand a channel end back to the caller are ordinary sends for C20: on a dead actor the call must panic, not return an
    end nobody holds the other side of.  Static oracle on the translated real expansions: every handle method's send / wait says `closed` loudly."""
    import C14, inst
    cases = []
    for lib in gen_impl.LIBS:
        for ch in (None, 2):
            for kinds in (("E",), ("O", "E"), ("G", "E"), ("E", "G", "O")):
                c = C14.mk_case(rng, kinds, lib, irregular=False, interact=True, ret=False)
                c["channel"] = ch
                cases.append(c)
    cfgs = [{"kind": "actor", "lib": c["lib"], "attr": gen_impl.actor_attr(c["lib"], c["channel"], debut=True, interact=True), "item": C14.item_of([c]),
             "label": "interact lib=%s channel=%s kinds=%s" % (c["lib"], c["channel"], c["kinds"]), "case": c} for c in cases]
    cfgs = inst.expand_configs(cfgs, tag="c20i")
    terms, owners = [], []
    for c in cfgs:
        rep.evaluations += 1
        ms = inst.coq_models(c) if c["class"] == "TOKENS" else []
        if len(ms) != 1 or ms[0] is None:
            rep.oblige(False)
            rep.violation("shape_" + c["label"], {"what": "interact method not expanded / recognised", "class": c["class"], "attr": c["attr"], "item": c["item"], "output": c["text"][:1200]}, found=False)
            continue
        terms.append(ms[0]); owners.append(c)
    if not terms:
        return
    res, _ = inst.coq_eval(PID + "i", terms, [("loud", "InvDefs2.loud (elab {i}) && forallb (fun lm => body_says_closed (lm_body lm)) (m_methods {i})"),
                                              ("quiet", "map lm_name (filter (fun lm => negb (body_says_closed (lm_body lm))) (m_methods {i}))")],
                           extra_imports="From IT Require Import Runtime.InvDefs2 Runtime.Explore Runtime.Combined.")
    for c, r, t in zip(owners, res, terms):
        rep.nontrivial.add(("interact-loud", c["lib"], c["case"]["channel"], c["case"]["kinds"]))
        if rep.oblige(r["loud"] == "true"):
            continue
        unread = "(BUnknown" in t
        rep.violation("interact_" + c["label"], {
            "what": "handle method(s) %s of an `interact` actor do not report a closed channel: a call on a dead actor returns normally (holding a channel end whose other side was "
                    "dropped with the unsent message) instead of panicking" % r["quiet"],
            "attr": c["attr"], "item": c["item"], "unread_bodies": unread, "theorem": "premise `loud` / `body_says_closed` of C20_loud at the translated real expansion"}, found=not unread)


def replay(rep, path):
    return rt_common.replay_generic(rep, path)
