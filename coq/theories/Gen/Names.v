(* Gen/Names.v -- model of src/model/name.rs (identifier mangling), as the code is after fix f530640.
   Strings are lists of bytes ([list ascii]); the model is faithful on the ASCII domain (every theorem
   that needs it says so: a legal identifier in the sense of [legal_ident] is ASCII by definition).
   This file contains definitions only (it still evaluates when a proof breaks); proofs are in NamesThm.v. *)
From Coq Require Import List String Ascii NArith Bool.
Import ListNotations.
Open Scope N_scope.

Definition chars := list ascii.
Definition s2l (s : string) : chars := list_ascii_of_string s.
Definition l2s (l : chars) : string := string_of_list_ascii l.

Definition us : ascii := "_"%char.
Definition code (c : ascii) : N := N_of_ascii c.

Definition is_lower (c : ascii) : bool := (97 <=? code c) && (code c <=? 122).
Definition is_upper (c : ascii) : bool := (65 <=? code c) && (code c <=? 90).
Definition is_digit (c : ascii) : bool := (48 <=? code c) && (code c <=? 57).
Definition is_us (c : ascii) : bool := code c =? 95.
Definition is_alpha (c : ascii) : bool := is_lower c || is_upper c.
Definition is_ident_start (c : ascii) : bool := is_alpha c || is_us c.
Definition is_ident_char (c : ascii) : bool := is_alpha c || is_digit c || is_us c.
Definition is_ascii (c : ascii) : bool := code c <? 128.

(* char::to_uppercase / char::to_ascii_lowercase restricted to ASCII *)
Definition upper (c : ascii) : ascii := if is_lower c then ascii_of_N (code c - 32) else c.
Definition lower (c : ascii) : ascii := if is_upper c then ascii_of_N (code c + 32) else c.

Fixpoint chars_eqb (a b : chars) : bool :=
  match a, b with
  | [], [] => true
  | x :: a', y :: b' => Ascii.eqb x y && chars_eqb a' b'
  | _, _ => false
  end.

(* shape of an identifier: non-empty, starts with a letter or '_', continues with letters, digits, '_' *)
Definition ident_shape (l : chars) : bool :=
  match l with
  | [] => false
  | c :: r => is_ident_start c && forallb is_ident_char r
  end.

(* a legal (non-raw, ASCII) Rust identifier, keywords aside: ident_shape and not the lone underscore *)
Definition legal_ident (l : chars) : bool := ident_shape l && negb (chars_eqb l [us]).

(* `input.strip_prefix("r#").unwrap_or(input)` *)
Definition strip_raw (l : chars) : chars :=
  match l with
  | r :: h :: rest => if Ascii.eqb r "r"%char && Ascii.eqb h "#"%char then rest else l
  | _ => l
  end.

(* what `Ident::to_string()` can deliver for a method name: a legal identifier, optionally behind `r#` *)
Definition legal_input (l : chars) : bool := legal_ident (strip_raw l).

(* `input.split('_')` : never returns the empty list *)
Fixpoint split_us (l : chars) : list chars :=
  match l with
  | [] => [[]]
  | c :: r =>
      if is_us c then [] :: split_us r
      else match split_us r with
           | w :: ws => (c :: w) :: ws
           | [] => [[c]]
           end
  end.

(* body of the `for word in words` loop of to_upper_camel_case *)
Definition word_camel (w : chars) : chars :=
  match w with
  | [] => [us]
  | c :: r => upper c :: r
  end.

(* name::to_upper_camel_case *)
Definition to_upper_camel_case (input : chars) : chars :=
  List.concat (map word_camel (split_us (strip_raw input))).

(* the same function as a one-pass automaton; ws = "the current word is still empty" *)
Fixpoint camel_aut (ws : bool) (l : chars) : chars :=
  match l with
  | [] => if ws then [us] else []
  | c :: r =>
      if is_us c then (if ws then us :: camel_aut true r else camel_aut true r)
      else (if ws then upper c :: camel_aut false r else c :: camel_aut false r)
  end.

(* name::to_lower_snake_case;  first = (i == 0) *)
Fixpoint snake_from (first : bool) (l : chars) : chars :=
  match l with
  | [] => []
  | c :: r =>
      if is_upper c then (if first then lower c :: snake_from false r else us :: lower c :: snake_from false r)
      else c :: snake_from false r
  end.
Definition to_lower_snake_case (l : chars) : chars := snake_from true l.

(* results of the helpers: format_ident! / Ident::new panic on a string that is not an identifier,
   combined_ident aborts with "Internal Error" on an empty container *)
Inductive res := Ok (o : chars) | Panic | InternalError.

Definition fmt_ident (l : chars) : res := if ident_shape l then Ok l else Panic.

Definition script_field (name : chars) : res := fmt_ident (to_upper_camel_case name).
Definition family_field_name (name : chars) : res := fmt_ident (to_lower_snake_case name).

Definition join2 (a b : chars) : chars := (a ++ us :: b)%list.

(* name::combined_ident (after the raw-identifier fix): one ident is returned as it is; two or more are joined by '_' with
   format_ident!("{}_{}", combined, ident), whose explicit arguments lose their `r#` prefix (left fold) *)
Definition combined_ident (ids : list chars) : res :=
  match ids with
  | [] => InternalError
  | [x] => Ok x
  | x :: r => fold_left (fun acc y => match acc with Ok a => fmt_ident (join2 (strip_raw a) (strip_raw y)) | e => e end) r (Ok x)
  end.

(* the code before that fix: format_ident!("{combined}_{ident}") keeps the `r#` of every ident inside the string *)
Definition combined_ident_old (ids : list chars) : res :=
  match ids with
  | [] => InternalError
  | x :: r => fold_left (fun acc y => match acc with Ok a => fmt_ident (join2 a y) | e => e end) r (Ok x)
  end.

(* class on which the variant-name mangling is injective: lower-case letters, digits and '_' only,
   and every non-empty '_'-separated word starts with a letter ("lower_snake_case" names) *)
Fixpoint snake_class_from (ws : bool) (l : chars) : bool :=
  match l with
  | [] => true
  | c :: r =>
      if is_us c then snake_class_from true r
      else if is_lower c then snake_class_from false r
      else if is_digit c then negb ws && snake_class_from false r
      else false
  end.
Definition snake_class (l : chars) : bool := snake_class_from true l.

(* inverse of the mangling on that class: an upper-case letter or a '_' in the output starts a new word;
   words are re-joined with '_' (first = nothing decoded yet) *)
Fixpoint uncamel (first : bool) (l : chars) : chars :=
  match l with
  | [] => []
  | c :: r =>
      if is_us c then (if first then uncamel false r else us :: uncamel false r)
      else if is_upper c then (if first then lower c :: uncamel false r else us :: lower c :: uncamel false r)
      else c :: uncamel false r
  end.

(* string front ends used by the check script *)
Definition script_field_s (s : string) : option string :=
  match script_field (s2l s) with Ok o => Some (l2s o) | _ => None end.
Definition family_field_name_s (s : string) : option string :=
  match family_field_name (s2l s) with Ok o => Some (l2s o) | _ => None end.
Definition combined_ident_s (ss : list string) : option string :=
  match combined_ident (map s2l ss) with Ok o => Some (l2s o) | _ => None end.
Definition legal_input_s (s : string) : bool := legal_input (s2l s).
Definition snake_class_s (s : string) : bool := snake_class (s2l s).

(* ---- ImplWork::get_methods (after fix_variant_collision): two methods selected for one model must not be mangled
   into the same Script variant; the first clash aborts with a diagnostic naming both methods ----
   seen = the `variants` vector (method name, variant name) in insertion order *)
Inductive vres := VOk (variants : list chars) | VDiag (first second : chars) | VPanic.

Fixpoint find_first (f : chars) (seen : list (chars * chars)) : option chars :=
  match seen with
  | [] => None
  | (n, g) :: r => if chars_eqb g f then Some n else find_first f r
  end.

Fixpoint check_variants (seen : list (chars * chars)) (names : list chars) : vres :=
  match names with
  | [] => VOk (map snd seen)
  | n :: r =>
      match script_field n with
      | Ok f => match find_first f seen with
                | Some first => VDiag first n
                | None => check_variants (seen ++ [(n, f)]) r
                end
      | _ => VPanic
      end
  end.

Definition script_variants (names : list chars) : vres := check_variants [] names.

Definition script_variants_s (ss : list string) : option (list string) + (string * string) :=
  match script_variants (map s2l ss) with
  | VOk vs => inl (Some (map l2s vs))
  | VDiag a b => inr (l2s a, l2s b)
  | VPanic => inl None
  end.
