(* Text/Atp.v -- executable model of `ActiveTextParser` (src/parse/atp.rs:21-187) and of
   `preceded_by` / `pad` (src/parse/mod.rs:21-39) on ASCII text.
   Byte offsets = char offsets (ASCII guard: the check feeds only ASCII to this model).
   No proofs in this file (AtpThm.v). *)
From Coq Require Import List String Ascii Arith Bool.
Import ListNotations.

Definition str := list ascii.
Definition sp : ascii := " "%char.
Definition blanks (n : nat) : str := repeat sp n.
Definition s2l (s : string) : str := list_ascii_of_string s.
Definition l2s (l : str) : string := string_of_list_ascii l.

Fixpoint prefixb (p s : str) : bool :=
  match p, s with
  | [], _ => true
  | a :: p', b :: s' => Ascii.eqb a b && prefixb p' s'
  | _ :: _, [] => false
  end.

(* str::find(pat) for a non-empty pattern *)
Fixpoint find_sub (p s : str) {struct s} : option nat :=
  if prefixb p s then Some 0
  else match s with
       | [] => None
       | _ :: s' => option_map S (find_sub p s')
       end.

Fixpoint str_eqb (a b : str) : bool :=
  match a, b with
  | [], [] => true
  | x :: a', y :: b' => Ascii.eqb x y && str_eqb a' b'
  | _, _ => false
  end.

(* preceded_by(s,pos,target) for one-character targets (the only use in the crate): the guard
   `!target.len() > pos` is a bitwise NOT and always holds *)
Definition prec (s : str) (pos : nat) (c : ascii) : option nat :=
  match pos with
  | 0 => None
  | S p => match nth_error s p with
           | Some d => if Ascii.eqb d c then Some p else None
           | None => None
           end
  end.

Fixpoint count_back (fuel : nat) (s : str) (pos : nat) (c : ascii) : nat :=
  match fuel with
  | 0 => 0
  | S f => match prec s pos c with
           | Some np => S (count_back f s np c)
           | None => 0
           end
  end.

Definition q_apos : ascii := "'"%char.
Definition q_dq : ascii := """"%char.
Definition c_hash : ascii := "#"%char.
Definition c_comma : ascii := ","%char.
Definition c_bsl : ascii := "\"%char.

(* scanning state inside open_multy_line: (length of ss, work, self.open) -- ss is always a prefix of s *)
Definition st3 := (nat * str * option str)%type.

Definition step_find (pat : str) (k : nat) (o : option str) (keep : bool) (s : str) (x : st3) : st3 :=
  let '(n, w, op) := x in
  match find_sub pat (firstn n s) with
  | Some pos => (pos, blanks k ++ skipn (pos + k) s, if keep then op else o)
  | None => x
  end.

(* how far a string opener extends backwards from the quote, and the closing cap *)
Definition str_open (s : str) (pos : nat) : nat * str :=
  match prec s pos "b"%char with
  | Some _ => (1, [q_dq])
  | None =>
    match prec s pos c_hash with
    | None => (0, [q_dq])
    | Some _ =>
      let k := count_back pos s pos c_hash in
      match prec s (pos - k) "r"%char with
      | None => (0, [q_dq])
      | Some _ =>
        match prec s (pos - k - 1) "b"%char with
        | Some _ => (k + 2, q_dq :: repeat c_hash k)
        | None => (k + 1, q_dq :: repeat c_hash k)
        end
      end
    end
  end.

Definition step_string (s : str) (x : st3) : st3 :=
  let '(n, w, op) := x in
  match find_sub [q_dq] (firstn n s) with
  | Some pos0 =>
    let '(back, cap) := str_open (firstn n s) pos0 in
    let pos := pos0 - back in
    let slf := back + 1 in
    (pos, blanks slf ++ skipn (pos + slf) s, Some cap)
  | None => x
  end.

(* the "possible lifetime catch block": last blank/comma before the next apostrophe; the split is in front of that
   blank, always behind the apostrophe (pos+1+i) *)
Fixpoint life_scan (rest : str) (i : nat) (acc : option nat) : option nat :=
  match rest with
  | [] => acc
  | c :: r =>
    if Ascii.eqb c sp || Ascii.eqb c c_comma then life_scan r (S i) (Some i)
    else if Ascii.eqb c q_apos then acc
    else life_scan r (S i) acc
  end.

(* what follows the apostrophe: an escaped char literal ('\n', '\''), a plain char literal ('x', ' '), or a lifetime *)
Inductive apos_kind := AEscaped | AChar | ALifetime.
Definition apos_kind_of (rest : str) : apos_kind :=
  match rest with
  | c1 :: r =>
    if Ascii.eqb c1 c_bsl then AEscaped
    else match r with
         | c2 :: _ => if Ascii.eqb c2 q_apos then AChar else ALifetime
         | [] => ALifetime
         end
  | [] => ALifetime
  end.

Definition step_life (s : str) (x : st3) : st3 :=
  let '(n, w, op) := x in
  match op with
  | Some cap =>
    if str_eqb cap [q_apos] then
      let rest := skipn (n + 1) s in
      match apos_kind_of rest with
      | AEscaped => if Nat.leb (n + 3) (List.length s) then (n, blanks 3 ++ skipn (n + 3) s, op) else x   (* s.get(pos+3..) *)
      | AChar => x
      | ALifetime =>
        match life_scan rest 0 None with
        | Some i => (n + 1 + i, skipn (n + 1 + i) s, Some [])
        | None => x
        end
      end
    else x
  | None => x
  end.

Definition has_slash (s : str) : bool := existsb (Ascii.eqb "/"%char) s.

(* open_multy_line: None, or (ss length, work, new self.open) *)
Definition open_ml (s : str) : option st3 :=
  match s with
  | [] => None
  | _ =>
    let x0 : st3 := (List.length s, [], None) in
    let x1 := if has_slash s
              then step_find (s2l "/*") 2 (Some (s2l "*/")) false s (step_find (s2l "//") 2 None true s x0)
              else x0 in
    let x2 := step_find [q_apos] 1 (Some [q_apos]) false s x1 in
    let x3 := step_string s x2 in
    let x4 := step_life s x3 in
    let '(n, w, op) := x4 in
    if Nat.eqb (List.length s) n then None else Some x4
  end.

(* the escaped-quote loop of close_multy_line; None = `return None` *)
Fixpoint close_esc (fuel : nat) (s cap : str) (pos : nat) : option nat :=
  match fuel with
  | 0 => None
  | S f =>
    match prec s pos c_bsl with
    | Some _ =>
      let pos1 := pos + 1 in
      if Nat.ltb pos1 (List.length s) then
        match find_sub cap (skipn pos1 s) with
        | Some np => close_esc f s cap (pos1 + np)
        | None => None
        end
      else None
    | None => Some pos
    end
  end.

(* close_multy_line: (blank code, remaining work) *)
Definition close_ml (s cap : str) : option (str * str) :=
  match find_sub cap s with
  | Some pos0 =>
    let pos1 := if str_eqb cap [q_dq] then close_esc (S (List.length s)) s cap pos0 else Some pos0 in
    match pos1 with
    | Some pos => let p := pos + List.length cap in Some (blanks p, skipn p s)
    | None => None
    end
  | None => None
  end.

Inductive presult := Done (open : option str) (code : str) | OutOfFuel.

(* the `loop` of ActiveTextParser::parse *)
Fixpoint parse_loop (fuel : nat) (o : option str) (work code : str) : presult :=
  match fuel with
  | 0 => OutOfFuel
  | S f =>
    match o with
    | Some cap =>
      match cap with
      | [] => parse_loop f None work code
      | _ =>
        match close_ml work cap with
        | Some (c, w) =>
          match w with
          | [] => Done None (code ++ c)
          | _ => parse_loop f None w (code ++ c)
          end
        | None => Done o (code ++ blanks (List.length work))
        end
      end
    | None =>
      match open_ml work with
      | Some (n, w, o') =>
        match o' with
        | None => Done None (code ++ firstn n work ++ blanks (List.length w))
        | Some _ => parse_loop f o' w (code ++ firstn n work)
        end
      | None => Done None (code ++ work)
      end
    end
  end.

Definition line_fuel (line : str) : nat := 2 * List.length line + 4.

Definition parse_line (o : option str) (line : str) : presult := parse_loop (line_fuel line) o line [].

(* all lines of a text, threading `open`; None = some line ran out of fuel (index of that line) *)
Fixpoint parse_lines (o : option str) (ls : list str) : list str + nat :=
  match ls with
  | [] => inl []
  | l :: r =>
    match parse_line o l with
    | Done o' c => match parse_lines o' r with inl cs => inl (c :: cs) | inr k => inr (S k) end
    | OutOfFuel => inr 0
    end
  end.

(* `record`: byte offset of line i in the LF-joined text *)
Fixpoint line_offset (ls : list str) (i : nat) : nat :=
  match i, ls with
  | 0, _ => 0
  | S j, l :: r => List.length l + 1 + line_offset r j
  | S _, [] => 0
  end.

(* interface used by the check: compare with what the real scanner returned *)
Definition atp_check (ls : list string) (expected : list string) : bool :=
  match parse_lines None (map s2l ls) with
  | inl cs => (fix eq (a : list str) (b : list string) := match a, b with
                | [], [] => true | x :: a', y :: b' => str_eqb x (s2l y) && eq a' b' | _, _ => false end) cs expected
  | inr _ => false
  end.

Definition atp_out (ls : list string) : list string + nat :=
  match parse_lines None (map s2l ls) with inl cs => inl (map l2s cs) | inr k => inr k end.
