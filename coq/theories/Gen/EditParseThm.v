(* Gen/EditParseThm.v -- theorems about the parser model of Gen/Edit.v *)
From Coq Require Import List String Ascii Bool Arith Lia.
Import ListNotations.
From IT Require Import Gen.Edit.
Open Scope string_scope.

(* ------------------------------------------------------------------------------------------ *)
(* generic lemmas on foldM / forget                                                             *)
(* ------------------------------------------------------------------------------------------ *)
Lemma forget_bind {A B} (x : res A) (f : A -> res B) :
  forget (bind x f) = match forget x with Some a => forget (f a) | None => None end.
Proof. destruct x; reflexivity. Qed.

Lemma forget_None_diag {A} (r : res A) : forget r = None <-> is_diag r = true.
Proof. destruct r; simpl; split; congruence. Qed.

Lemma foldM_app {S A} (f : S -> A -> res S) l1 l2 s :
  foldM f s (l1 ++ l2)%list = bind (foldM f s l1) (fun s' => foldM f s' l2).
Proof.
  revert s; induction l1 as [|a l1 IH]; intros s; simpl; [reflexivity|].
  destruct (f s a); simpl; auto.
Qed.

Lemma foldM_map {S A B} (f : S -> B -> res S) (h : A -> B) l s :
  foldM f s (map h l) = foldM (fun s x => f s (h x)) s l.
Proof. revert s; induction l as [|a l IH]; intros; simpl; auto. destruct (f s (h a)); auto. Qed.

Lemma foldM_ext_in {S A} (f g : S -> A -> res S) l :
  (forall a, In a l -> forall s, f s a = g s a) -> forall s, foldM f s l = foldM g s l.
Proof.
  induction l as [|a l IH]; intros H s; simpl; auto.
  rewrite (H a) by (left; auto). destruct (g s a); auto. apply IH. intros; apply H; right; auto.
Qed.

Lemma foldM_single {S A} (f : S -> A -> res S) s a : foldM f s [a] = f s a.
Proof. simpl. destruct (f s a); reflexivity. Qed.

Lemma foldM_flat {S A B} (f : S -> A -> res S) (g : S -> B -> res S) (fl : A -> list B) l :
  (forall a, In a l -> forall s, f s a = foldM g s (fl a)) ->
  forall s, foldM f s l = foldM g s (flat_map fl l).
Proof.
  induction l as [|a l IH]; intros H s; simpl; auto.
  rewrite foldM_app, <- H by (left; auto). destruct (f s a); simpl; auto.
  apply IH. intros; apply H; right; auto.
Qed.

Lemma foldM_fail {S A} (f : S -> A -> res S) l x :
  In x l -> (forall s, is_diag (f s x) = true) -> forall s, is_diag (foldM f s l) = true.
Proof.
  induction l as [|a l IH]; intros Hin H s; simpl; [destruct Hin|].
  destruct Hin as [->|Hin].
  - specialize (H s). destruct (f s x); simpl in *; congruence.
  - destruct (f s a); simpl; auto.
Qed.

Lemma foldM_fail_forget {S A} (f : S -> A -> res S) l x :
  In x l -> (forall s, forget (f s x) = None) -> forall s, forget (foldM f s l) = None.
Proof.
  intros Hin H s. apply forget_None_diag. apply foldM_fail with x; auto.
  intros s'. apply forget_None_diag; auto.
Qed.

Lemma foldM_inv {S A} (P : S -> Prop) (f : S -> A -> res S) :
  (forall s a s', P s -> f s a = Ok s' -> P s') ->
  forall l s s', P s -> foldM f s l = Ok s' -> P s'.
Proof.
  intros H l; induction l as [|a l IH]; intros s s' Hs; simpl.
  - intros E; inversion E; subst; auto.
  - destruct (f s a) eqn:E; [|discriminate]. apply IH. eapply H; eauto.
Qed.

(* ------------------------------------------------------------------------------------------ *)
(* T3 (removed: the family-level length test is gone, see parse_family_grammar)          *)
(* ------------------------------------------------------------------------------------------ *)


(* ------------------------------------------------------------------------------------------ *)
(* T4                                                                                           *)
(* ------------------------------------------------------------------------------------------ *)
Lemma is_name_false s m : mname m <> s -> is_name s m = false.
Proof. intros H. unfold is_name. apply String.eqb_neq; auto. Qed.

Lemma parse_sol_unknown e m file :
  mname m <> "script" -> mname m <> "live" -> is_diag (parse_sol e m file) = true.
Proof.
  intros H1 H2. unfold parse_sol, which_sol.
  rewrite (is_name_false _ _ H1), (is_name_false _ _ H2). reflexivity.
Qed.

Theorem unknown_key_top : forall (l : list meta) (m : meta), In m l ->
  mname m <> "script" -> mname m <> "live" -> mname m <> "file" ->
  is_diag (edit_parse (MList "edit" l)) = true.
Proof.
  intros l m Hin H1 H2 H3.
  assert (Hstep : forall e, is_diag (top_step e m) = true).
  { intros e. unfold top_step. rewrite (is_name_false _ _ H3). apply parse_sol_unknown; auto. }
  unfold edit_parse, parse.
  destruct l as [|a [|b l]].
  - destruct Hin.
  - simpl get_list. cbv iota beta.
    destruct Hin as [->|[]]. rewrite (is_name_false _ _ H3). apply parse_sol_unknown; auto.
  - simpl get_list. cbv iota beta. apply foldM_fail with m; auto.
Qed.

Theorem unknown_key_nested : forall (sol file : bool) (e : edit_actor) (l : list meta) (m : meta), In m l ->
  mname m <> "def" -> mname m <> "imp" -> mname m <> "trt" -> mname m <> "file" ->
  is_diag (parse_sol e (MList (sol_name sol) l) file) = true.
Proof.
  intros sol file e l m Hin H1 H2 H3 H4.
  unfold parse_sol. destruct (which_sol e (MList (sol_name sol) l)) as [sol'|d]; [|reflexivity].
  destruct l as [|a l]; [destruct Hin|].
  simpl get_list. cbv iota beta. apply foldM_fail with m; auto.
  intros s. unfold sol_step. rewrite (is_name_false _ _ H4).
  unfold parse_sol_nested, nested_t. destruct (get_t sol' s) as [[dd ii] rr].
  rewrite (is_name_false _ _ H1), (is_name_false _ _ H2), (is_name_false _ _ H3). reflexivity.
Qed.

(* ------------------------------------------------------------------------------------------ *)
(* T5                                                                                           *)
(* ------------------------------------------------------------------------------------------ *)
Theorem nested_file_top : forall (l rest pre : list meta),
  is_diag (edit_parse (MList "edit" [MList "file" (pre ++ MList "file" l :: rest)%list])) = true.
Proof.
  intros l rest pre. unfold edit_parse, parse. simpl get_list. cbv iota beta.
  replace (is_name "file" (MList "file" (pre ++ MList "file" l :: rest)%list)) with true by reflexivity.
  assert (H : forall s, is_diag (foldM file_part_step s (pre ++ MList "file" l :: rest)%list) = true).
  { apply foldM_fail with (MList "file" l).
    - apply in_elt.
    - intros s. reflexivity. }
  destruct pre as [|a pre]; simpl app in *; simpl get_list; cbv iota beta; apply H.
Qed.

(* ------------------------------------------------------------------------------------------ *)
(* component split                                                                              *)
(* ------------------------------------------------------------------------------------------ *)
Lemma foldM_split2 {S SA SB X} (mk : SA -> SB -> S) (f : S -> X -> res S)
      (fa : SA -> X -> res SA) (fb : SB -> X -> res SB) (ca cb : X -> bool) :
  (forall x, cb x = negb (ca x)) ->
  (forall a b x, ca x = true -> forget (f (mk a b) x) = option_map (fun a' => mk a' b) (forget (fa a x))) ->
  (forall a b x, cb x = true -> forget (f (mk a b) x) = option_map (fun b' => mk a b') (forget (fb b x))) ->
  forall l a b, forget (foldM f (mk a b) l) =
     match forget (foldM fa a (filter ca l)), forget (foldM fb b (filter cb l)) with
     | Some a', Some b' => Some (mk a' b') | _, _ => None end.
Proof.
  intros Hc HA HB l; induction l as [|x l IH]; intros a b; simpl; [reflexivity|].
  rewrite (Hc x). destruct (ca x) eqn:E; simpl.
  - specialize (HA a b x E).
    destruct (f (mk a b) x) as [s|d]; destruct (fa a x) as [a'|d']; simpl in HA; try discriminate.
    + inversion HA; subst. apply IH.
    + reflexivity.
  - assert (E' : cb x = true) by (rewrite Hc, E; reflexivity).
    specialize (HB a b x E').
    destruct (f (mk a b) x) as [s|d]; destruct (fb b x) as [b'|d']; simpl in HB; try discriminate.
    + inversion HB; subst. apply IH.
    + simpl. destruct (forget (foldM fa a (filter ca l))); reflexivity.
Qed.

Definition excl3 {X} (ca cb cc : X -> bool) : Prop :=
  forall x, (ca x = true /\ cb x = false /\ cc x = false) \/
            (ca x = false /\ cb x = true /\ cc x = false) \/
            (ca x = false /\ cb x = false /\ cc x = true).

Lemma foldM_split3 {S SA SB SC X} (mk : SA -> SB -> SC -> S) (f : S -> X -> res S)
      (fa : SA -> X -> res SA) (fb : SB -> X -> res SB) (fc : SC -> X -> res SC) (ca cb cc : X -> bool) :
  excl3 ca cb cc ->
  (forall a b c x, ca x = true -> forget (f (mk a b c) x) = option_map (fun a' => mk a' b c) (forget (fa a x))) ->
  (forall a b c x, cb x = true -> forget (f (mk a b c) x) = option_map (fun b' => mk a b' c) (forget (fb b x))) ->
  (forall a b c x, cc x = true -> forget (f (mk a b c) x) = option_map (fun c' => mk a b c') (forget (fc c x))) ->
  forall l a b c, forget (foldM f (mk a b c) l) =
     match forget (foldM fa a (filter ca l)), forget (foldM fb b (filter cb l)), forget (foldM fc c (filter cc l)) with
     | Some a', Some b', Some c' => Some (mk a' b' c') | _, _, _ => None end.
Proof.
  intros Hx HA HB HC l; induction l as [|x l IH]; intros a b c; simpl; [reflexivity|].
  destruct (Hx x) as [(Ea & Eb & Ec)|[(Ea & Eb & Ec)|(Ea & Eb & Ec)]]; rewrite Ea, Eb, Ec; simpl.
  - specialize (HA a b c x Ea).
    destruct (f (mk a b c) x) as [s|d]; destruct (fa a x) as [a'|d']; simpl in HA; try discriminate.
    + inversion HA; subst. apply IH.
    + reflexivity.
  - specialize (HB a b c x Eb).
    destruct (f (mk a b c) x) as [s|d]; destruct (fb b x) as [b'|d']; simpl in HB; try discriminate.
    + inversion HB; subst. apply IH.
    + simpl. destruct (forget (foldM fa a (filter ca l))); reflexivity.
  - specialize (HC a b c x Ec).
    destruct (f (mk a b c) x) as [s|d]; destruct (fc c x) as [c'|d']; simpl in HC; try discriminate.
    + inversion HC; subst. apply IH.
    + simpl. destruct (forget (foldM fa a (filter ca l))); [|reflexivity].
      destruct (forget (foldM fb b (filter cb l))); reflexivity.
Qed.

Lemma forallb_split2 {X} (p ca cb : X -> bool) :
  (forall x, cb x = negb (ca x)) ->
  forall l, forallb p l = forallb p (filter ca l) && forallb p (filter cb l).
Proof.
  intros Hc l; induction l as [|x l IH]; simpl; [reflexivity|].
  rewrite (Hc x), IH. destruct (ca x); simpl; destruct (p x); simpl; auto.
  destruct (forallb p (filter ca l)); reflexivity.
Qed.

Lemma forallb_split3 {X} (p ca cb cc : X -> bool) :
  excl3 ca cb cc ->
  forall l, forallb p l = forallb p (filter ca l) && forallb p (filter cb l) && forallb p (filter cc l).
Proof.
  intros Hx l; induction l as [|x l IH]; simpl; [reflexivity|].
  destruct (Hx x) as [(Ea & Eb & Ec)|[(Ea & Eb & Ec)|(Ea & Eb & Ec)]]; rewrite Ea, Eb, Ec, IH; simpl;
    destruct (p x); simpl; auto;
    destruct (forallb p (filter ca l)); simpl; auto;
    destruct (forallb p (filter cb l)); reflexivity.
Qed.

Lemma find_hd {X} (p : X -> bool) l : find p l = hd_error (filter p l).
Proof. induction l as [|x l IH]; simpl; auto. destruct (p x); auto. Qed.

(* a component that can be set at most once *)
Lemma comp_le1 {S X} (step : S -> X -> res S) (den : option X -> S) (ok : X -> bool) (dead : S -> Prop) l :
  (forall x, In x l -> forget (step (den None) x) = if ok x then Some (den (Some x)) else None) ->
  (forall x, In x l -> dead (den (Some x))) ->
  (forall s x, dead s -> forget (step s x) = None) ->
  forget (foldM step (den None) l) = if le1 (List.length l) && forallb ok l then Some (den (hd_error l)) else None.
Proof.
  intros H1 H2 H3. destruct l as [|x [|y l]].
  - reflexivity.
  - rewrite foldM_single, H1 by (left; auto). simpl. rewrite andb_true_r. reflexivity.
  - simpl. specialize (H1 x (or_introl eq_refl)). specialize (H2 x (or_introl eq_refl)).
    destruct (step (den None) x) as [s|d]; [|reflexivity].
    simpl in H1. destruct (ok x); [|discriminate]. inversion H1; subst.
    specialize (H3 _ y H2). destruct (step (den (Some x)) y); [discriminate|reflexivity].
Qed.

(* ------------------------------------------------------------------------------------------ *)
(* names level                                                                                  *)
(* ------------------------------------------------------------------------------------------ *)
Definition addstep (opt : nlist) (p : string * bool) : res nlist := add_if_unique opt (MPath (fst p)) (snd p).

Lemma existsb_map {A B} (f : B -> bool) (g : A -> B) l : existsb f (map g l) = existsb (fun x => f (g x)) l.
Proof. induction l as [|a l IH]; simpl; auto. rewrite IH; reflexivity. Qed.

Lemma nodupb_snoc l x : nodupb (l ++ [x]) = nodupb l && negb (existsb (String.eqb x) l).
Proof.
  induction l as [|a l IH]; simpl; [reflexivity|].
  rewrite IH, existsb_app. simpl. rewrite (String.eqb_sym x a).
  destruct (existsb (String.eqb a) l), (a =? x)%string, (nodupb l), (existsb (String.eqb x) l); reflexivity.
Qed.

Lemma nodupb_app_l l1 l2 : nodupb (l1 ++ l2) = true -> nodupb l1 = true.
Proof.
  induction l1 as [|a l1 IH]; simpl; auto.
  rewrite existsb_app. intros H. apply andb_true_iff in H. destruct H as [H1 H2].
  rewrite (IH H2). destruct (existsb (String.eqb a) l1); simpl in *; auto.
Qed.

Lemma addstep_some : forall L v, nodupb (map fst v) = true ->
  forget (foldM addstep (Some v) L) = if nodupb (map fst (v ++ L)) then Some (Some (v ++ L)%list) else None.
Proof.
  induction L as [|[n h] L IH]; intros v Hv.
  - simpl. rewrite app_nil_r, Hv. reflexivity.
  - assert (Hs : nodupb (map fst (v ++ [(n, h)])) = nodupb (map fst v) && negb (existsb (fun p => (n =? fst p)%string) v)).
    { rewrite map_app. simpl. rewrite nodupb_snoc, existsb_map. reflexivity. }
    replace (v ++ (n, h) :: L)%list with ((v ++ [(n, h)]) ++ L)%list by (rewrite <- app_assoc; reflexivity).
    simpl foldM. unfold addstep at 1. unfold add_if_unique. simpl fst; simpl snd; simpl mname.
    rewrite Hv in Hs. simpl in Hs.
    destruct (existsb (fun p => (n =? fst p)%string) v) eqn:E.
    + simpl. destruct (nodupb (map fst ((v ++ [(n, h)]) ++ L))) eqn:N; auto.
      rewrite map_app in N. apply nodupb_app_l in N. rewrite N in Hs. discriminate.
    + apply IH. exact Hs.
Qed.

Lemma addstep_none L : L <> [] ->
  forget (foldM addstep None L) = if nodupb (map fst L) then Some (Some L) else None.
Proof.
  destruct L as [|[n h] L]; [congruence|]. intros _.
  simpl foldM. unfold addstep at 1. simpl.
  apply (addstep_some L [(n, h)]). reflexivity.
Qed.

Lemma idents_flat g ns opt : g && has_nfile ns = false -> forallb nonempty_nitem ns = true ->
  foldM (idents_step g) opt (map render_nitem ns) = foldM addstep opt (flatN g ns).
Proof.
  intros H Hne. rewrite foldM_map. unfold flatN. apply foldM_flat.
  intros a Ha s. destruct a as [n|ms].
  - unfold idents_step. simpl.
    destruct (is_name "file" (MPath n)); unfold addstep; simpl; destruct (add_if_unique s (MPath n) g); reflexivity.
  - assert (Hf : has_nfile ns = true).
    { unfold has_nfile. apply existsb_exists. exists (NFile ms); split; auto. }
    rewrite Hf, andb_true_r in H. subst g.
    rewrite forallb_forall in Hne. specialize (Hne _ Ha). simpl in Hne.
    destruct ms as [|m ms]; [discriminate|].
    unfold idents_step. simpl map. simpl get_list. cbv iota beta.
    replace (is_name "file" (MList "file" (MPath m :: map MPath ms))) with true by reflexivity.
    change (MPath m :: map MPath ms) with (map MPath (m :: ms)).
    change ((m, true) :: map (fun n => (n, true)) ms) with (map (fun n : string => (n, true)) (m :: ms)).
    rewrite !foldM_map. reflexivity.
Qed.

Lemma idents_nested g ns opt : g && has_nfile ns = true -> forallb nonempty_nitem ns = true ->
  forget (foldM (idents_step g) opt (map render_nitem ns)) = None.
Proof.
  intros H Hne. apply andb_true_iff in H. destruct H as [-> Hf].
  unfold has_nfile in Hf. apply existsb_exists in Hf. destruct Hf as [x [Hin Hx]].
  destruct x as [n|ms]; [discriminate|].
  rewrite forallb_forall in Hne. specialize (Hne _ Hin). simpl in Hne.
  destruct ms as [|m ms]; [discriminate|].
  apply foldM_fail_forget with (render_nitem (NFile (m :: ms))).
  - apply in_map; auto.
  - intros s. reflexivity.
Qed.

Lemma flatN_ne g ns : ne ns = true -> forallb nonempty_nitem ns = true -> flatN g ns <> [].
Proof.
  destruct ns as [|x ns]; [discriminate|]. intros _ H. simpl in H. apply andb_true_iff in H. destruct H as [H _].
  destruct x as [n|ms]; simpl; [discriminate|]. destruct ms; [discriminate|]. simpl. discriminate.
Qed.

Lemma parse_idents_spec key s g :
  nonempty_sect s = true -> render_sect s = render_names key (names_of s) ->
  forget (parse_idents (None, false) (render_sect s) g) = if legal_sect (s, g) then Some (den_names (Some (s, g))) else None.
Proof.
  intros Hne Hr. rewrite Hr. unfold legal_sect, den_names, nonempty_sect in *. simpl fst; simpl snd.
  destruct (names_of s) as [ns|].
  - apply andb_true_iff in Hne. destruct Hne as [Hne Hall].
    assert (G : get_list (render_names key (Some ns)) = Ok (Some (map render_nitem ns))).
    { destruct ns; [discriminate|reflexivity]. }
    unfold parse_idents. rewrite G.
    rewrite forget_bind.
    destruct (g && has_nfile ns) eqn:E.
    + rewrite andb_false_r. rewrite idents_nested; auto.
    + rewrite andb_true_r. rewrite idents_flat by auto. rewrite addstep_none by (apply flatN_ne; auto).
      destruct (nodupb (map fst (flatN g ns))); reflexivity.
  - destruct g; reflexivity.
Qed.

(* ------------------------------------------------------------------------------------------ *)
(* sections level                                                                               *)
(* ------------------------------------------------------------------------------------------ *)
Definition nstep (i : nlist * bool) (x : sect * bool) : res (nlist * bool) :=
  match fst i with None => parse_idents i (render_sect (fst x)) (snd x) | Some _ => Diag DUnexpected end.
Definition dstep (d : bool * bool) (x : sect * bool) : res (bool * bool) :=
  if fst d then Diag DUnexpected else Ok (true, if snd x then true else snd d).
Definition tstep (name : string) (t : tuples) (x : sect * bool) : res tuples :=
  nested_t name t (render_sect (fst x)) (snd x).
Definition mk3 (d : bool * bool) (i r : nlist * bool) : tuples := (d, i, r).

Lemma names_comp key Lc :
  (forall x, In x Lc -> render_sect (fst x) = render_names key (names_of (fst x))) ->
  (forall x, In x Lc -> nonempty_sect (fst x) = true) ->
  forget (foldM nstep (None, false) Lc) =
    if le1 (List.length Lc) && forallb legal_sect Lc then Some (den_names (hd_error Lc)) else None.
Proof.
  intros Hr Hne.
  apply (comp_le1 nstep den_names legal_sect (fun i => fst i <> None) Lc).
  - intros [s g] Hin. unfold nstep. simpl. apply parse_idents_spec with key.
    + apply (Hne _ Hin).
    + apply (Hr _ Hin).
  - intros [s g] Hin. simpl. destruct (names_of s); simpl; congruence.
  - intros i x Hd. unfold nstep. destruct (fst i); [reflexivity|congruence].
Qed.

Lemma def_comp Lc :
  (forall x, In x Lc -> fst x = SDef) ->
  forget (foldM dstep (false, false) Lc) =
    if le1 (List.length Lc) && forallb legal_sect Lc then Some (den_def (hd_error Lc)) else None.
Proof.
  intros Hd.
  apply (comp_le1 dstep den_def legal_sect (fun d => fst d = true) Lc).
  - intros [s g] Hin. specialize (Hd _ Hin). simpl in Hd. subst s. destruct g; reflexivity.
  - intros [s g] Hin. reflexivity.
  - intros d x H. unfold dstep. rewrite H. reflexivity.
Qed.

Lemma excl_sect : excl3 is_def is_imp is_trt.
Proof. intros [[|o|o] g]; simpl; auto. Qed.

Lemma sects_run name L :
  (forall x, In x L -> nonempty_sect (fst x) = true) ->
  forget (foldM (tstep name) empty_t L) = if legal_sects L then Some (den_sects L) else None.
Proof.
  intros Hne.
  change empty_t with (mk3 (false, false) (None, false) (None, false)).
  rewrite (foldM_split3 mk3 (tstep name) dstep nstep nstep is_def is_imp is_trt excl_sect).
  - rewrite def_comp, (names_comp "imp"), (names_comp "trt").
    + unfold legal_sects, den_sects, count. rewrite !find_hd.
      rewrite (forallb_split3 legal_sect is_def is_imp is_trt excl_sect L).
      destruct (le1 (List.length (filter is_def L))), (le1 (List.length (filter is_imp L))),
        (le1 (List.length (filter is_trt L))), (forallb legal_sect (filter is_def L)),
        (forallb legal_sect (filter is_imp L)), (forallb legal_sect (filter is_trt L)); reflexivity.
    + intros [[|o|o] g] Hin; apply filter_In in Hin; destruct Hin as [_ Hin]; try discriminate. reflexivity.
    + intros x Hin. apply filter_In in Hin. apply Hne. tauto.
    + intros [[|o|o] g] Hin; apply filter_In in Hin; destruct Hin as [_ Hin]; try discriminate. reflexivity.
    + intros x Hin. apply filter_In in Hin. apply Hne. tauto.
    + intros [[|o|o] g] Hin; apply filter_In in Hin; destruct Hin as [_ Hin]; try discriminate. reflexivity.
  - intros d i r [[|o|o] g] H; try discriminate.
    unfold tstep, dstep, mk3. simpl. destruct (fst d); reflexivity.
  - intros d i r [[|o|o] g] H; try discriminate.
    unfold tstep, nstep, mk3, nested_t. simpl fst; simpl snd.
    replace (is_name "def" (render_sect (SImp o))) with false by (destruct o; reflexivity).
    replace (is_name "imp" (render_sect (SImp o))) with true by (destruct o; reflexivity).
    destruct (fst i); [reflexivity|].
    destruct (parse_idents i (render_sect (SImp o)) g); reflexivity.
  - intros d i r [[|o|o] g] H; try discriminate.
    unfold tstep, nstep, mk3, nested_t. simpl fst; simpl snd.
    replace (is_name "def" (render_sect (STrt o))) with false by (destruct o; reflexivity).
    replace (is_name "imp" (render_sect (STrt o))) with false by (destruct o; reflexivity).
    replace (is_name "trt" (render_sect (STrt o))) with true by (destruct o; reflexivity).
    destruct (fst r); [reflexivity|].
    destruct (parse_idents r (render_sect (STrt o)) g); reflexivity.
Qed.

(* ------------------------------------------------------------------------------------------ *)
(* one part: script(..) / live(..)                                                              *)
(* ------------------------------------------------------------------------------------------ *)
Definition estep (sol : bool) (e : edit_actor) (x : sect * bool) : res edit_actor :=
  parse_sol_nested e (render_sect (fst x)) sol (snd x).

Lemma get_set sol e t : get_t sol (set_t sol e t) = t.
Proof. destruct sol; reflexivity. Qed.
Lemma set_set sol e t t' : set_t sol (set_t sol e t) t' = set_t sol e t'.
Proof. destruct sol; reflexivity. Qed.
Lemma set_get sol e : set_t sol e (get_t sol e) = e.
Proof. destruct sol, e; reflexivity. Qed.

Lemma estep_fold sol L : forall e,
  foldM (estep sol) e L = bind (foldM (tstep (sol_name sol)) (get_t sol e) L) (fun t => Ok (set_t sol e t)).
Proof.
  induction L as [|a L IH]; intros e.
  - simpl. rewrite set_get. reflexivity.
  - simpl foldM.
    change (estep sol e a) with (bind (tstep (sol_name sol) (get_t sol e) a) (fun t => Ok (set_t sol e t))).
    destruct (tstep (sol_name sol) (get_t sol e) a) as [t|d]; simpl; [|reflexivity].
    rewrite IH, get_set.
    destruct (foldM (tstep (sol_name sol)) t L); simpl; [|reflexivity]. rewrite set_set. reflexivity.
Qed.

Lemma sect_not_file s : is_name "file" (render_sect s) = false.
Proof. destruct s as [|[l|]|[l|]]; reflexivity. Qed.

Lemma file_group_step_sect sol e s :
  file_group_step sol e (render_sect s) = parse_sol_nested e (render_sect s) sol true.
Proof. unfold file_group_step, abort_if_is_file. rewrite sect_not_file. reflexivity. Qed.

Lemma get_list_ne n l : l <> [] -> get_list (MList n l) = Ok (Some l).
Proof. destruct l; [congruence|reflexivity]. Qed.
Lemma get_file_list_ne n l : l <> [] -> get_file_list (MList n l) = Ok l.
Proof. intros H. unfold get_file_list. rewrite get_list_ne; auto. Qed.
Lemma map_ne {A B} (h : A -> B) l : ne l = true -> map h l <> [].
Proof. destruct l; simpl; [discriminate|discriminate]. Qed.

Lemma sitems_flat sol f xs e : f && has_sfile xs = false -> forallb nonempty_sitem xs = true ->
  foldM (sol_step sol f) e (map render_sitem xs) = foldM (estep sol) e (flatS f xs).
Proof.
  intros H Hne. rewrite foldM_map. unfold flatS. revert e. apply foldM_flat.
  intros a Ha s. destruct a as [c|ss].
  - rewrite foldM_single. unfold sol_step, estep. simpl. rewrite sect_not_file. reflexivity.
  - assert (Hf : has_sfile xs = true).
    { unfold has_sfile. apply existsb_exists. exists (SFileS ss); split; auto. }
    rewrite Hf, andb_true_r in H. subst f.
    rewrite forallb_forall in Hne. specialize (Hne _ Ha). simpl in Hne.
    apply andb_true_iff in Hne. destruct Hne as [Hne _].
    cbv beta. unfold sol_step.
    change (render_sitem (SFileS ss)) with (MList "file" (map render_sect ss)).
    change (is_name "file" (MList "file" (map render_sect ss))) with true. cbv iota.
    rewrite get_file_list_ne by (apply map_ne; auto).
    simpl bind. rewrite !foldM_map.
    apply foldM_ext_in. intros c _ s'. rewrite file_group_step_sect. reflexivity.
Qed.

Lemma sitems_nested sol f xs e : f && has_sfile xs = true ->
  forget (foldM (sol_step sol f) e (map render_sitem xs)) = None.
Proof.
  intros H. apply andb_true_iff in H. destruct H as [-> Hf].
  unfold has_sfile in Hf. apply existsb_exists in Hf. destruct Hf as [x [Hin Hx]].
  destruct x as [c|ss]; [discriminate|].
  apply foldM_fail_forget with (render_sitem (SFileS ss)).
  - apply in_map; auto.
  - intros s. reflexivity.
Qed.

Lemma flatS_nonempty f xs : forallb nonempty_sitem xs = true ->
  forall x, In x (flatS f xs) -> nonempty_sect (fst x) = true.
Proof.
  intros H x Hin. unfold flatS in Hin. apply in_flat_map in Hin. destruct Hin as [a [Ha Hin]].
  rewrite forallb_forall in H. specialize (H _ Ha).
  destruct a as [c|ss]; simpl in *.
  - destruct Hin as [<-|[]]. exact H.
  - apply andb_true_iff in H. destruct H as [_ H]. rewrite forallb_forall in H.
    apply in_map_iff in Hin. destruct Hin as [c [<- Hc]]. simpl. auto.
Qed.

Lemma flatS_ne f xs : ne xs = true -> forallb nonempty_sitem xs = true -> flatS f xs <> [].
Proof.
  destruct xs as [|x xs]; [discriminate|]. intros _ H. simpl in H. apply andb_true_iff in H. destruct H as [H _].
  destruct x as [c|ss]; simpl; [discriminate|]. destruct ss; [discriminate|]. simpl. discriminate.
Qed.

Lemma den_sects_not_none L : L <> [] -> is_none_t (den_sects L) = false.
Proof.
  destruct L as [|[s g] L]; [congruence|]. intros _.
  unfold den_sects, is_none_t. destruct s as [|o|o]; simpl.
  - reflexivity.
  - destruct (den_def (find is_def L)) as [d1 d2]. simpl.
    destruct o; simpl; rewrite andb_false_r; reflexivity.
  - destruct (den_def (find is_def L)) as [d1 d2]. simpl.
    destruct o; simpl; rewrite andb_false_r; reflexivity.
Qed.

(* a rendered empty list makes its step fail from every state *)
Lemma forallb_false {A} (p : A -> bool) l : forallb p l = false -> exists x, In x l /\ p x = false.
Proof.
  induction l as [|a l IH]; simpl; [discriminate|].
  destruct (p a) eqn:E; simpl.
  - intros H. destruct (IH H) as [x [Hx Hp]]. exists x; auto.
  - intros _. exists a; auto.
Qed.

Lemma is_diag_bind {A B} (x : res A) (f : A -> res B) : is_diag x = true -> is_diag (bind x f) = true.
Proof. destruct x; simpl; [discriminate|auto]. Qed.

Lemma nitem_fail x : nonempty_nitem x = false -> forall g s, is_diag (idents_step g s (render_nitem x)) = true.
Proof. destruct x as [n|[|m ms]]; try discriminate. reflexivity. Qed.

Lemma parse_idents_fail ns : ne ns && forallb nonempty_nitem ns = false ->
  forall key os g, is_diag (parse_idents os (MList key (map render_nitem ns)) g) = true.
Proof.
  intros H key [opt sc] g. unfold parse_idents. destruct ns as [|x ns]; [reflexivity|].
  simpl ne in H. rewrite andb_true_l in H. apply forallb_false in H. destruct H as [y [Hy Hf]].
  replace (get_list (MList key (map render_nitem (x :: ns)))) with (@Ok (option (list meta)) (Some (map render_nitem (x :: ns)))) by reflexivity.
  apply is_diag_bind. apply foldM_fail with (render_nitem y).
  - apply in_map; auto.
  - intros s. apply nitem_fail; auto.
Qed.

Lemma sect_fail s : nonempty_sect s = false ->
  forall name t g, is_diag (nested_t name t (render_sect s) g) = true.
Proof.
  destruct s as [|[ns|]|[ns|]]; try discriminate; unfold nonempty_sect; simpl names_of;
    intros H name [[d i] r] g; unfold nested_t; simpl render_sect; unfold render_names.
  - replace (is_name "def" (MList "imp" (map render_nitem ns))) with false by reflexivity.
    replace (is_name "imp" (MList "imp" (map render_nitem ns))) with true by reflexivity.
    destruct (fst i); [reflexivity|]. apply is_diag_bind. apply parse_idents_fail; auto.
  - replace (is_name "def" (MList "trt" (map render_nitem ns))) with false by reflexivity.
    replace (is_name "imp" (MList "trt" (map render_nitem ns))) with false by reflexivity.
    replace (is_name "trt" (MList "trt" (map render_nitem ns))) with true by reflexivity.
    destruct (fst r); [reflexivity|]. apply is_diag_bind. apply parse_idents_fail; auto.
Qed.

Lemma sect_fail_nested s e sol g : nonempty_sect s = false ->
  is_diag (parse_sol_nested e (render_sect s) sol g) = true.
Proof. intros H. unfold parse_sol_nested. apply is_diag_bind. apply sect_fail; auto. Qed.

Lemma sitem_fail x : nonempty_sitem x = false ->
  forall sol f e, is_diag (sol_step sol f e (render_sitem x)) = true.
Proof.
  destruct x as [c|ss]; simpl nonempty_sitem; intros H sol f e; unfold sol_step; simpl render_sitem.
  - rewrite sect_not_file. apply sect_fail_nested; auto.
  - replace (is_name "file" (MList "file" (map render_sect ss))) with true by reflexivity.
    destruct f; [reflexivity|]. destruct ss as [|c ss]; [reflexivity|].
    simpl ne in H. rewrite andb_true_l in H. apply forallb_false in H. destruct H as [y [Hy Hf]].
    replace (get_file_list (MList "file" (map render_sect (c :: ss)))) with (@Ok (list meta) (map render_sect (c :: ss))) by reflexivity.
    cbv beta iota delta [bind]. apply foldM_fail with (render_sect y).
    + apply in_map; auto.
    + intros s. rewrite file_group_step_sect. apply sect_fail_nested; auto.
Qed.

Lemma part_fail p : nonempty_part p = false ->
  forall e f, is_diag (parse_sol e (render_part p) f) = true.
Proof.
  destruct p as [sol [xs|]]; [|discriminate]. simpl nonempty_part. intros H e f.
  unfold parse_sol. destruct (which_sol e (render_part (PSol sol (Some xs)))) as [sol'|]; [|reflexivity].
  simpl bind. simpl render_part. destruct xs as [|x xs]; [reflexivity|].
  simpl ne in H. rewrite andb_true_l in H. apply forallb_false in H. destruct H as [y [Hy Hf]].
  replace (get_list (MList (sol_name sol) (map render_sitem (x :: xs)))) with (@Ok (option (list meta)) (Some (map render_sitem (x :: xs)))) by reflexivity.
  apply foldM_fail with (render_sitem y).
  - apply in_map; auto.
  - intros s. apply sitem_fail; auto.
Qed.

Definition of_opt {A} (o : option A) : res A := match o with Some a => Ok a | None => Diag DUnexpected end.
Lemma forget_of_opt {A} (o : option A) : forget (of_opt o) = o.
Proof. destruct o; reflexivity. Qed.

Definition part_run (sol : bool) (t : tuples) (x : part_ast * bool) : option tuples :=
  if is_none_t t then
    match fst x with
    | PSol _ None => Some (all_t t (snd x))
    | PSol _ (Some xs) => if negb (ne xs && forallb nonempty_sitem xs) then None
                          else if snd x && has_sfile xs then None
                          else forget (foldM (tstep (sol_name sol)) t (flatS (snd x) xs))
    end
  else None.
Definition solstep (sol : bool) (t : tuples) (x : part_ast * bool) : res tuples := of_opt (part_run sol t x).
Definition pstep (e : edit_actor) (x : part_ast * bool) : res edit_actor := parse_sol e (render_part (fst x)) (snd x).

Lemma which_sol_part e sol o :
  which_sol e (render_part (PSol sol o)) = if is_none_t (get_t sol e) then Ok sol else Diag (DDouble (sol_name sol)).
Proof. destruct sol, o; reflexivity. Qed.

Lemma pstep_comp e sol o f :
  forget (pstep e (PSol sol o, f)) = option_map (set_t sol e) (forget (solstep sol (get_t sol e) (PSol sol o, f))).
Proof.
  destruct o as [xs|].
  - destruct (ne xs && forallb nonempty_sitem xs) eqn:N.
    + unfold pstep, solstep, parse_sol. rewrite forget_of_opt. unfold part_run. simpl fst; simpl snd.
      cbv iota beta. rewrite N. simpl negb. cbv iota.
      apply andb_true_iff in N. destruct N as [N1 N2].
      rewrite which_sol_part. destruct (is_none_t (get_t sol e)); [|reflexivity].
      cbv beta iota delta [bind].
      change (render_part (PSol sol (Some xs))) with (MList (sol_name sol) (map render_sitem xs)).
      rewrite get_list_ne by (apply map_ne; auto).
      destruct (f && has_sfile xs) eqn:E.
      * rewrite sitems_nested; auto.
      * rewrite sitems_flat by auto. rewrite estep_fold.
        destruct (foldM (tstep (sol_name sol)) (get_t sol e) (flatS f xs)); reflexivity.
    + unfold pstep. simpl fst; simpl snd.
      rewrite (proj2 (forget_None_diag _) (part_fail (PSol sol (Some xs)) N e f)).
      unfold solstep. rewrite forget_of_opt. unfold part_run. simpl fst; simpl snd. cbv iota beta. rewrite N. simpl negb. cbv iota.
      destruct (is_none_t (get_t sol e)); reflexivity.
  - unfold pstep, solstep, parse_sol. rewrite forget_of_opt. unfold part_run. simpl fst; simpl snd.
    rewrite which_sol_part. destruct (is_none_t (get_t sol e)); [|reflexivity].
    destruct sol; reflexivity.
Qed.

Lemma part_comp sol Lc :
  (forall x, In x Lc -> nonempty_part (fst x) = true) ->
  forget (foldM (solstep sol) empty_t Lc) =
    if le1 (List.length Lc) && forallb legal_part Lc then Some (den_part (hd_error Lc)) else None.
Proof.
  intros Hne.
  apply (comp_le1 (solstep sol) den_part legal_part (fun t => is_none_t t = false) Lc).
  - intros [[k o] f] Hin. specialize (Hne _ Hin). simpl in Hne.
    unfold solstep. rewrite forget_of_opt. unfold part_run, legal_part. simpl.
    destruct o as [xs|].
    + rewrite Hne. simpl negb. cbv iota.
      apply andb_true_iff in Hne. destruct Hne as [Hne Hall].
      destruct (f && has_sfile xs); simpl; [reflexivity|].
      apply sects_run. apply flatS_nonempty; auto.
    + destruct f; reflexivity.
  - intros [[k o] f] Hin. specialize (Hne _ Hin). simpl in Hne. simpl.
    destruct o as [xs|]; [|reflexivity].
    apply andb_true_iff in Hne. destruct Hne as [Hne Hall].
    apply den_sects_not_none. apply flatS_ne; auto.
  - intros t x H. unfold solstep. rewrite forget_of_opt. unfold part_run. rewrite H. reflexivity.
Qed.

(* ------------------------------------------------------------------------------------------ *)
(* top level: T1                                                                                *)
(* ------------------------------------------------------------------------------------------ *)
Definition mkE (a b : tuples) : edit_actor := {| ea_remove := false; ea_script := a; ea_live := b |}.

Lemma part_not_file p : is_name "file" (render_part p) = false.
Proof. destruct p as [[|] [l|]]; reflexivity. Qed.

Lemma file_part_step_part e p : file_part_step e (render_part p) = parse_sol e (render_part p) true.
Proof. unfold file_part_step, abort_if_is_file. rewrite part_not_file. reflexivity. Qed.

Lemma top_flat l : forallb nonempty_eitem l = true ->
  forall e, foldM top_step e (map render_eitem l) = foldM pstep e (flatE l).
Proof.
  intros Hne e. rewrite foldM_map. unfold flatE. revert e. apply foldM_flat.
  intros a Ha s. destruct a as [p|ps].
  - rewrite foldM_single. unfold top_step, pstep. simpl. rewrite part_not_file. reflexivity.
  - rewrite forallb_forall in Hne. specialize (Hne _ Ha). simpl in Hne.
    apply andb_true_iff in Hne. destruct Hne as [Hne _].
    cbv beta. unfold top_step.
    change (render_eitem (EFile ps)) with (MList "file" (map render_part ps)).
    change (is_name "file" (MList "file" (map render_part ps))) with true. cbv iota.
    rewrite get_file_list_ne by (apply map_ne; auto).
    cbv beta iota delta [bind]. rewrite !foldM_map.
    apply foldM_ext_in. intros p _ s'. rewrite file_part_step_part. reflexivity.
Qed.

Lemma parse_top e l : ne l = true ->
  parse e (MList "edit" (map render_eitem l)) = foldM top_step e (map render_eitem l).
Proof.
  intros Hne. destruct l as [|x [|y l]]; [discriminate| |reflexivity].
  simpl map. rewrite foldM_single. unfold parse.
  change (get_list (MList "edit" [render_eitem x])) with (@Ok (option (list meta)) (Some [render_eitem x])).
  cbv iota beta.
  destruct x as [p|ps].
  - change (render_eitem (EPart p)) with (render_part p).
    rewrite part_not_file. unfold top_step. rewrite part_not_file. reflexivity.
  - destruct ps; reflexivity.
Qed.

Lemma eitem_fail x : nonempty_eitem x = false -> forall e, is_diag (top_step e (render_eitem x)) = true.
Proof.
  destruct x as [p|ps]; simpl nonempty_eitem; intros H e; unfold top_step.
  - change (render_eitem (EPart p)) with (render_part p). rewrite part_not_file. apply part_fail; auto.
  - destruct ps as [|p ps]; [reflexivity|].
    simpl ne in H. rewrite andb_true_l in H. apply forallb_false in H. destruct H as [y [Hy Hf]].
    change (render_eitem (EFile (p :: ps))) with (MList "file" (map render_part (p :: ps))).
    change (is_name "file" (MList "file" (map render_part (p :: ps)))) with true. cbv iota.
    rewrite get_file_list_ne by (apply map_ne; reflexivity).
    cbv beta iota delta [bind]. apply foldM_fail with (render_part y).
    + apply in_map; auto.
    + intros s. rewrite file_part_step_part. apply part_fail; auto.
Qed.

Lemma flatE_nonempty l : forallb nonempty_eitem l = true ->
  forall x, In x (flatE l) -> nonempty_part (fst x) = true.
Proof.
  intros H x Hin. unfold flatE in Hin. apply in_flat_map in Hin. destruct Hin as [a [Ha Hin]].
  rewrite forallb_forall in H. specialize (H _ Ha).
  destruct a as [p|ps]; simpl in *.
  - destruct Hin as [<-|[]]. exact H.
  - apply andb_true_iff in H. destruct H as [_ H]. rewrite forallb_forall in H.
    apply in_map_iff in Hin. destruct Hin as [p [<- Hp]]. simpl. auto.
Qed.

Lemma is_sol_excl : forall x : part_ast * bool, is_sol false x = negb (is_sol true x).
Proof. intros [[[|] o] f]; reflexivity. Qed.

Theorem parse_grammar : forall e : edit_ast,
  forget (edit_parse (render e)) = if nonempty e && legal e then Some (denote e) else None.
Proof.
  intros [| |l]; try reflexivity.
  destruct (nonempty (EList l)) eqn:Hne.
  - rewrite andb_true_l.
    simpl in Hne. apply andb_true_iff in Hne. destruct Hne as [Hne Hall].
    unfold edit_parse. simpl render. rewrite parse_top, top_flat by auto.
    change default_ea with (mkE empty_t empty_t).
    rewrite (foldM_split2 mkE pstep (solstep true) (solstep false) (is_sol true) (is_sol false) is_sol_excl).
    + rewrite !part_comp.
      * unfold legal, denote, count. rewrite !find_hd.
        rewrite (forallb_split2 legal_part (is_sol true) (is_sol false) is_sol_excl (flatE l)).
        destruct (le1 (List.length (filter (is_sol true) (flatE l)))),
          (le1 (List.length (filter (is_sol false) (flatE l)))),
          (forallb legal_part (filter (is_sol true) (flatE l))),
          (forallb legal_part (filter (is_sol false) (flatE l))); reflexivity.
      * intros x Hin. apply filter_In in Hin. apply (flatE_nonempty l Hall). tauto.
      * intros x Hin. apply filter_In in Hin. apply (flatE_nonempty l Hall). tauto.
    + intros a b [[[|] o] f] H; try discriminate. rewrite pstep_comp. reflexivity.
    + intros a b [[[|] o] f] H; try discriminate. rewrite pstep_comp. reflexivity.
  - rewrite andb_false_l.
    simpl in Hne. unfold edit_parse. simpl render.
    destruct l as [|x l]; [reflexivity|].
    rewrite parse_top by reflexivity.
    simpl ne in Hne. rewrite andb_true_l in Hne. apply forallb_false in Hne. destruct Hne as [y [Hy Hf]].
    apply forget_None_diag. apply foldM_fail with (render_eitem y).
    + apply in_map; auto.
    + intros s. apply eitem_fail; auto.
Qed.

(* ------------------------------------------------------------------------------------------ *)
(* T2                                                                                           *)
(* ------------------------------------------------------------------------------------------ *)
Lemma parse_family_list l : ne l = true ->
  edit_parse_family (render_fam (FList l)) = foldM (sol_step false false) default_ea (map render_sitem l).
Proof.
  intros Hne. destruct l as [|x [|y l']]; [discriminate| |reflexivity].
  simpl map. rewrite foldM_single. unfold edit_parse_family, parse_family, render_fam. simpl map.
  change (get_list (MList "edit" [render_sitem x])) with (@Ok (option (list meta)) (Some [render_sitem x])).
  cbv iota beta. unfold sol_step.
  destruct x as [c|ss].
  - change (render_sitem (SSect c)) with (render_sect c). rewrite sect_not_file. reflexivity.
  - destruct ss; reflexivity.
Qed.

Theorem parse_family_grammar : forall e : fam_ast,
  forget (edit_parse_family (render_fam e)) = if nonempty_fam e && legal_fam e then Some (denote_fam e) else None.
Proof.
  intros [| |l]; try reflexivity.
  destruct (nonempty_fam (FList l)) eqn:Hne.
  - rewrite andb_true_l.
    simpl in Hne. apply andb_true_iff in Hne. destruct Hne as [Hl Hne].
    rewrite parse_family_list by auto.
    rewrite sitems_flat by auto. rewrite estep_fold, forget_bind.
    change (get_t false default_ea) with empty_t.
    rewrite sects_run.
    + unfold legal_fam, denote_fam. destruct (legal_sects (flatS false l)); reflexivity.
    + apply flatS_nonempty. exact Hne.
  - rewrite andb_false_l. simpl in Hne.
    destruct l as [|x l]; [reflexivity|].
    rewrite parse_family_list by reflexivity.
    simpl ne in Hne. rewrite andb_true_l in Hne. apply forallb_false in Hne. destruct Hne as [y [Hy Hf]].
    apply forget_None_diag. apply foldM_fail with (render_sitem y).
    + apply in_map; auto.
    + intros s. apply sitem_fail; auto.
Qed.

Theorem parse_family_single : forall x : sitem, nonempty_sitem x = true ->
  forget (edit_parse_family (render_fam (FList [x]))) = if legal_fam (FList [x]) then Some (denote_fam (FList [x])) else None.
Proof.
  intros x Hne. rewrite parse_family_grammar.
  replace (nonempty_fam (FList [x])) with true by (simpl; rewrite Hne; reflexivity).
  reflexivity.
Qed.

Theorem parse_family_bare :
  edit_parse_family (render_fam FBare) = Ok (denote_fam FBare) /\ edit_parse_family (render_fam FFileBare) = Ok (denote_fam FFileBare).
Proof. split; reflexivity. Qed.

(* ------------------------------------------------------------------------------------------ *)
(* T6                                                                                           *)
(* ------------------------------------------------------------------------------------------ *)
Definition names_ok (t : tuples) : Prop :=
  let '(_, i, r) := t in
  NoDup (match fst i with Some v => map fst v | None => [] end) /\ NoDup (match fst r with Some v => map fst v | None => [] end).

Definition nl_ok (o : nlist) : Prop := NoDup (match o with Some v => map fst v | None => [] end).
Definition ea_ok (e : edit_actor) : Prop := names_ok (ea_script e) /\ names_ok (ea_live e).

Lemma NoDup_snoc {A} (l : list A) x : NoDup l -> ~ In x l -> NoDup (l ++ [x]).
Proof.
  induction l as [|a l IH]; intros Hn Hx; simpl.
  - constructor; [intros []|constructor].
  - inversion Hn; subst. constructor.
    + rewrite in_app_iff. intros [H|[H|[]]]; [auto|]. subst. apply Hx. left; reflexivity.
    + apply IH; auto. intros H; apply Hx; right; auto.
Qed.

Lemma add_if_unique_ok vec m file vec' : nl_ok vec -> add_if_unique vec m file = Ok vec' -> nl_ok vec'.
Proof.
  unfold add_if_unique, nl_ok. destruct (negb (is_word m)); [discriminate|]. destruct vec as [v|].
  - destruct (existsb (fun p => (mname m =? fst p)%string) v) eqn:E; [discriminate|].
    intros Hn H. inversion H; subst. rewrite map_app. simpl. apply NoDup_snoc; auto.
    intros Hin. apply in_map_iff in Hin. destruct Hin as [p [Hp Hin]].
    assert (existsb (fun p => (mname m =? fst p)%string) v = true).
    { apply existsb_exists. exists p; split; auto. rewrite Hp. apply String.eqb_refl. }
    congruence.
  - intros _ H. inversion H; subst. simpl. constructor; [intros []|constructor].
Qed.

Lemma idents_step_ok file opt x opt' : nl_ok opt -> idents_step file opt x = Ok opt' -> nl_ok opt'.
Proof.
  unfold idents_step. intros Hn.
  destruct (is_name "file" x); [|apply add_if_unique_ok; auto].
  destruct (get_list x) as [[fl|]|d]; [| apply add_if_unique_ok; auto | discriminate].
  apply (foldM_inv nl_ok); auto.
  intros s a s' Hs. destruct file; [discriminate|]. apply add_if_unique_ok; auto.
Qed.

Lemma parse_idents_ok os m file os' : nl_ok (fst os) -> parse_idents os m file = Ok os' -> nl_ok (fst os').
Proof.
  destruct os as [opt scope]. unfold parse_idents. simpl. intros Hn.
  destruct (get_list m) as [[l|]|d]; [| |discriminate].
  - destruct (foldM (idents_step file) opt l) as [opt'|d] eqn:E; simpl; [|discriminate].
    intros H; inversion H; subst. simpl.
    apply (foldM_inv nl_ok (idents_step file)) with (l := l) (s := opt); auto.
    intros s a s'. apply idents_step_ok.
  - intros H; inversion H; subst. simpl. constructor.
Qed.

Lemma nested_t_ok name t m file t' : names_ok t -> nested_t name t m file = Ok t' -> names_ok t'.
Proof.
  destruct t as [[d i] r]. unfold nested_t, names_ok. intros [Hi Hr].
  destruct (is_name "def" m).
  - destruct (negb (is_word m)); [discriminate|].
    destruct (fst d); [discriminate|]. intros H; inversion H; subst. auto.
  - destruct (is_name "imp" m).
    + destruct (fst i) eqn:Ei; [discriminate|].
      destruct (parse_idents i m file) as [i'|] eqn:E; simpl; [|discriminate].
      intros H; inversion H; subst. split; auto.
      apply (parse_idents_ok i m file i'); auto. unfold nl_ok. rewrite Ei. constructor.
    + destruct (is_name "trt" m); [|discriminate].
      destruct (fst r) eqn:Er; [discriminate|].
      destruct (parse_idents r m file) as [r'|] eqn:E; simpl; [|discriminate].
      intros H; inversion H; subst. split; auto.
      apply (parse_idents_ok r m file r'); auto. unfold nl_ok. rewrite Er. constructor.
Qed.

Lemma set_t_ok sol e t : ea_ok e -> names_ok t -> ea_ok (set_t sol e t).
Proof. unfold ea_ok. intros [H1 H2] Ht. destruct sol; simpl; auto. Qed.
Lemma get_t_ok sol e : ea_ok e -> names_ok (get_t sol e).
Proof. unfold ea_ok. intros [H1 H2]. destruct sol; simpl; auto. Qed.

Lemma all_t_ok t file : names_ok (all_t t file).
Proof. destruct t as [[d i] r]. simpl. split; constructor. Qed.

Lemma parse_sol_nested_ok e m sol file e' : ea_ok e -> parse_sol_nested e m sol file = Ok e' -> ea_ok e'.
Proof.
  unfold parse_sol_nested. intros He.
  destruct (nested_t (sol_name sol) (get_t sol e) m file) as [t|d] eqn:E; simpl; [|discriminate].
  intros H; inversion H; subst. apply set_t_ok; auto.
  eapply nested_t_ok; [|exact E]. apply get_t_ok; auto.
Qed.

Lemma file_group_step_ok sol e x e' : ea_ok e -> file_group_step sol e x = Ok e' -> ea_ok e'.
Proof.
  unfold file_group_step. destruct (abort_if_is_file x); simpl; [|discriminate].
  apply parse_sol_nested_ok.
Qed.

Lemma sol_step_ok sol file e met e' : ea_ok e -> sol_step sol file e met = Ok e' -> ea_ok e'.
Proof.
  unfold sol_step. intros He. destruct (is_name "file" met); [|apply parse_sol_nested_ok; auto].
  destruct file; [discriminate|].
  destruct (get_file_list met) as [fl|d]; simpl; [|discriminate].
  apply (foldM_inv ea_ok); auto. intros s a s'. apply file_group_step_ok.
Qed.

Lemma parse_sol_ok e m file e' : ea_ok e -> parse_sol e m file = Ok e' -> ea_ok e'.
Proof.
  unfold parse_sol. intros He. destruct (which_sol e m) as [sol|d]; simpl; [|discriminate].
  destruct (get_list m) as [[l|]|d]; [| |discriminate].
  - apply (foldM_inv ea_ok); auto. intros s a s'. apply sol_step_ok.
  - intros H; inversion H; subst. apply set_t_ok; auto. apply all_t_ok.
Qed.

Lemma file_part_step_ok e x e' : ea_ok e -> file_part_step e x = Ok e' -> ea_ok e'.
Proof.
  unfold file_part_step. destruct (abort_if_is_file x); simpl; [|discriminate]. apply parse_sol_ok.
Qed.

Lemma top_step_ok e x e' : ea_ok e -> top_step e x = Ok e' -> ea_ok e'.
Proof.
  unfold top_step. intros He. destruct (is_name "file" x); [|apply parse_sol_ok; auto].
  destruct (get_file_list x) as [fl|d]; simpl; [|discriminate].
  apply (foldM_inv ea_ok); auto. intros s a s'. apply file_part_step_ok.
Qed.

Lemma default_ok : ea_ok default_ea.
Proof. unfold ea_ok, default_ea, empty_t; simpl. repeat split; constructor. Qed.

Lemma parse_ok e m e' : ea_ok e -> parse e m = Ok e' -> ea_ok e'.
Proof.
  unfold parse. intros He.
  destruct (get_list m) as [[l|]|d]; [| |discriminate].
  - destruct l as [|mv [|b l]].
    + simpl. intros H; inversion H; subst; auto.
    + destruct (is_name "file" mv); [|apply parse_sol_ok; auto].
      destruct (get_list mv) as [[l|]|d]; [| |discriminate].
      * apply (foldM_inv ea_ok); auto. intros s a s'. apply file_part_step_ok.
      * intros H; inversion H; subst. unfold ea_ok; simpl. split; apply all_t_ok.
    + apply (foldM_inv ea_ok); auto. intros s a s'. apply top_step_ok.
  - intros H; inversion H; subst. unfold ea_ok; simpl. split; apply all_t_ok.
Qed.

Lemma parse_family_ok e m e' : ea_ok e -> parse_family e m = Ok e' -> ea_ok e'.
Proof.
  unfold parse_family. intros He.
  destruct (get_list m) as [[l|]|d]; [| |discriminate].
  - destruct l as [|mv [|b l]].
    + apply (foldM_inv ea_ok); auto. intros s a s'. apply sol_step_ok.
    + destruct (is_name "file" mv); [|apply parse_sol_nested_ok; auto].
      destruct (get_list mv) as [[l|]|d]; [| |discriminate].
      * apply (foldM_inv ea_ok); auto. intros s a s'. apply file_group_step_ok.
      * intros H; inversion H; subst. exact (set_t_ok false e _ He (all_t_ok _ _)).
    + apply (foldM_inv ea_ok); auto. intros s a s'. apply sol_step_ok.
  - intros H; inversion H; subst. exact (set_t_ok false e _ He (all_t_ok _ _)).
Qed.

Theorem parse_names_nodup : forall (m : meta) (e : edit_actor), edit_parse m = Ok e -> names_ok (ea_script e) /\ names_ok (ea_live e).
Proof. intros m e H. apply (parse_ok default_ea m e default_ok H). Qed.

Theorem parse_family_names_nodup : forall (m : meta) (e : edit_actor), edit_parse_family m = Ok e -> names_ok (ea_script e) /\ names_ok (ea_live e).
Proof. intros m e H. apply (parse_family_ok default_ea m e default_ok H). Qed.

(* ------------------------------------------------------------------------------------------ *)
(* C: rule theorems on arbitrary attribute trees                                                *)
(* ------------------------------------------------------------------------------------------ *)
Theorem empty_edit_diag : forall e, is_diag (parse e (MList "edit" [])) = true /\ is_diag (parse_family e (MList "edit" [])) = true.
Proof. intros e; split; reflexivity. Qed.

Theorem empty_part_diag : forall e n file, is_diag (parse_sol e (MList n []) file) = true.
Proof. intros e n file. unfold parse_sol. destruct (which_sol e (MList n [])); reflexivity. Qed.

Lemma parse_idents_empty os n file : is_diag (parse_idents os (MList n []) file) = true.
Proof. destruct os; reflexivity. Qed.

Lemma nested_t_empty name t n file : is_diag (nested_t name t (MList n []) file) = true.
Proof.
  destruct t as [[d i] r]. unfold nested_t.
  destruct (is_name "def" (MList n [])); [reflexivity|].
  destruct (is_name "imp" (MList n [])).
  - destruct (fst i); [reflexivity|]. apply is_diag_bind, parse_idents_empty.
  - destruct (is_name "trt" (MList n [])); [|reflexivity].
    destruct (fst r); [reflexivity|]. apply is_diag_bind, parse_idents_empty.
Qed.

Theorem empty_names_diag : forall name t n file, n = "imp" \/ n = "trt" -> is_diag (nested_t name t (MList n []) file) = true.
Proof. intros name t n file _. apply nested_t_empty. Qed.

Lemma top_step_empty e n : is_diag (top_step e (MList n [])) = true.
Proof.
  unfold top_step. destruct (is_name "file" (MList n [])); [reflexivity|apply empty_part_diag].
Qed.

Lemma sol_step_empty sol file e n : is_diag (sol_step sol file e (MList n [])) = true.
Proof.
  unfold sol_step. destruct (is_name "file" (MList n [])).
  - destruct file; reflexivity.
  - unfold parse_sol_nested. apply is_diag_bind, nested_t_empty.
Qed.

Lemma idents_step_empty file opt n : is_diag (idents_step file opt (MList n [])) = true.
Proof. unfold idents_step. destruct (is_name "file" (MList n [])); reflexivity. Qed.

Theorem empty_file_diag : forall e sol f opt,
  is_diag (top_step e (MList "file" [])) = true /\ is_diag (sol_step sol f e (MList "file" [])) = true
  /\ is_diag (idents_step f opt (MList "file" [])) = true /\ is_diag (file_part_step e (MList "file" [])) = true.
Proof.
  intros e sol f opt.
  split; [apply top_step_empty|]. split; [apply sol_step_empty|]. split; [apply idents_step_empty|reflexivity].
Qed.

Theorem empty_anywhere_top : forall (l : list meta) n, In (MList n []) l -> is_diag (edit_parse (MList "edit" l)) = true.
Proof.
  intros l n Hin. unfold edit_parse, parse. destruct l as [|a [|b l]].
  - destruct Hin.
  - destruct Hin as [->|[]]. simpl get_list. cbv iota beta.
    destruct (is_name "file" (MList n [])); [reflexivity|apply empty_part_diag].
  - simpl get_list. cbv iota beta. apply foldM_fail with (MList n []); auto.
    intros s. apply top_step_empty.
Qed.

Theorem empty_anywhere_part : forall e sol file (l : list meta) n, In (MList n []) l ->
  is_diag (parse_sol e (MList (sol_name sol) l) file) = true.
Proof.
  intros e sol file l n Hin. unfold parse_sol.
  destruct (which_sol e (MList (sol_name sol) l)) as [sol'|d]; [|reflexivity].
  destruct l as [|a l]; [destruct Hin|].
  simpl get_list. cbv iota beta. apply foldM_fail with (MList n []); auto.
  intros s. apply sol_step_empty.
Qed.

Theorem empty_anywhere_names : forall os key file (l : list meta) n, In (MList n []) l ->
  is_diag (parse_idents os (MList key l) file) = true.
Proof.
  intros [opt sc] key file l n Hin. unfold parse_idents.
  destruct l as [|a l]; [destruct Hin|].
  simpl get_list. cbv iota beta. apply is_diag_bind. apply foldM_fail with (MList n []); auto.
  intros s. apply idents_step_empty.
Qed.

Theorem def_not_word_diag : forall name t m file, mname m = "def" -> is_word m = false -> is_diag (nested_t name t m file) = true.
Proof.
  intros name [[d i] r] m file Hn Hw. unfold nested_t, is_name. rewrite Hn, Hw. reflexivity.
Qed.

Theorem name_not_word_diag : forall vec m file, is_word m = false -> is_diag (add_if_unique vec m file) = true.
Proof. intros vec m file Hw. unfold add_if_unique. rewrite Hw. reflexivity. Qed.

Theorem name_not_word_anywhere : forall os key file (l : list meta) m, In m l -> is_word m = false -> mname m <> "file" ->
  is_diag (parse_idents os (MList key l) file) = true.
Proof.
  intros [opt sc] key file l m Hin Hw Hf. unfold parse_idents.
  destruct l as [|a l]; [destruct Hin|].
  simpl get_list. cbv iota beta. apply is_diag_bind. apply foldM_fail with m; auto.
  intros s. unfold idents_step. rewrite (is_name_false _ _ Hf). apply name_not_word_diag; auto.
Qed.

Theorem name_in_file_not_word : forall os key file (l fl : list meta) m, In (MList "file" fl) l -> In m fl -> is_word m = false ->
  is_diag (parse_idents os (MList key l) file) = true.
Proof.
  intros [opt sc] key file l fl m Hin Hm Hw. unfold parse_idents.
  destruct l as [|a l]; [destruct Hin|].
  simpl get_list. cbv iota beta. apply is_diag_bind. apply foldM_fail with (MList "file" fl); auto.
  intros s. unfold idents_step.
  change (is_name "file" (MList "file" fl)) with true. cbv iota.
  destruct fl as [|b fl]; [destruct Hm|].
  simpl get_list. cbv iota beta. apply foldM_fail with m; auto.
  intros s'. destruct file; [reflexivity|]. apply name_not_word_diag; auto.
Qed.

Print Assumptions unknown_key_top.
Print Assumptions unknown_key_nested.
Print Assumptions nested_file_top.
Print Assumptions parse_family_bare.
Print Assumptions parse_family_single.
Print Assumptions parse_names_nodup.
Print Assumptions parse_family_names_nodup.
Print Assumptions parse_grammar.
Print Assumptions parse_family_grammar.
Print Assumptions empty_edit_diag.
Print Assumptions empty_part_diag.
Print Assumptions empty_names_diag.
Print Assumptions empty_file_diag.
Print Assumptions empty_anywhere_top.
Print Assumptions empty_anywhere_part.
Print Assumptions empty_anywhere_names.
Print Assumptions def_not_word_diag.
Print Assumptions name_not_word_diag.
Print Assumptions name_not_word_anywhere.
Print Assumptions name_in_file_not_word.
