"""A small Rust lexer, token-tree builder and whole-sequence template matcher.

Used to recognise the shapes the macro emits (every token of a statement must be
accounted for by a template, otherwise the statement is `Unknown`) and to compare
token streams modulo whitespace.
"""
import re

PUNCT3 = ["..=", "...", "<<=", ">>="]
PUNCT2 = ["::", "->", "=>", "..", "==", "!=", "<=", ">=", "&&", "||", "+=", "-=", "*=", "/=", "%=", "^=", "&=", "|="]
OPEN = {"(": ")", "[": "]", "{": "}"}
CLOSE = {")", "]", "}"}


class Tok(object):
    __slots__ = ("k", "s", "sub", "pos")

    def __init__(self, k, s, sub=None, pos=0):
        self.k = k      # 'id' 'lt' 'lit' 'p' 'g'(group)
        self.s = s      # text; for groups the opening delimiter
        self.sub = sub  # group content
        self.pos = pos

    def __repr__(self):
        return render([self])

    def __eq__(self, o):
        return isinstance(o, Tok) and self.k == o.k and self.s == o.s and self.sub == o.sub

    def __ne__(self, o):
        return not self.__eq__(o)

    def __hash__(self):
        return hash((self.k, self.s))


class LexError(Exception):
    pass


_ident_re = re.compile(r"(r#)?[A-Za-z_\u0080-￿][A-Za-z0-9_\u0080-￿]*")
_num_re = re.compile(r"[0-9][0-9A-Za-z_]*(\.[0-9][0-9A-Za-z_]*)?")


def lex(text, keep_docs=True):
    """flat token list (delimiters as punct tokens)"""
    out = []
    i, n = 0, len(text)
    while i < n:
        c = text[i]
        if c.isspace():
            i += 1
            continue
        if text.startswith("//", i):
            j = text.find("\n", i)
            if j < 0:
                j = n
            line = text[i:j]
            if keep_docs and (line.startswith("///") and not line.startswith("////")):
                out += [Tok("p", "#", pos=i), Tok("p", "[", pos=i), Tok("id", "doc"), Tok("p", "="), Tok("lit", _strlit(line[3:].rstrip("\r"))), Tok("p", "]")]
            elif keep_docs and line.startswith("//!"):
                out += [Tok("p", "#", pos=i), Tok("p", "!"), Tok("p", "["), Tok("id", "doc"), Tok("p", "="), Tok("lit", _strlit(line[3:].rstrip("\r"))), Tok("p", "]")]
            i = j
            continue
        if text.startswith("/*", i):
            depth, j = 1, i + 2
            while j < n and depth > 0:
                if text.startswith("/*", j):
                    depth += 1
                    j += 2
                elif text.startswith("*/", j):
                    depth -= 1
                    j += 2
                else:
                    j += 1
            body = text[i:j]
            if keep_docs and body.startswith("/**") and not body.startswith("/***") and len(body) > 4:
                out += [Tok("p", "#", pos=i), Tok("p", "["), Tok("id", "doc"), Tok("p", "="), Tok("lit", _strlit(body[3:-2])), Tok("p", "]")]
            i = j
            continue
        # raw strings / byte strings
        m = re.match(r"(b|c)?r(#*)\"", text[i:i + 40])
        if m:
            hashes = m.group(2)
            end = text.find('"' + hashes, i + len(m.group(0)))
            if end < 0:
                raise LexError("unterminated raw string at %d" % i)
            j = end + 1 + len(hashes)
            out.append(Tok("lit", text[i:j], pos=i))
            i = j
            continue
        if c == '"' or (c in "bc" and text[i + 1:i + 2] == '"'):
            j = i + (1 if c == '"' else 2)
            while j < n and text[j] != '"':
                j += 2 if text[j] == "\\" else 1
            out.append(Tok("lit", text[i:j + 1], pos=i))
            i = j + 1
            continue
        if c == "'" or (c == "b" and text[i + 1:i + 2] == "'"):
            st = i + (1 if c == "'" else 2)
            # char literal or lifetime
            if st < n and text[st] == "\\":
                j = st + 2
                while j < n and text[j] != "'":
                    j += 1
                out.append(Tok("lit", text[i:j + 1], pos=i))
                i = j + 1
                continue
            if st + 1 < n and text[st + 1] == "'" and text[st] != "'":
                out.append(Tok("lit", text[i:st + 2], pos=i))
                i = st + 2
                continue
            m = _ident_re.match(text, st)
            if c == "'" and m:
                out.append(Tok("lt", "'" + m.group(0), pos=i))
                i = m.end()
                continue
            raise LexError("bad quote at %d: %r" % (i, text[i:i + 20]))
        m = _ident_re.match(text, i)
        if m:
            out.append(Tok("id", m.group(0), pos=i))
            i = m.end()
            continue
        m = _num_re.match(text, i)
        if m:
            # do not swallow `..` of a range or a method call on an integer
            s = m.group(0)
            out.append(Tok("lit", s, pos=i))
            i += len(s)
            continue
        for p in PUNCT3:
            if text.startswith(p, i):
                out.append(Tok("p", p, pos=i))
                i += 3
                break
        else:
            for p in PUNCT2:
                if text.startswith(p, i):
                    out.append(Tok("p", p, pos=i))
                    i += 2
                    break
            else:
                out.append(Tok("p", c, pos=i))
                i += 1
    return out


def _strlit(s):
    return '"' + s.replace("\\", "\\\\").replace('"', '\\"') + '"'


def tree(toks):
    """nest delimiters into group tokens"""
    stack = [[]]
    opens = []
    for t in toks:
        if t.k == "p" and t.s in OPEN:
            opens.append(t)
            stack.append([])
        elif t.k == "p" and t.s in CLOSE:
            if not opens or OPEN[opens[-1].s] != t.s:
                raise LexError("unbalanced %s at %d" % (t.s, t.pos))
            o = opens.pop()
            sub = stack.pop()
            stack[-1].append(Tok("g", o.s, sub, o.pos))
        else:
            stack[-1].append(t)
    if opens:
        raise LexError("unclosed %s at %d" % (opens[-1].s, opens[-1].pos))
    return stack[0]


def parse(text):
    return tree(lex(text))


def render(toks):
    out = []
    for t in toks:
        if t.k == "g":
            out.append(t.s)
            inner = render(t.sub)
            if inner:
                out.append(inner)
            out.append(OPEN[t.s])
        else:
            out.append(t.s)
    return " ".join(out)


def flat(toks):
    """flatten a token tree back to a flat list of strings"""
    out = []
    for t in toks:
        if t.k == "g":
            out.append(t.s)
            out += flat(t.sub)
            out.append(OPEN[t.s])
        else:
            out.append(t.s)
    return out


def is_p(t, s):
    return t.k == "p" and t.s == s


def is_id(t, s=None):
    return t.k == "id" and (s is None or t.s == s)


def split_top(toks, sep=",", angle=True):
    """split at top-level separators; `<..>` nesting respected when angle"""
    parts, cur, depth = [], [], 0
    for i, t in enumerate(toks):
        if angle and t.k == "p" and t.s == "<":
            depth += 1
        elif angle and t.k == "p" and t.s == ">" and depth > 0:
            depth -= 1
        if t.k == "p" and t.s == sep and depth == 0:
            parts.append(cur)
            cur = []
        else:
            cur.append(t)
    if cur or parts:
        parts.append(cur)
    if parts and not parts[-1]:
        parts.pop()  # trailing separator
    return parts


BLOCKLIKE = ("if", "while", "match", "for", "loop", "unsafe")


def split_stmts(toks):
    """split a block body into statements (each `...;`, a block-like expression statement, or the tail)"""
    stmts, i, n = [], 0, len(toks)
    while i < n:
        j = _stmt_end(toks, i)
        stmts.append(toks[i:j])
        i = j
    return stmts


def _stmt_end(toks, i):
    n = len(toks)
    t = toks[i]
    if (t.k == "id" and t.s in BLOCKLIKE) or (t.k == "g" and t.s == "{"):
        return _blocklike_end(toks, i)
    j = i
    while j < n and not is_p(toks[j], ";"):
        j += 1
    return min(j + 1, n)


def _blocklike_end(toks, i):
    n = len(toks)
    t = toks[i]
    if t.k == "g":
        return i + 1
    kw = t.s
    j = i + 1
    if kw in ("if", "while"):
        if j < n and is_id(toks[j], "let"):
            while j < n and not is_p(toks[j], "="):
                j += 1
        while j < n and not (toks[j].k == "g" and toks[j].s == "{"):
            j += 1
        j += 1
        if kw == "if" and j < n and is_id(toks[j], "else"):
            j += 1
            if j < n and is_id(toks[j], "if"):
                return _blocklike_end(toks, j)
            return min(j + 1, n)
        return min(j, n)
    while j < n and not (toks[j].k == "g" and toks[j].s == "{"):
        j += 1
    return min(j + 1, n)


# ---------------------------------------------------------------------------------------------
# template matcher
# ---------------------------------------------------------------------------------------------

class Hole(object):
    def __init__(self, name, kind):
        self.name, self.kind = name, kind

    def __repr__(self):
        return "$%s:%s" % (self.name, self.kind)


_tmpl_cache = {}


def template(src):
    """`$name:kind` holes; kinds: ident lit tt path ty expr rest group(N) ; everything else literal.
    A group in the template matches a group whose content matches the inner template."""
    if src in _tmpl_cache:
        return _tmpl_cache[src]
    toks = lex(src.replace("$", " ¤"), keep_docs=False)
    # rebuild holes: ¤ name : kind
    out = []
    i = 0
    while i < len(toks):
        t = toks[i]
        if t.k == "id" and t.s.startswith("¤"):
            name = t.s[1:]
            assert is_p(toks[i + 1], ":"), src
            kind = toks[i + 2].s
            out.append(Hole(name, kind))
            i += 3
        else:
            out.append(t)
            i += 1
    res = _tree_tmpl(out)
    _tmpl_cache[src] = res
    return res


def _tree_tmpl(toks):
    stack, opens = [[]], []
    for t in toks:
        if isinstance(t, Tok) and t.k == "p" and t.s in OPEN:
            opens.append(t)
            stack.append([])
        elif isinstance(t, Tok) and t.k == "p" and t.s in CLOSE:
            o = opens.pop()
            sub = stack.pop()
            stack[-1].append(Tok("g", o.s, sub))
        else:
            stack[-1].append(t)
    assert not opens
    return stack[0]


def _is_path_tok(t):
    return t.k == "id" or is_p(t, "::")


def match(toks, tmpl, env=None):
    """match the WHOLE token list against the template list; returns env dict or None"""
    if isinstance(tmpl, str):
        tmpl = template(tmpl)
    env = {} if env is None else env
    return _m(toks, 0, tmpl, 0, env)


def _m(toks, i, tm, j, env):
    n, m = len(toks), len(tm)
    while j < m:
        p = tm[j]
        if isinstance(p, Hole):
            k = p.kind
            if k in ("ident", "lit", "tt", "lt"):
                if i >= n:
                    return None
                t = toks[i]
                if k == "ident" and t.k != "id":
                    return None
                if k == "lit" and t.k != "lit":
                    return None
                if k == "lt" and t.k != "lt":
                    return None
                if p.name in env and env[p.name] != t:
                    return None
                e2 = dict(env)
                e2[p.name] = t
                env = e2
                i += 1
                j += 1
                continue
            # variable-length holes: try shortest-first extensions
            lo = 0 if k in ("rest", "opt") else 1
            for end in range(i + lo, n + 1):
                seg = toks[i:end]
                if k == "path" and not _path_ok(seg):
                    if end > i and not _path_prefix_ok(seg):
                        break
                    continue
                if k == "ty" and not _angle_balanced(seg):
                    continue
                if k == "expr" and not _expr_ok(seg):
                    continue
                e2 = dict(env)
                e2[p.name] = seg
                r = _m(toks, end, tm, j + 1, e2)
                if r is not None:
                    return r
            return None
        else:
            if i >= n:
                return None
            t = toks[i]
            if p.k == "g":
                if t.k != "g" or t.s != p.s:
                    return None
                r = _m(t.sub, 0, p.sub, 0, env)
                if r is None:
                    return None
                env = r
            else:
                if t.k != p.k or t.s != p.s:
                    return None
            i += 1
            j += 1
    return env if i == n else None


def _path_ok(seg):
    """ [::] ident (:: ident | :: <..> | <..>)*  (type or expression path, with generic args)"""
    if not seg:
        return False
    if not _angle_balanced(seg):
        return False
    depth = 0
    for t in seg:
        if is_p(t, "<"):
            depth += 1
        elif is_p(t, ">"):
            depth -= 1
        elif depth == 0 and not _is_path_tok(t):
            return False
    return seg[-1].k == "id" or is_p(seg[-1], ">")


def _path_prefix_ok(seg):
    depth = 0
    for t in seg:
        if is_p(t, "<"):
            depth += 1
        elif is_p(t, ">"):
            depth -= 1
            if depth < 0:
                return False
        elif depth == 0 and not _is_path_tok(t):
            return False
    return True


def _angle_balanced(seg):
    depth = 0
    for t in seg:
        if is_p(t, "<"):
            depth += 1
        elif is_p(t, ">"):
            depth -= 1
            if depth < 0:
                return False
    return depth == 0


def _expr_ok(seg):
    # no top-level `;` or `,` inside an expression hole
    for t in seg:
        if t.k == "p" and t.s in (";", ","):
            return False
    return True


def txt(x):
    """text of a bound hole"""
    if isinstance(x, Tok):
        return render([x])
    return render(x)


def strip_turbofish(seg):
    """A::<T>::new -> A::new (path text without generic arguments)"""
    out, depth = [], 0
    for t in seg:
        if is_p(t, "<"):
            depth += 1
            if out and is_p(out[-1], "::"):
                out.pop()
            continue
        if is_p(t, ">"):
            depth -= 1
            continue
        if depth == 0:
            out.append(t)
    return out


def lit_str(tok):
    """value of a string literal token (simple unescape)"""
    s = tok.s
    if s.startswith('r'):
        m = re.match(r'r(#*)"', s)
        h = len(m.group(1))
        return s[2 + h:len(s) - 1 - h]
    if s.startswith('"'):
        body = s[1:-1]
        return body.replace('\\"', '"').replace("\\n", "\n").replace("\\\\", "\\").replace("\\'", "'")
    return s
