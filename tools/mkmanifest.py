#!/usr/bin/env python3
"""Regenerate MANIFEST.json from the table below (keeps it valid at all times)."""
import json, os
V = os.path.dirname(os.path.dirname(os.path.abspath(__file__)))
ids = ["C%02d" % i for i in range(1, 21)]
RT_NOTE = ("Trusted: Coq 8.16.1 kernel (coqc, vm_compute, no native_compute); the translator (feature-gated hook in /repo, lib/rs.py lexer + whole-statement "
           "template matcher, lib/ir.py, lib/coqgen.py); the channel / oneshot / spawn semantics defined in Runtime/Actor.v (modelled, validated by harness/probe on the "
           "real runtimes); user methods deterministic. No axioms (Print Assumptions closed for every theorem).")
claimed = {
 "C01": ("5.1", "Coq theorems over the runtime LTS for all schedules, client programs, clones and values: one method at a time; `applied` is a single total order whose sequential replay on the user's type gives the actor state and every returned value; executed calls are the issued ones with the same arguments. Premise wf_C01 re-established by vm_compute on IR instances translated from the real expansions (4 libs x channel kinds x debut x call kinds); probe scenarios on the four real runtimes checked against the same oracles.", "Coq invariant proofs over LTS + translated instances + runtime probes"),
 "C02": ("5.2", "Coq theorem: if call c1 returned before c2 was invoked (any clone, any client) and both execute, c1 executes first; channel FIFO (enq = deq ++ queue); a returned call was handed to the channel. Premise wf_C02 (blocking send before return) checked per translated instance; probe scenarios on real runtimes.", "Coq invariant proofs over LTS + translated instances + runtime probes"),
 "C03": ("5.3", "Coq theorems: NoDup of accepted ids and enq = applied ++ busy ++ queue (exactly once while alive), executions carry exactly the supplied arguments by position, a returned value is the result of the caller's own call. Premise wf_C03 per translated instance; probe scenarios with tagged arguments on real runtimes.", "Coq invariant proofs over LTS + translated instances + runtime probes"),
 "C04": ("5.4", "Coq theorems: one constructor run / one spawn, at most one drop-or-move of the actor, exit-cause classification (never ends earlier), draining-shutdown termination theorem (all accepted calls executed in order, then a single drop). Premise wf_C04 (constructor statement order, `?` exactly for Option/Result under any path, matching Some/Ok wrap, arguments passed in order) per translated instance; lifecycle probes on real runtimes.", "Coq invariant + termination proofs over LTS + translated instances + runtime probes"),
 "C08": ("5.8", "Universal Coq theorems over the runtime LTS: queue length <= n, a blocked caller's state is unchanged and its call is accepted at the tail when space frees, nothing discarded while alive, unbounded never waits. Premises wf_C08 / cap_of = option re-established by vm_compute on translated instances (4 libs x channel option x impl blocks x families with inherited/overridden member capacity); parked-actor bursts on the real runtimes.", "Coq invariant proof over LTS + translated instances + runtime probes"),
 "C09": ("5.9", "Coq theorems: actor moved out at most once; the value handed over is the sequential state after every executed call; all calls accepted before the stop message are executed first; with the guard and another clone alive the call is refused and nothing changes; sender count = live handles. Premise wf_C09 and the static half (guard/visibility/Clone per return-type shape) evaluated on translated instances; consume probes on real runtimes.", "Coq invariant proofs over LTS + translated instances + static oracle on real expansions + runtime probes"),
 "C10": ("5.10", "Coq theorems over the family LTS (any number of members and methods, every schedule of member loops and arriving messages): one constructor run; at most one exclusive lock holder and then nobody else; a member executing a &mut self method holds the lock alone; Mutex: one holder; executed calls replayed sequentially in lock order give the shared state and results; per-member execution order = its queue order; RwLock readers can overlap (witness). Premise wf_C10 (Arc<lock> type per lib, per-arm lock statement by receiver mutability, family-static receivers lock-free, constructor wraps once and clones per member) by vm_compute on translated family expansions; contention + rendezvous probes on std/tokio/async_std.", "Coq invariant proofs over family LTS + translated instances + runtime probes"),
 "C20": ("5.20", "Coq theorems: in every reachable dead state every caller inside a call has an enabled step (no hang, draining receivers), that step ends in a panic unless the reply was already produced, no fabricated values. Refuted (proved with witness) for receivers that keep queued messages (async-channel): known finding. Premise wf_C20 (every send / wait / reply panics and mentions the closed channel) per translated instance; fault-injection probes on real runtimes.", "Coq invariant proofs over LTS + refutation witness + translated instances + fault probes"),
}
checks = []
for i in ids:
    if i in claimed:
        ref, text, tech = claimed[i]
        checks.append({"property_id": i, "quick_cmd": "./check %s --tier quick" % i, "thorough_cmd": "./check %s --tier thorough" % i,
                       "evidence_file": "/verif/evidence/%s.json" % i, "replay_cmd_template": "./check %s --replay {path}" % i, "engine": "coq-sdpl",
                       "level_claimed": {"category": "proof", "text": text, "design_ref": ref}, "level_note": RT_NOTE, "technique": tech})
m = {"version": 1, "setup_cmd": "./setup.sh",
     "hooks": {"guard": "cargo feature `verif`", "enable": "cargo build --offline --features verif (CARGO_TARGET_DIR=/verif/.cache/target)",
               "baseline_off_cmd": "cd /repo && cargo test --workspace --no-fail-fast --offline --tests --lib", "source_commits": ["b2a0144"], "add_only": True},
     "engines": [{"name": "coq-sdpl", "path": "/verif/coq", "serves_properties": sorted(claimed),
                  "kind_free_text": "Coq 8.16 development: SDPL-IR, runtime LTS with invariants, generator/text/fs/clock models; instances regenerated from /repo on every run; harness/probe runs the real generated code"}],
     "checks": checks,
     "not_applicable": [{"property_id": i, "reason": "check under construction in this round (not a claim of inapplicability)"} for i in ids if i not in claimed]}
json.dump(m, open(os.path.join(V, "MANIFEST.json"), "w"), indent=1)
print(len(checks), "checks")
