"""C09 -- self-consuming methods hand the actor over exactly once, only to a sole owner."""
import random, re
import rt_common, probe, gen_impl
from common import *
PID = "C09"

RETS = [("u8", False), ("Option<u8>", True), ("Result<u8, String>", True), ("Result<u8, &'static str>", True), ("Result<u8, std::io::Error>", False),
        ("std::option::Option<u8>", True), ("::std::result::Result<u8, String>", True), ("core::result::Result<u8, ::std::string::String>", True)]


def configs(rng, tier):
    cs = []
    for lib in gen_impl.LIBS:
        for debut in (False, True):
            for (ret, compliant) in RETS:
                for recv in ("self", "mut self"):
                    if tier == "quick" and recv == "mut self" and ret != "Option<u8>":
                        continue
                    item = "impl A {\n pub fn new() -> Self { todo!() }\n pub fn inc(&mut self) {}\n pub fn get(&self, k: u8) -> u8 { k }\n pub fn fin(%s, x: u8) -> %s { todo!() }\n}" % (recv, ret)
                    cs.append({"kind": "actor", "lib": lib, "attr": gen_impl.actor_attr(lib, 2, debut=debut), "item": item, "nmodels": 1,
                               "label": "slf lib=%s debut=%s ret=%s %s" % (lib, debut, ret, recv), "cfg": (lib, debut, ret, recv),
                               "expect": [("fin", debut and compliant)]})
            # consuming methods with generics / a where-clause of their own: guarded exactly like the others
            for gsig, ret, compliant in (("fin<T: From<u8>>(self, x: u8)", "Option<T>", True), ("fin<T: From<u8>>(mut self, x: u8)", "Result<T, String>", True),
                                         ("fin<T>(self, x: T)", "u8", False), ("fin(self, x: u8)", "Option<u8> where Self: Sized", True)):
                item = "impl A {\n pub fn new() -> Self { todo!() }\n pub fn inc(&mut self) {}\n pub fn %s -> %s { todo!() }\n}" % (gsig, ret)
                cs.append({"kind": "actor", "lib": lib, "attr": gen_impl.actor_attr(lib, None, debut=debut), "item": item, "nmodels": 1,
                           "label": "slfgen lib=%s debut=%s sig=%s ret=%s" % (lib, debut, gsig, ret), "cfg": (lib, debut, ret, gsig),
                           "expect": [("fin", debut and compliant)]})
            # restricted visibilities: an unguarded consuming method is private whatever the user declared, a guarded one keeps its visibility
            for vis in ("pub(crate)", "pub(super)", "pub(in crate)"):
                for (ret, compliant) in (("u8", False), ("Option<u8>", True), ("Result<u8, std::io::Error>", False)):
                    item = "impl A {\n pub fn new() -> Self { todo!() }\n pub fn inc(&mut self) {}\n %s fn fin(self, x: u8) -> %s { todo!() }\n}" % (vis, ret)
                    cs.append({"kind": "actor", "lib": lib, "attr": gen_impl.actor_attr(lib, None, debut=debut), "item": item, "nmodels": 1,
                               "label": "slfvis lib=%s debut=%s vis=%s ret=%s" % (lib, debut, vis, ret), "cfg": (lib, debut, ret, vis),
                               "expect": [("fin", debut and compliant)]})
            # two consuming methods, one compliant one not
            item = "impl A {\n pub fn new() -> Self { todo!() }\n pub fn inc(&mut self) {}\n pub fn raw(self) -> u8 { 0 }\n pub fn fin(self, x: u8) -> Option<u8> { None }\n}"
            cs.append({"kind": "actor", "lib": lib, "attr": gen_impl.actor_attr(lib, None, debut=debut), "item": item, "nmodels": 1,
                       "label": "slf2 lib=%s debut=%s" % (lib, debut), "cfg": (lib, debut, "two"), "expect": [("raw", False), ("fin", debut)]})
            item2 = item.replace("pub fn raw(self) -> u8 { 0 }\n pub fn fin(self, x: u8) -> Option<u8> { None }", "pub fn fin(self, x: u8) -> Option<u8> { None }\n pub fn raw(self) -> u8 { 0 }")
            cs.append({"kind": "actor", "lib": lib, "attr": gen_impl.actor_attr(lib, None, debut=debut), "item": item2, "nmodels": 1,
                       "label": "slf2b lib=%s debut=%s" % (lib, debut), "cfg": (lib, debut, "two-b"), "expect": [("fin", debut), ("raw", False)]})
    return cs


def run(rep):
    rng = random.Random(rep.seed)
    rep.extra["rule"] = ("instances = real expansions over return-type shapes x debut x receiver x lib; expectation per self-consuming method: guarded and public iff debut and compliant "
                         "return type (Option<_>, Result<_, String>, Result<_, &'static str> under any path), handle clonable iff every one is guarded; "
                         "probe = fin on a sole handle after queued calls / with a second clone; non-trivial = distinct (lib, debut, return type, receiver) classes")

    def per_model(rep, c, j, r):
        facts = re.findall(r'\("(\w+)", "([^"]*)", (true|false)\)', r["facts"])
        got = [(n, g == "true") for n, v, g in facts]
        ok = got == c["expect"]
        vis_ok = all((v != "") == (g == "true") for n, v, g in facts)
        clon_ok = (r["clonable"] == "true") == all(g for _, g in c["expect"])
        if rep.oblige(ok and vis_ok and clon_ok):
            return True
        if [n for n, _ in got] != [n for n, _ in c["expect"]]:
            # the generated body of a consuming method is not in a form the translator reads: nothing is known about its guard from the text
            return {"_found": False, "what": "the self-consuming methods of the expansion are not in the recognised form (recognised: %s, in the impl block: %s): the static half of C09 "
                                             "(guarded and public iff compliant, handle clonable iff all guarded) is no longer shown for it" % (facts, [n for n, _ in c["expect"]])}
        return {"what": "the real expansion contradicts C09's static half: self-consuming methods (name, visibility, guarded) = %s, expected guarded = %s, handle clonable = %s "
                        "(a handle must not be Clone and an unguarded consuming method must be private unless every consuming method is guarded)" % (facts, c["expect"], r["clonable"])}

    rt_common.run_runtime(rep, PID, "wf_C09",
        ["fun (A V : Type) sem sem_slf dv => @C09_after_all_earlier A V sem sem_slf dv {i} {w}",
         "fun (A V : Type) sem sem_slf dv => @C09_shared_refuses A V sem sem_slf dv {i} {w}"],
        configs(rng, rep.tier), extra_funs=[("facts", "slf_facts {i}"), ("clonable", "r_clonable (elab {i})")], per_model_check=per_model)
    runs = []
    for lib in gen_impl.LIBS:
        for ch in ((0, 2) if rep.tier == "quick" else (0, 1, 2, 3)):
            runs += [["consume", lib, ch, "handles=1"], ["consume", lib, ch, "handles=2"], ["consume", lib, ch, "handles=1", "pending=%d" % (ch or 3)]]
        if rep.tier != "quick":
            runs.append(["consume", lib, 0, "handles=4"])
    # the hand-over happens after the earlier calls however long they take
    runs += [["consume", lib, ch, "handles=1", "pending=%d" % (ch or 2), "holdms=%d" % (2600 if rep.tier == "quick" else 7000)]
             for lib in (("std",) if rep.tier == "quick" else gen_impl.LIBS) for ch in ((0, 2) if rep.tier == "quick" else (0, 1, 2))]
    rt_common.impl_side(rep, PID, runs, lambda a, d: probe.oracle_consume(d))
    # the sole-owner guard reads the instance counter: on generic handles too it must count every live clone
    import debut_harness as dh, hook
    try:
        for name, attr, item, obs, prob in dh.clone_count_probe(hook):
            rep.oblige(False)
            rep.violation("count_" + name, {"what": "C09: " + prob + " - a clone would pass the sole-owner guard `inter_get_count() <= 1` while other handles exist",
                                           "attr": attr, "item": item, "observed (stamp:count:name per live handle | comparisons | clock reads)": obs}, found=not prob.startswith("harness"))
        rep.oblige(True)
        rep.evaluations += 6
    except dh.CompileError as e:
        rep.oblige(False)
        rep.violation("count_compile", {"what": "generic debut expansion does not compile next to the mock clock", "rustc": str(e)[-1500:]}, found=False)


def replay(rep, path):
    return rt_common.replay_generic(rep, path)
