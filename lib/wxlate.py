"""Statement-level translator: the REAL tokens of `fn write` in $VERIF_REPO/src/write.rs -> writer-program IR
(`wprog` of coq/theories/Fs/Crash.v).  Every statement must be matched as a whole by one template
(`rs.match`); anything else becomes `WUnknown` at that point of the program (never atomic).
"""
import os, re
import rs

M = rs.match


class Ctx(object):
    def __init__(self):
        self.data = None          # name of the String parameter
        self.paths = {}           # variable -> 'Target' | 'Tmp'
        self.names = {}           # OsString variable -> {'of': 'Target', 'suffix': bool}
        self.files = {}           # file handle variable -> which
        self.result = {}          # result variable -> 'ok' | 'err'
        self.notes = []           # unrecognised statements (shared between forks)
        self.shared = {"suffix_lit": None}   # literal prefix of the temp-name suffix (shared between forks)

    def fork(self):
        c = Ctx()
        c.data, c.paths, c.names, c.files, c.result = self.data, dict(self.paths), {k: dict(v) for k, v in self.names.items()}, dict(self.files), dict(self.result)
        c.notes, c.shared = self.notes, self.shared
        return c


def op(o, ok, err):
    return "(WOp (%s) %s %s)" % (o, ok, err)


def path_of(ctx, toks):
    """`&x`, `x`, `x.as_path()`, `&*x` -> which"""
    t = list(toks)
    while t and (rs.is_p(t[0], "&") or rs.is_p(t[0], "*")):
        t = t[1:]
    if len(t) == 1 and t[0].k == "id":
        return ctx.paths.get(t[0].s)
    e = M(t, "$x:ident . as_path ( )") or M(t, "$x:ident . clone ( )")
    if e:
        return ctx.paths.get(e["x"].s)
    return None


FS = ("std :: fs :: ", "fs :: ", ":: std :: fs :: ")


def fs_call(toks, name, nargs):
    """match [std::]fs::name(args) -> list of argument token lists"""
    for pre in FS:
        e = M(toks, pre + name + " ( $a:rest )")
        if e is not None:
            args = rs.split_top(e["a"], ",", angle=False)
            if len(args) == nargs:
                return args
    return None


def open_flags(chain):
    """`.write(true).truncate(true)...` -> dict or None"""
    flags = {}
    i = 0
    while i < len(chain):
        if i + 2 < len(chain) + 0 and rs.is_p(chain[i], ".") and chain[i + 1].k == "id" and chain[i + 2].k == "g" and chain[i + 2].s == "(":
            arg = rs.render(chain[i + 2].sub)
            if arg not in ("true", "false"):
                return None
            flags[chain[i + 1].s] = (arg == "true")
            i += 3
        else:
            return None
    return flags


def open_op(ctx, oo, chain, pe):
    if not rs.render(oo).endswith("OpenOptions :: new"):
        return None
    fl = open_flags(chain)
    w = path_of(ctx, pe)
    if fl is None or w is None:
        return None
    known = {"write", "truncate", "create"}
    if any(k not in known for k, v in fl.items() if v):
        return None
    if not fl.get("write"):
        return None
    if fl.get("truncate") and fl.get("create"):
        return "SOpenCreateTrunc " + w, w
    if fl.get("truncate"):
        return "SOpenTrunc " + w, w
    return None      # write without truncate: in-place overwrite, not modelled


def expr_op(ctx, toks):
    """an expression that performs exactly one filesystem operation and yields its io::Result -> wop text"""
    a = fs_call(toks, "rename", 2)
    if a:
        x, y = path_of(ctx, a[0]), path_of(ctx, a[1])
        return "SRename %s %s" % (x, y) if x and y else None
    a = fs_call(toks, "copy", 2)
    if a:
        x, y = path_of(ctx, a[0]), path_of(ctx, a[1])
        return "SCopy %s %s" % (x, y) if x and y else None
    a = fs_call(toks, "remove_file", 1)
    if a:
        x = path_of(ctx, a[0])
        return "SRemove %s" % x if x else None
    a = fs_call(toks, "metadata", 1)
    if a:
        x = path_of(ctx, a[0])
        return "SStat %s" % x if x else None
    a = fs_call(toks, "set_permissions", 2)
    if a:
        x = path_of(ctx, a[0])
        e = M(a[1], "$m:ident . permissions ( )")
        return "SSetPerm %s" % x if x and e else None
    e = M(toks, "$f:ident . sync_all ( )") or M(toks, "$f:ident . sync_data ( )")
    if e and e["f"].s in ctx.files:
        return "SFsync " + ctx.files[e["f"].s]
    e = M(toks, 'write ! ( $f:ident , "{}" , $v:ident )') or M(toks, "$f:ident . write_all ( $v:ident . as_bytes ( ) )")
    if e and e["f"].s in ctx.files and e["v"].s == ctx.data:
        return "SWrite " + ctx.files[e["f"].s]
    return None


def unknown(ctx, stmt, where):
    ctx.notes.append("%s: %s" % (where, rs.render(stmt)[:200]))
    return "WUnknown"


def block(ctx, stmts, on_ok, on_err, tail_kind):
    """translate a statement list.
    on_ok / on_err : callables ctx -> wprog text: what happens when this block yields Ok / Err (`?` or tail value).
    tail_kind: 'closure' | 'fn' (how a tail expression / running off the end is interpreted)"""
    if not stmts:
        return unknown(ctx, [], "block ends without a value")
    st, rest = stmts[0], stmts[1:]
    last = not rest
    go = lambda c: block(c, rest, on_ok, on_err, tail_kind)

    # ---- pure bindings (no filesystem effect)
    e = M(st, "let mut $n:ident = $p:ident . file_name ( ) . map ( | $x:ident | $y:ident . to_os_string ( ) ) . unwrap_or_default ( ) ;")
    if e and ctx.paths.get(e["p"].s) == "Target" and e["x"] == e["y"] and rest:
        c = ctx.fork()
        c.names[e["n"].s] = {"of": "Target", "suffix": False}
        return go(c)
    e = M(st, "$n:ident . push ( format ! ( $l:lit , $a:rest ) ) ;") or M(st, "$n:ident . push ( $l:lit ) ;")
    if e and e["n"].s in ctx.names and e["l"].s.startswith('"') and rest:
        lit = rs.lit_str(e["l"])
        pre = lit.split("{")[0]
        c = ctx.fork()
        if pre:
            c.names[e["n"].s]["suffix"] = True
            ctx.shared["suffix_lit"] = pre
            return go(c)
        return unknown(ctx, st, "temp-name suffix not provably non-empty")
    e = M(st, "let $t:ident = $p:ident . with_file_name ( $n:ident ) ;")
    if e and ctx.paths.get(e["p"].s) == "Target" and e["n"].s in ctx.names and rest:
        c = ctx.fork()
        # without a suffix the "sibling" IS the target
        c.paths[e["t"].s] = "Tmp" if ctx.names[e["n"].s]["suffix"] else "Target"
        return go(c)

    # ---- the closure:  let result = (|| { .. })();
    e = M(st, "let $r:ident = ( || $b:tt ) ( ) ;")
    if e and e["b"].k == "g" and e["b"].s == "{" and rest:
        r = e["r"].s

        def after(state):
            def k(c):
                c2 = c.fork()
                c2.result[r] = state
                # bindings made inside the closure do not escape
                c2.files, c2.paths, c2.names = dict(ctx.files), dict(ctx.paths), ctx.names
                return block(c2, rest, on_ok, on_err, tail_kind)
            return k
        return block(ctx.fork(), rs.split_stmts(e["b"].sub), after("ok"), after("err"), "closure")

    # ---- statements about the closure's result
    e = M(st, "if $r:ident . is_err ( ) $b:tt") or M(st, "if let Err ( $x:tt ) = $r:ident $b:tt") or M(st, "if let Err ( $x:tt ) = & $r:ident $b:tt")
    if e and e["r"].s in ctx.result and e["b"].k == "g" and rest:
        if ctx.result[e["r"].s] == "err":
            return block(ctx, rs.split_stmts(e["b"].sub) + rest, on_ok, on_err, tail_kind)
        return go(ctx)
    e = M(st, "if $r:ident . is_ok ( ) $b:tt")
    if e and e["r"].s in ctx.result and e["b"].k == "g" and rest:
        if ctx.result[e["r"].s] == "ok":
            return block(ctx, rs.split_stmts(e["b"].sub) + rest, on_ok, on_err, tail_kind)
        return go(ctx)
    e = M(st, "let _ = $r:ident ;") or M(st, "drop ( $r:ident ) ;")
    if e and e["r"].s in ctx.result and rest:
        return go(ctx)
    e = M(st, "$r:ident ? ;")
    if e and e["r"].s in ctx.result and rest:
        return go(ctx) if ctx.result[e["r"].s] == "ok" else on_err(ctx)
    e = M(st, "$r:ident") or M(st, "return $r:ident ;")
    if e and e["r"].s in ctx.result and last:
        return on_ok(ctx) if ctx.result[e["r"].s] == "ok" else on_err(ctx)
    if last and (M(st, "Ok ( ( ) )") is not None or M(st, "return Ok ( ( ) ) ;") is not None):
        return on_ok(ctx)

    # ---- open
    e = M(st, "let mut $f:ident = $oo:path ( ) $chain:rest . open ( $pe:rest ) ? ;") or M(st, "let $f:ident = $oo:path ( ) $chain:rest . open ( $pe:rest ) ? ;")
    if e and rest:
        r = open_op(ctx, e["oo"], e["chain"], e["pe"])
        if r:
            c = ctx.fork()
            c.files[e["f"].s] = r[1]
            return op(r[0], go(c), on_err(ctx))
        return unknown(ctx, st, "open with unmodelled options / path")
    e = M(st, "let mut $f:ident = $fc:path ( $pe:rest ) ? ;")
    if e and rest and rs.render(e["fc"]).endswith("File :: create"):
        w = path_of(ctx, e["pe"])
        if w:
            c = ctx.fork()
            c.files[e["f"].s] = w
            return op("SOpenCreateTrunc " + w, go(c), on_err(ctx))

    # ---- one-operation statements
    if len(st) >= 2 and rs.is_p(st[-1], ";") and rs.is_p(st[-2], "?") and rest:
        o = expr_op(ctx, st[:-2])
        if o:
            return op(o, go(ctx), on_err(ctx))
    e = M(st, "let _ = $e:rest ;")
    if e and rest:
        o = expr_op(ctx, e["e"])
        if o:
            k = go(ctx)
            return op(o, k, k)
    for tm, ok_runs_block in (("if let Ok ( $x:tt ) = $e:expr $b:tt", True), ("if let Err ( $x:tt ) = $e:expr $b:tt", False), ("if $e:expr . is_err ( ) $b:tt", False),
                              ("if $e:expr . is_ok ( ) $b:tt", True)):
        e = M(st, tm)
        if e and e["b"].k == "g" and e["b"].s == "{" and rest:
            o = expr_op(ctx, e["e"])
            if o:
                with_block = block(ctx, rs.split_stmts(e["b"].sub) + rest, on_ok, on_err, tail_kind)
                without = go(ctx)
                return op(o, with_block, without) if ok_runs_block else op(o, without, with_block)
    if last:
        o = expr_op(ctx, st)
        if o:
            return op(o, on_ok(ctx), on_err(ctx))
    return unknown(ctx, st, "statement")


def find_fn(toks, name):
    for i in range(len(toks) - 3):
        if rs.is_id(toks[i], "fn") and rs.is_id(toks[i + 1], name) and toks[i + 2].k == "g" and toks[i + 2].s == "(":
            j = i + 3
            while j < len(toks) and not (toks[j].k == "g" and toks[j].s == "{"):
                if rs.is_p(toks[j], ";"):
                    return None
                j += 1
            if j < len(toks):
                return toks[i + 2], toks[i + 3:j], toks[j]
    return None


def translate(repo):
    """-> dict(term, notes, suffix_lit, source)"""
    path = os.path.join(repo, "src", "write.rs")
    text = open(path).read()
    toks = rs.tree(rs.lex(text, keep_docs=False))
    f = find_fn(toks, "write")
    ctx = Ctx()
    if not f:
        return {"term": "WUnknown", "notes": ["fn write not found in src/write.rs"], "suffix_lit": None, "source": ""}
    params, ret, body = f
    e = M(params.sub, "$v:ident : String , $p:ident : & PathBuf") or M(params.sub, "$v:ident : String , $p:ident : & PathBuf ,") \
        or M(params.sub, "$v:ident : String , $p:ident : & Path") or M(params.sub, "$v:ident : String , $p:ident : & std :: path :: Path")
    src = "fn write ( %s ) %s { %s }" % (rs.render(params.sub), rs.render(ret), rs.render(body.sub))
    if not e:
        return {"term": "WUnknown", "notes": ["signature of fn write not recognised: " + rs.render(params.sub)], "suffix_lit": None, "source": src}
    ctx.data = e["v"].s
    ctx.paths[e["p"].s] = "Target"
    term = block(ctx, rs.split_stmts(body.sub), lambda c: "WDone", lambda c: "WFail", "fn")
    return {"term": term, "notes": ctx.notes, "suffix_lit": ctx.shared["suffix_lit"], "source": src}


if __name__ == "__main__":
    import sys
    r = translate(sys.argv[1] if len(sys.argv) > 1 else os.environ.get("VERIF_REPO", "/repo"))
    print(r["term"])
    print(r["notes"], r["suffix_lit"])
