(* C02 -- calls take effect in issue order (per-handle FIFO, real-time precedence).  Statements only. *)
From Coq Require Import List Arith.
Import ListNotations.
From IT Require Import Sdpl.IR Sdpl.Elab Sdpl.Wf Runtime.Actor Runtime.Lists Runtime.ActorInv Runtime.InvDefs Runtime.Combined Runtime.InvClient.

Section C02.
Context {A V : Type} (sem : nat -> A -> list V -> option (A * V)) (sem_slf : nat -> A -> list V -> V) (dv : V).
Notation run := (run sem sem_slf dv).

(* whenever call c1 has returned (ERet c1) before call c2 is started (EInv c2) - through any clone, from any client -
   and both get executed, c1 is executed first.  Calls issued one after another through one handle are the special case
   where the same client records ERet c1 before EInv c2; fire-and-forget calls record ERet when the handle method returns,
   i.e. possibly before they are applied. *)
Theorem C02_realtime : forall (m : model), wf_C02 m = true ->
  forall a0 progs sched, let s := run (elab m) a0 progs sched in
  forall h1 h2 c1 c2, hist s = h1 ++ EInv c2 :: h2 -> In (ERet c1) h1 ->
  In c1 (applied_ids s) -> In c2 (applied_ids s) -> precedes c1 c2 (applied_ids s).
Proof. intros m _ a0 progs sched. exact (realtime_order sem sem_slf dv (elab m) a0 progs sched). Qed.

(* what the channel accepted is what the actor took, in that order, plus what is still queued (FIFO) *)
Theorem C02_fifo : forall (m : model), wf_C02 m = true ->
  forall a0 progs sched, let s := run (elab m) a0 progs sched in enq s = deq s ++ qids s.
Proof. intros m _ a0 progs sched. exact (fifo_reachable sem sem_slf dv (elab m) a0 progs sched). Qed.

(* a call that returned was handed to the channel before it returned (nothing is sent late or dropped while alive) *)
Theorem C02_returned_was_sent : forall (m : model), wf_C02 m = true ->
  forall a0 progs sched, let s := run (elab m) a0 progs sched in
  alive s = true -> forall c, In (ERet c) (hist s) -> In c (enq s).
Proof.
  intros m W a0 progs sched s Al c Hc.
  destruct (Inv_reachable sem sem_slf dv (elab m) a0 progs sched) as (_ & (O & _) & _).
  destruct (O c Hc) as [H|H]; [exact H|].
  unfold wf_C02 in W. apply andb_prop in W. destruct W as [_ B].
  pose proof (no_loss_reachable sem sem_slf dv (elab m) a0 progs sched B Al) as L. unfold s in H. rewrite L in H. destruct H.
Qed.
(* per-handle FIFO: the calls one client issues one after another are executed in issue order (a client starts its next
   call only after the previous handle method returned: client_seq_reachable) *)
Theorem C02_per_client_fifo : forall (m : model), wf_C02 m = true ->
  forall a0 progs sched, let s := run (elab m) a0 progs sched in
  forall t k1 k2, k1 < k2 -> In (t, k1) (applied_ids s) -> In (t, k2) (applied_ids s) -> precedes (t, k1) (t, k2) (applied_ids s).
Proof. intros m _ a0 progs sched. exact (per_client_fifo sem sem_slf dv (elab m) a0 progs sched). Qed.
End C02.

Print Assumptions C02_realtime.
Print Assumptions C02_fifo.
Print Assumptions C02_returned_was_sent.
Print Assumptions C02_per_client_fifo.
