(* C09 -- self-consuming methods hand the actor over exactly once, only to a sole owner.  Statements only. *)
From Coq Require Import List Arith Bool Lia.
Import ListNotations.
From IT Require Import Sdpl.IR Sdpl.Elab Sdpl.Wf Runtime.Actor Runtime.ActorInv Runtime.InvDefs Runtime.InvDefs2 Runtime.InvSeq
  Runtime.Combined Runtime.InvStop Runtime.InvSole.

Section C09.
Context {A V : Type} (sem : nat -> A -> list V -> option (A * V)) (sem_slf : nat -> A -> list V -> V) (dv : V).
Notation run := (run sem sem_slf dv).
Notation step := (step sem sem_slf dv).

(* the actor is moved out at most once, and never both moved out and dropped by the loop *)
Theorem C09_moved_at_most_once : forall (m : model) a0 progs sched, let s := run (elab m) a0 progs sched in
  moved s <= 1 /\ drops s + moved s <= 1.
Proof.
  intros m a0 progs sched s. destruct (life_reachable sem sem_slf dv (elab m) a0 progs sched) as (_ & _ & L & _). fold s in L. lia.
Qed.

(* the value handed to the consuming method is the sequential state after every executed call, and the loop has ended *)
Theorem C09_handover_value : forall (m : model) a0 progs sched, let s := run (elab m) a0 progs sched in
  forall c a, slot_get (slots s) c = Some (SActor a) -> Replay sem a0 (applied s) a /\ exited s = Some Stopped.
Proof.
  intros m a0 progs sched. unfold Actor.run.
  assert (H : seq_ok sem a0 (run_from sem sem_slf dv (elab m) (Actor.init a0 progs) sched)
              /\ handover_ok sem a0 (run_from sem sem_slf dv (elab m) (Actor.init a0 progs) sched)).
  { apply (inv_run sem sem_slf dv (fun s => seq_ok sem a0 s /\ handover_ok sem a0 s) (elab m)).
    - intros s ch s' [S H] St. split; [exact (seq_step sem sem_slf dv a0 _ s ch s' S St)|exact (handover_step sem sem_slf dv a0 _ s ch s' S H St)].
    - split; [cbn; constructor|apply handover_init]. }
  exact (proj2 H).
Qed.

(* when the stop message is taken every call accepted before it has been executed (nothing discarded so far) *)
Theorem C09_after_all_earlier : forall (m : model), wf_C09 m = true ->
  forall a0 progs sched, let s := run (elab m) a0 progs sched in
  forall s', step (elab m) s Ac = Some s' -> exited s = None -> exited s' = Some Stopped -> dropped s = [] ->
  exists c q, enq s = applied_ids s ++ c :: q /\ applied s' = applied s.
Proof.
  intros m _ a0 progs sched s s' H E E' D.
  exact (stop_after_all_earlier sem sem_slf dv a0 (elab m) s s' (Inv_reachable sem sem_slf dv (elab m) a0 progs sched) H E E' D).
Qed.

(* with instance tracking (guard present) and another clone alive the call is refused: nothing is sent, the actor, its
   queue, the replies and everything executed so far are untouched; only the consumed handle is gone *)
Theorem C09_shared_refuses : forall (m : model), wf_C09 m = true -> r_guard (elab m) = true ->
  forall s t cl k vs rest, nth_error (clients s) t = Some cl -> c_pc cl = Ready -> c_prog cl = Consume k vs :: rest ->
  0 < c_nh cl -> 1 < senders s ->
  exists s', step (elab m) s (Cl t) = Some s' /\ actor s' = actor s /\ queue s' = queue s /\ busy s' = busy s /\ exited s' = exited s
             /\ enq s' = enq s /\ applied s' = applied s /\ slots s' = slots s /\ senders s' = pred (senders s)
             /\ new_outcome s s' t (t, c_seq cl) Refused.
Proof. intros m _ G s t cl k vs rest. intros. eapply refused_is_harmless; eauto. Qed.

(* the sender count the guard reads is the number of live handles, so `<= 1` means sole owner *)
Theorem C09_count_exact : forall (m : model) a0 progs sched, let s := run (elab m) a0 progs sched in
  senders s = list_sum (map c_nh (clients s)).
Proof. intros m a0 progs sched. exact (senders_reachable sem sem_slf dv (elab m) a0 progs sched). Qed.

(* a sole owner proceeds to send the stop message *)
Theorem C09_sole_owner_stops : forall (m : model) s t cl k vs rest, nth_error (clients s) t = Some cl -> c_pc cl = Ready ->
  c_prog cl = Consume k vs :: rest -> 0 < c_nh cl -> senders s <= 1 ->
  exists s', step (elab m) s (Cl t) = Some s' /\ exists cl', nth_error (clients s') t = Some cl' /\ c_pc cl' = StopSend (t, c_seq cl) k vs.
Proof. intros m s t cl k vs rest H1 H2 H3 H4 H5. eapply sole_owner_sends_stop; eauto. Qed.
(* only to a sole owner: with the guard on every self-consuming method, while a client is inside such a call its handle is the
   only handle in existence, and the step that hands the actor over finds exactly that one handle *)
Theorem C09_consuming_client_is_sole_owner : forall (m : model), wf_C09 m = true -> r_guard (elab m) = true ->
  forall a0 progs sched, let s := run (elab m) a0 progs sched in
  forall t cl, nth_error (clients s) t = Some cl -> stopping cl = true -> senders s = 1 /\ c_nh cl = 1.
Proof. intros m _ G a0 progs sched. exact (stop_sole_reachable sem sem_slf dv (elab m) G a0 progs sched). Qed.

Theorem C09_stopped_only_by_sole_owner : forall (m : model), wf_C09 m = true -> r_guard (elab m) = true ->
  forall a0 progs sched, let s := run (elab m) a0 progs sched in
  forall s', step (elab m) s Ac = Some s' -> exited s = None -> exited s' = Some Stopped ->
  senders s = 1 /\ exists t cl, nth_error (clients s) t = Some cl /\ stopping cl = true /\ c_nh cl = 1.
Proof. intros m _ G. exact (stopped_by_sole_owner sem sem_slf dv (elab m) G). Qed.

(* a queued stop message belongs to a client that is waiting for it (no premise on the model) *)
Theorem C09_stop_message_has_waiting_owner : forall (m : model) a0 progs sched, let s := run (elab m) a0 progs sched in
  forall c, In (MStop c) (queue s) -> exists cl k vs, nth_error (clients s) (fst c) = Some cl /\ c_pc cl = StopWait c k vs.
Proof. intros m a0 progs sched. exact (stop_queued_reachable sem sem_slf dv (elab m) a0 progs sched). Qed.
End C09.

Print Assumptions C09_consuming_client_is_sole_owner.
Print Assumptions C09_stopped_only_by_sole_owner.
Print Assumptions C09_stop_message_has_waiting_owner.
Print Assumptions C09_moved_at_most_once.
Print Assumptions C09_handover_value.
Print Assumptions C09_after_all_earlier.
Print Assumptions C09_shared_refuses.
Print Assumptions C09_count_exact.
Print Assumptions C09_sole_owner_stops.
