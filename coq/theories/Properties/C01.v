(* C01 -- actor methods run one at a time; outcomes equal a sequential run.
   For every model m whose translated expansion satisfies wf_C01, every user type (A, V, sem), every family of client
   programs (any number of clients and clones, any calls and values) and every schedule.  Statements only. *)
From Coq Require Import List Arith.
Import ListNotations.
From IT Require Import Sdpl.IR Sdpl.Elab Sdpl.Wf Runtime.Actor Runtime.ActorInv Runtime.InvSeq Runtime.Combined.

Section C01.
Context {A V : Type} (sem : nat -> A -> list V -> option (A * V)) (sem_slf : nat -> A -> list V -> V) (dv : V).
Notation run := (run sem sem_slf dv).

(* no two methods execute on the actor at the same time *)
Theorem C01_one_at_a_time : forall (m : model), wf_C01 m = true ->
  forall a0 progs sched, length (busy_id (run (elab m) a0 progs sched)) <= 1.
Proof. intros m _ a0 progs sched. exact (one_at_a_time sem sem_slf dv (elab m) a0 progs sched). Qed.

(* the executed calls, in execution order, applied one after another to the user's own type give the actor's state
   (hence the final state) and exactly the recorded results: `applied` is the single total order *)
Theorem C01_sequential : forall (m : model), wf_C01 m = true ->
  forall a0 progs sched, let s := run (elab m) a0 progs sched in
  match actor s with
  | Some a => Replay sem a0 (applied s) a
  | None => exists a, Replay sem a0 (applied s) a
  end.
Proof. intros m _ a0 progs sched. exact (sequential_spec sem sem_slf dv (elab m) a0 progs sched). Qed.

(* that order determines state and results uniquely *)
Theorem C01_deterministic : forall a0 l (a b : A), Replay sem a0 l a -> Replay sem a0 l b -> a = b.
Proof. exact (Replay_det sem). Qed.

(* every value returned to a caller is the value the sequential run produced for that caller's own call *)
Theorem C01_returns_sequential : forall (m : model), wf_C01 m = true ->
  forall a0 progs sched, let s := run (elab m) a0 progs sched in
  forall t cl c v, nth_error (clients s) t = Some cl -> In (c, Returned v) (c_rets cl) ->
  fst c = t /\ exists callee args, In (c, callee, args, v) (applied s).
Proof.
  intros m W a0 progs sched. apply own_reply.
  unfold wf_C01 in W. apply andb_prop in W. exact (proj2 W).
Qed.

(* ... and the executed calls are the issued ones: same method, the supplied argument values by position *)
Theorem C01_same_calls : forall (m : model), wf_C01 m = true ->
  forall a0 progs sched, let s := run (elab m) a0 progs sched in
  forall c callee args r, In (c, callee, args, r) (applied s) ->
  exists k vs rm, In (c, k, vs) (issued s) /\ meth (elab m) k = Some rm /\ callee = k /\ (length vs = length (rm_args rm) -> args = vs).
Proof.
  intros m W a0 progs sched. apply executed_as_issued.
  unfold wf_C01 in W. apply andb_prop in W. destruct W as [W _]. apply andb_prop in W. destruct W as [W _].
  apply andb_prop in W. exact (proj2 W).
Qed.
End C01.

Print Assumptions C01_one_at_a_time.
Print Assumptions C01_sequential.
Print Assumptions C01_deterministic.
Print Assumptions C01_returns_sequential.
Print Assumptions C01_same_calls.
