"""C07 -- arguments reach the user method unchanged for any parameter shape or name; no capture."""
import random, re, json
import hook, inst, ir, gen_impl, coqgen
import c07_gen as G
from common import *

PID = "C07"
RULE = ("(1) flattening: Gen/Flatten.v live_args (identifiers | unsupported pattern | naming conflict) vs the crate's if_args_and_clean_pats+get_live_args_and_sig on signatures "
        "(every pattern shape of depth<=2 with <=3 binders (sampled in the quick tier) + random 0-5 parameter lists, generator-internal identifiers in every hole); "
        "(2) real expansions over method kind x lib x parameter grammar: wf_C07 on the recognised IR (kernel-checked instance lemmas), live parameter names vs the model, "
        "types vs `Self`-substituted input types, rejections vs the model / the reserved-word rules, the declarative oracle per method; regression inputs of the repaired classes; "
        "non-trivial = distinct (lib, kind, #params, pattern kinds, generator identifier used, generic, returns) classes")
IMPORTS = ("From Coq Require Import List String NArith Bool.\nImport ListNotations.\nFrom IT Require Import Gen.Flatten.\nOpen Scope string_scope.\n")
# inputs of the classes on which the crate failed before the repairs (`fixed:` lines) or still fails (`finding:` lines).
# They are ordinary corpus members: judged like every other input unless their class is LISTED as `finding:`.
REGRESSIONS = {
    "param-named-actor": [("pub fn add(&self, actor: u8) -> u8 { actor }", "ref"),
                          ("pub fn gen<G: Send + Sync + 'static>(&mut self, actor: G, k: u8) -> u8 { k }", "mut"),
                          ("pub fn fin(self, actor: u8) -> Option<u8> { None }", "slf"),
                          ("pub fn vd(&mut self, (actor,): (u8,), x: u8) {}", "mut"),
                          ("pub fn rsv(&self, inter_actor: u8) -> u8 { 0 }", "ref"),
                          ("pub fn fin2(self, inter_actor: u8) -> Option<u8> { None }", "slf")],
    "flat-name-collision": [("pub fn put(&mut self, (a, b): (u8, u8), a_b: u8) {}", "mut"),
                            ("pub fn two(&self, (..): (u8, u8), [..]: [u8; 2]) -> u8 { 0 }", "ref"),
                            ("pub fn snd(&self, (inter, send): (u8, u8)) -> u8 { 0 }", "ref"),
                            ("pub fn act(&mut self, (inter, actor): (u8, u8)) {}", "mut"),
                            ("pub fn st2((x, y): (u8, u8), x_y: u8) -> u8 { 0 }", "stat")],
    "self-assoc-path": [("pub fn arr(&self, x: [u8; Self::N]) -> u8 { 0 }", "ref")],
    "self-print-adjacent": [("pub fn pair(&self, k: [Self; 2]) -> u8 { 0 }", "ref"),
                            ("pub fn pair2(&mut self, k: &[Self; 2], j: Vec<[Self; 3]>) -> [Self; 2] { todo!() }", "mut"),
                            ("pub fn fold_it<G: Send + Sync + 'static>(&self, x: m::Rec) -> Option<Self> { None }", "ref")],
}


def known_listed():
    return {k["class"] for k in known_findings()["finding"] if k.get("property") == PID and "class" in k}


def method_of_text(text, kind):
    """signature text -> method description (the same fields gen_method produces)"""
    toks = rs_parse(text)
    it = ir.split_items(toks)[0]
    f = ir.parse_fn(it)
    return {"name": f["name"], "kind": kind, "params": f["params"], "ret": f["ret"] or None, "async": f["async"], "generic": bool(f["generics"]),
            "text": text, "negative": None, "pkinds": []}


def rs_parse(text):
    import rs
    return rs.parse(text)


def fill(shape, names):
    out, i = [], 0
    for part in re.split(r"(%s)", shape):
        if part == "%s":
            out.append(names[i])
            i += 1
        else:
            out.append(part)
    return "".join(out)


def signatures(rng, tier):
    """list of parameter lists [(pat, ty)] for the function-level tie"""
    sigs = []
    all_shapes = list(dict.fromkeys(G.shapes(2, 3)))
    d1 = list(dict.fromkeys(G.shapes(1, 3)))
    pool = G.PLAIN + G.RESERVED + G.ODD
    chosen = d1 + (rng.sample(all_shapes, min(len(all_shapes), 700)) if tier == "quick" else all_shapes[:24000])
    for sh, nb in chosen:
        names = rng.sample(pool, nb)
        sigs.append([(fill(sh, names), rng.choice(["u8", "(u8, u8)", "P", "Self", "Vec<Self>"]))])
    # every generator-internal identifier in every hole of a few fixed shapes
    for r in G.RESERVED:
        for sh in ("%s", "mut %s", "(%s, %s)", "(%s, .., %s)", "T(%s)", "P { f0: %s, .. }", "P { %s, %s }", "[%s, %s @ ..]", "((%s,), [%s])"):
            k = sh.count("%s")
            for pos in range(k):
                names = rng.sample(G.PLAIN, k)
                names[pos] = r
                sigs.append([(fill(sh, names), "u8"), (rng.choice(G.PLAIN) + "9", "Self")])
    # several parameters destructuring the same struct with renamed fields: the flattened names come from the bound variables, not from the field names
    for a, b, c, d in (("a", "b", "c", "x"), ("x1", "y1", "x2", "y2"), ("val", "key", "item", "n")):
        sigs.append([("P { f0: %s, f1: %s }" % (a, b), "P"), ("P { f0: %s, f1: %s }" % (c, d), "P")])
        sigs.append([("P { f0: %s, .. }" % a, "P"), ("f0", "u8"), ("P { f1: %s, .. }" % b, "P"), ("f1", "u8")])
        sigs.append([("P { f0: mut %s, f1: ref %s }" % (a, b), "P"), ("T(%s, %s)" % (c, d), "T")])
    # random 0..5 parameter lists, some with unsupported patterns
    for i in range(300 if tier == "quick" else 6000):
        m = G.gen_method(rng, "f", "std", kind="stat", negative=("pattern" if rng.random() < 0.12 else None))
        sigs.append(m["params"])
    return sigs


def flatten_tie(rep, rng):
    sigs = signatures(rng, rep.tier)
    jobs = [("fn:live_args", ["", "fn f(&self%s)" % "".join(", %s: %s" % (p, t) for p, t in ps)]) for ps in sigs]
    real = hook.run_parallel(jobs, tag="c07f", shards=12)
    if real is None:
        raise Infra("fn:live_args batch timed out")
    model = {}
    for lo in range(0, len(sigs), 1000):
        items = [("s%d" % k, G.MODEL_EXPR % G.coq_params(sigs[k])) for k in range(lo, min(lo + 1000, len(sigs)))]
        model.update(inst.coq_values("C07_flat_%d" % (lo // 1000), IMPORTS, items))
    rep.checker_cmds.append("coqc generated/C07_flat_*.v (Gen/Flatten.v live_args evaluated by vm_compute)")
    bad, nfound = 0, 0
    for k, (ps, (cls, fields)) in enumerate(zip(sigs, real)):
        rep.evaluations += 1
        wcls, want = G.parse_coq_result(model["s%d" % k])
        pts = [G.pat_of_text(p) for p, _ in ps]
        rep.count("flatten_params", str(len(ps)))
        rep.count("flatten_model_outcome", ["identifiers", "unsupported pattern", "naming conflict"][wcls])
        for pt in pts:
            rep.count("flatten_pattern", pt[0])
        if cls == "VALUE":
            got = [f.split("\t")[0] for f in fields]
            gty = [f.split("\t")[1] if "\t" in f else "" for f in fields]
            gcls = 0
        else:
            got, gty = None, []
            gcls = {"collision": 2, "pattern": 1}.get(diag_class((fields or [""])[0]), 1 if cls == "PANIC" else 9)
        ok = gcls == wcls and got == want and (got is None or [G.norm_ty(t) for t in gty] == [G.norm_ty(t) for _, t in ps])
        rep.oblige(ok)
        rep.nontrivial.add(("flat", tuple(pt[0] for pt in pts), gcls, tuple(n for n in (got or []) if n in G.RESERVED)))
        if k % 400 == 0:
            rep.sample({"signature": jobs[k][1][1], "model": [wcls, want], "real": [gcls, got]})
        if ok:
            continue
        bad += 1
        # oracle on the real output: one identifier per parameter, same position, same type, the user's name for identifier
        # patterns, identifiers pairwise distinct and not a generated binder; documented, non-colliding lists must be accepted
        probs = []
        sup = all(G.supported_param(pt) for pt in pts)
        cn = G.class_names(ps)
        clash = len(set(cn)) != len(cn) or any(pt[0] != "id" and n in G.RESERVED_FLAT for pt, n in zip(pts, cn))
        if got is None and sup and not clash:
            probs.append("a parameter list inside the documented pattern forms, without a naming conflict, is rejected: %s %s" % (cls, (fields or [""])[0][:300]))
        if got is not None:
            if len(got) != len(ps):
                probs.append("%d identifiers for %d parameters" % (len(got), len(ps)))
            else:
                for i, (pt, (p, t)) in enumerate(zip(pts, ps)):
                    if pt[0] == "id" and got[i] != pt[3]:
                        probs.append("parameter %d `%s` renamed to `%s`" % (i, p, got[i]))
                    if pt[0] != "id" and got[i] in G.RESERVED_FLAT:
                        probs.append("parameter %d `%s` is flattened to the generated binder `%s`" % (i, p, got[i]))
                    if G.norm_ty(gty[i]) != G.norm_ty(t):
                        probs.append("parameter %d type `%s` became `%s`" % (i, t, gty[i]))
                if len(set(got)) != len(got):
                    probs.append("distinct parameters share an identifier: %s" % got)
        nfound += 1 if probs else 0
        if (probs and nfound > 8) or (not probs and bad - nfound > 5):
            continue
        rep.violation("flatten_%d" % k, {"what": probs or ["model (Gen/Flatten.v live_args) and get_live_args_and_sig disagree; the oracle holds on the real output (model drift)"],
                                         "input": jobs[k][1][1], "expected": [wcls, want], "observed": [gcls, got] if got is not None else [cls] + [f[:300] for f in fields],
                                         "theorem": "correspondence of C07_flatten_positions / C07_flatten_names / C07_flatten_total / C07_distinct_or_diag with the crate"}, found=bool(probs))
    return len(sigs)


def impl_configs(rng, tier):
    cs = []
    names = ["inc", "add", "get", "put", "swap", "scan", "fold_it", "q1", "zed", "mix"]

    def mk(lib, methods, generic_actor, debut, chan, label):
        hdr, aty = ("impl<Q: Send + Sync + 'static> A<Q>", "A<Q>") if generic_actor else ("impl A", "A")
        g = G.G(rng, [x for x in G.PLAIN + G.RESERVED if x not in G.WORDS_ALL])
        ctor_params = [G.gen_param(g, rng, G.SCALARS, None if rng.random() < 0.3 else "ident")[:2] for _ in range(rng.choice([0, 1, 2]))]
        cn = G.class_names(ctor_params)
        if len(set(cn)) != len(cn):          # keep the constructor free of naming conflicts
            ctor_params = ctor_params[:1]
        if any(G.pat_of_text(p)[0] != "id" and n in G.RESERVED_FLAT for (p, _), n in zip(ctor_params, G.class_names(ctor_params))):
            ctor_params = []
        ctor = "pub fn new(%s) -> Self { todo!() }" % ", ".join("%s: %s" % pt for pt in ctor_params)
        item = "%s {\n    %s\n%s\n}" % (hdr, ctor, "\n".join("    " + m["text"] for m in methods))
        return {"kind": "actor", "lib": lib, "attr": gen_impl.actor_attr(lib, chan, debut=debut), "item": item, "methods": methods, "actor_sub": aty,
                "actor_ty": "A", "label": label, "ctor_params": ctor_params, "debut": debut}

    # (a) every generator identifier in every single position x method kind
    directed = []
    shapes = ["%s", "mut %s", "(%s, %s)", "T(%s, ..)", "P { %s, .. }", "P { f0: %s, f1: %s }", "[%s, .., %s]"]
    kinds = [("ref", "u8", False), ("mut", None, False), ("ref", "u8", True), ("stat", "u8", False), ("slf", "Option<u8>", False)]
    k = 0
    for r in G.RESERVED:
        for sh in shapes:
            for (kind, ret, generic) in (kinds if tier != "quick" else [kinds[(k + j) % 5] for j in range(3)]):
                k += 1
                holes = sh.count("%s")
                nm = rng.sample(G.PLAIN, holes + 2)
                pos = k % holes
                hole_names = nm[:holes]
                hole_names[pos] = r
                params = [(fill(sh, hole_names), "u8" if holes == 1 and sh in ("%s", "mut %s") else "P")]
                where = k % 3
                extra = [(nm[holes], "u8"), (nm[holes + 1], "Self")]
                params = (extra[:where] + params + extra[where:])
                recv = {"ref": "&self", "mut": "&mut self", "stat": "", "slf": "self"}[kind]
                gtxt = "<G: Send + Sync + 'static>" if generic else ""
                if generic:
                    params.append(("gq", "G"))
                name = "m%d" % k
                txt = "pub fn %s%s(%s)%s { todo!() }" % (name, gtxt, ", ".join(([recv] if recv else []) + ["%s: %s" % p for p in params]), (" -> " + ret) if ret else "")
                directed.append({"name": name, "kind": kind, "params": params, "pkinds": [], "ret": ret, "async": False, "generic": generic, "text": txt, "negative": None, "reserved": r})
    rng.shuffle(directed)
    per = 4
    rejected = [m for m in directed if G.py_reject(m)]        # reserved words / flattened reserved names: one block each, a diagnostic is expected
    directed = [m for m in directed if not G.py_reject(m)]
    for i in range(0, len(directed), per):
        lib = gen_impl.LIBS[(i // per) % 4]
        cs.append(mk(lib, directed[i:i + per], generic_actor=(i // per) % 5 == 0, debut=(i // per) % 3 == 0, chan=[None, 2][(i // per) % 2], label="directed_%d" % (i // per)))
    for i, m in enumerate(rejected):
        cs.append(mk(gen_impl.LIBS[i % 4], [m], generic_actor=False, debut=i % 3 == 0, chan=None, label="directed_reject_%d" % i))
    # (b) random impl blocks
    nrand = 45 if tier == "quick" else 260
    for lib in gen_impl.LIBS:
        for j in range(nrand):
            neg = None
            r = rng.random()
            if r < 0.08:
                neg = "pattern"
            elif r < 0.14:
                neg = "inter"
            nm = rng.sample(names, rng.randint(1, 3))
            ms = []
            for q, n in enumerate(nm):
                kind = rng.choice(["ref", "ref", "mut", "mut", "stat", "slf", "slfmut"])
                if any(m["kind"] in ("slf", "slfmut") for m in ms) and kind in ("slf", "slfmut"):
                    kind = "ref"
                m = G.gen_method(rng, n, lib, kind=kind, negative=(neg if q == 0 else None))
                if lib == "std" and m["async"]:
                    continue
                ms.append(m)
            if not ms:
                continue
            cs.append(mk(lib, ms, generic_actor=rng.random() < 0.25, debut=rng.random() < 0.4, chan=rng.choice([None, None, 1, 3]), label="random_%s_%d" % (lib, j)))
    return cs


def expected_diag(c, model):
    """which rule (if any) makes the macro reject this impl block: the model's outcome of the flattening (Gen/Flatten.v) per method and
    for the constructor, and the reserved-word rules"""
    why = []
    for tag, nm, m in [("c%d_m%d" % (c["idx"], mi), m["name"], m) for mi, m in enumerate(c["methods"])] + [("c%d_new" % c["idx"], "new", None)]:
        cls = model[tag][0]
        if cls:
            why.append((["", "pattern", "collision"][cls], nm))
        if m is not None:
            why += [(w, nm) for w in sorted(G.word_reject(m))]
    return why


def diag_class(text):
    if "carried under one identifier" in text:
        return "collision"
    if "`inter_actor` is reserved" in text:
        return "inter_actor"
    if "Naming conflict" in text:
        return "inter"
    if "Unexpected pattern" in text:
        return "pattern"
    return "other"


def interact_part(rep, rng):
    """arguments of `interact` methods: model-supplied variables (getters, a channel end) may stand anywhere in the user's parameter list;
    the user method must still be called with every value at the position of the parameter it was declared for.  Inputs and the
    projection of the real expansion are those of C14's H-tie; the oracle here is C07's (delivery by position)."""
    import itertools
    import C14
    placements = [k for n in (1, 2, 3) for k in itertools.product("OPGE", repeat=n) if k.count("E") <= 1]
    cases = []
    for j, kinds in enumerate(placements):
        for r in range(1 if rep.tier == "quick" else 4):
            cases.append(C14.mk_case(rng, kinds, gen_impl.LIBS[(j + r) % 4], irregular=False, interact=True, ret=(False if "E" in kinds else None)))
    res = hook.run_parallel([("actor", [C14.attr_of(c), C14.item_of([c])]) for c in cases], tag="c07i", shards=8)
    if res is None:
        raise Infra("interact expansion batch timed out")
    for i, (c, (cls, f)) in enumerate(zip(cases, res)):
        rep.evaluations += 1
        rep.count("interact_placement", c["kinds"])
        rep.nontrivial.add(("interact", c["kinds"], bool(c["ret"])))
        real = C14.real_projection(cls, f[0] if f else "", c)
        if real["cls"] != "OK":
            continue            # refusals and unrecognised shapes are C14's / C19's business
        want = ["_".join(C14.leaves(q["tree"])) or "__" for q in c["params"]]
        keep = [w for w, q in zip(want, c["params"]) if q["kind"] not in "GE"]
        rd = real["routing_detail"]
        probs = []
        if rd["call_args"] != want:
            probs.append("the user method is called with %s, its parameters are declared in the order %s" % (rd["call_args"], want))
        if sorted(rd["msg"] or []) != sorted(want) or sorted(rd["binds"] or []) != sorted(want):
            probs.append("message fields %s / arm bindings %s are not exactly the parameters %s" % (rd["msg"], rd["binds"], want))
        # a model-supplied variable is filled from the getter its name spells: `inter_<word>` <- `inter_get_<word>` (one marker removed)
        want_get = ["g:%s:inter_get_%s" % (q["tree"][1], q["tree"][1][6:]) for q in c["params"] if q["kind"] == "G"]
        if [x for x in real["pre"] if x.startswith("g:")] != want_get:
            probs.append("model-supplied parameters are filled from %s, expected %s" % ([x for x in real["pre"] if x.startswith("g:")], want_get))
        if [n for n, _ in real["params"]] != keep:
            probs.append("handle parameters %s are not the caller-supplied parameters %s in their order" % ([n for n, _ in real["params"]], keep))
        if not rep.oblige(not probs):
            rep.violation("interact_%d_%s" % (i, c["kinds"]), {"what": probs, "attr": C14.attr_of(c), "item": C14.item_of([c]), "lib": c["lib"],
                          "expected": "every argument reaches the parameter it was passed for (positions %s)" % want, "observed": real}, found=True)


def run(rep):
    rng = random.Random(rep.seed)
    rep.extra["rule"] = RULE
    listed = known_listed()
    # 1. universal theorems
    nthm, problems, _ = property_theorems(PID)
    rep.checker_cmds.append("make -C coq theories/Properties/C07.vo (Print Assumptions must be closed)")
    for _ in range(nthm):
        rep.oblige(not problems)
    bad = hygiene()
    rep.oblige(not bad)
    if problems or bad:
        rep.violation("theorems", {"what": "property theorem file no longer checks", "problems": problems, "hygiene": bad}, found=False)
    # 2. function-level tie of the flattening model
    flatten_tie(rep, rng)
    interact_part(rep, random.Random(rep.seed + 7))
    # 3. real expansions
    cs = impl_configs(rng, rep.tier)
    wit = []
    for cls_, ws in REGRESSIONS.items():
        for text, kind in ws:
            m = method_of_text(text, kind)
            extra = " const N: usize = 2;" if "Self::N" in text else ""
            wit.append({"kind": "actor", "lib": "std", "attr": "", "item": "impl A {%s\n pub fn new() -> Self { todo!() }\n %s\n}" % (extra, text), "methods": [m], "actor_sub": "A",
                        "actor_ty": "A", "label": "regress_%s_%s" % (cls_, m["name"]), "ctor_params": [], "witness": cls_, "debut": False})
    cs = wit + cs
    inst.expand_configs(cs, tag="c07")
    # the model's outcome of the flattening for every user method and every constructor
    name_items = []
    for ci, c in enumerate(cs):
        c["idx"] = ci
        for mi, m in enumerate(c["methods"]):
            name_items.append(("c%d_m%d" % (ci, mi), G.MODEL_EXPR % G.coq_params(m["params"])))
        name_items.append(("c%d_new" % ci, G.MODEL_EXPR % G.coq_params(c.get("ctor_params", []))))
    model = {}
    for lo in range(0, len(name_items), 1000):
        model.update({k: G.parse_coq_result(v) for k, v in inst.coq_values("C07_names_%d" % (lo // 1000), IMPORTS, name_items[lo:lo + 1000]).items()})
    terms, owners = [], []
    seen_known = {}
    regress_status = {}
    for ci, c in enumerate(cs):
        rep.evaluations += 1
        rep.count("lib", c["lib"])
        exp = expected_diag(c, model)
        kc = set().union(*[G.known_classes(m, listed) for m in c["methods"]]) if c["methods"] else set()
        if "witness" in c:
            regress_status[c["label"]] = "not judged (class listed as finding)" if c["witness"] in listed else "ok"
        for m in c["methods"]:
            for rc in G.regression_classes(m):
                rep.count("regression_class_inputs", rc)
            rep.count("method_kind", m["kind"] + ("+generic" if m["generic"] else "") + ("+ret" if m["ret"] else ""))
            rep.count("params", str(len(m["params"])))
            for p, t in m["params"]:
                pt = G.pat_of_text(p)
                rep.count("pattern", pt[0])
                for nm in (G.leaves(pt) or []):
                    if nm in G.RESERVED:
                        rep.count("generator_identifier_as_parameter", nm)
                if "Self" in t:
                    rep.count("self_type", G.norm_ty(t))
        if c["class"] != "TOKENS":
            got = diag_class(c["text"]) if c["class"] == "DIAG" else c["class"]
            if exp and got in [e[0] for e in exp]:
                rep.oblige(True)
                rep.count("rejected_as_expected", got)
                rep.nontrivial.add(("rejected", got, c["lib"], tuple(sorted(m["kind"] for m in c["methods"]))))
                continue
            if "self-assoc-path" in kc and "model::replace" in c["text"]:
                rep.oblige(True)
                seen_known.setdefault("self-assoc-path", []).append((c, "a parameter / return type mentioning `Self::` makes the macro abort: " + " ".join(c["text"].split())[:200]))
                continue
            rep.oblige(False)
            if "witness" in c:
                regress_status[c["label"]] = "FAILS"
            # shrink: which single method is rejected
            single = hook.run_parallel([("actor", [c["attr"], c["item"][:c["item"].index("{")] + "{\n pub fn new() -> Self { todo!() }\n %s\n}" % m["text"]]) for m in c["methods"]], tag="c07s")
            culprit = [m["text"] for m, r in zip(c["methods"], single or []) if r[0] != "TOKENS"]
            rep.violation("rejected_" + c["label"], {"what": "an impl block inside the documented envelope (supported patterns, no naming conflict, no reserved inter_ name) is not expanded; the rules expected %s" % (exp or "an expansion"),
                                                     "class": c["class"], "attr": c["attr"], "item": c["item"], "methods_rejected_alone": culprit, "output": c["text"][:1500],
                                                     "expected": "an expansion whose handle methods pass every argument by position"}, found=True)
            continue
        ms = inst.coq_models(c)
        if c["ex"] is None or len(ms) != 1 or ms[0] is None:
            rep.oblige(False)
            rep.violation("shape_" + c["label"], {"what": "expansion not recognised as one model", "attr": c["attr"], "item": c["item"], "errors": c.get("render_errors"),
                                                  "parse_error": c.get("parse_error")}, found=False)
            continue
        k = len(terms)
        terms.append(ms[0])
        owners.append(c)
    # Coq: premise + per-method facts on the real IR
    res, mod = inst.coq_eval(PID, terms, [("wf", "wf_C07 {i}"), ("facts", "c07_facts {i}")], extra_imports="From IT Require Import Sdpl.WfC07 Runtime.Combined.\n")
    rep.checker_cmds.append("coqc generated/C07_inst.v; coqc generated/C07_names_*.v; coqc generated/C07_oblig.v")
    good = []
    for k, (c, r) in enumerate(zip(owners, res)):
        mdl = c["ex"]["models"][0]
        facts = {n: (a == "true", b_ == "true", d == "true") for n, a, b_, d in re.findall(r'\("([^"]*)", (true|false), (true|false), (true|false)\)', r["facts"])}
        exp = expected_diag(c, model)
        inst_ok = r["wf"] == "true"
        failing_unknown = False
        any_known = False
        for mi, m in enumerate(c["methods"]):
            rep.evaluations += 1
            kc = G.known_classes(m, listed)
            probs = G.oracle_method(m, mdl, c["actor_sub"], mdl["direct"]["param"] if mdl.get("direct") else "")
            want = model["c%d_m%d" % (c["idx"], mi)][1]
            lm = [x for x in mdl["methods"] if x.get("name") == m["name"]]
            got = [p for p, _ in lm[0].get("params", [])] if len(lm) == 1 else None
            f = facts.get(m["name"], (False, False, False))
            static_ok = all(f)
            names_ok = want is not None and got == want
            cls = (c["lib"], m["kind"], len(m["params"]), tuple(sorted({G.pat_of_text(p)[0] for p, _ in m["params"]})), m.get("reserved") or tuple(sorted(set(got or []) & set(G.RESERVED))),
                   m["generic"], m["ret"] is not None, any("Self" in t for _, t in m["params"]))
            rep.nontrivial.add(cls)
            if (k + mi) % 61 == 0:
                rep.sample({"method": m["text"], "lib": c["lib"], "live_parameters": got, "model_parameters": want, "wf_C07_facts(route,reply,meth_ok)": f, "oracle": probs or "holds"})
            if not probs and static_ok and names_ok:
                rep.oblige(True)
                continue
            if kc:
                # input in a listed known-finding class: either outcome is accepted here, the witnesses decide what is printed
                rep.oblige(True)
                any_known = True
                if probs:
                    for cl in kc:
                        seen_known.setdefault(cl, []).append((c, "%s: %s" % (m["text"], "; ".join(probs)[:300])))
                continue
            rep.oblige(False)
            failing_unknown = True
            if "witness" in c:
                regress_status[c["label"]] = "FAILS"
            if probs:
                rep.violation("method_%s_%s" % (c["label"], m["name"]), {"what": probs, "input_method": m["text"], "attr": c["attr"], "item": c["item"], "lib": c["lib"],
                              "expected": "handle parameters %s passed by position to the user method `%s`, receiver = the actor, result sent back on the call's own oneshot" % (want, m["name"]),
                              "observed": {"live_parameters": got, "live_body": lm[0]["body_ir"] if lm else None,
                                           "arm": [a for a in (mdl["direct"]["arms"] if mdl.get("direct") else []) if a[0] == "ArmStruct" and a[1].lower().replace("_", "") == m["name"].lower().replace("_", "")]},
                              "wf_C07_facts(route,reply,meth_ok)": f}, found=True)
            else:
                rep.violation("drift_%s_%s" % (c["label"], m["name"]), {
                    "what": "the oracle holds on the real expansion but " + ("the parameter names differ from Gen/Flatten.v live_args" if not names_ok else "the premise wf_C07 fails for this method"),
                    "input_method": m["text"], "attr": c["attr"], "item": c["item"], "model_parameters": want, "live_parameters": got, "wf_C07_facts(route,reply,meth_ok)": f,
                    "theorem": "C07_arguments_unchanged premise / correspondence of C07_flatten_names"}, found=False)
        if exp and not failing_unknown:
            # the model expected a rejection, the macro expanded, and every method passes the oracle: correspondence broken without a failing input
            rep.oblige(False)
            if "witness" in c:
                regress_status[c["label"]] = "FAILS"
            rep.violation("accepted_" + c["label"], {"what": "Gen/Flatten.v / the reserved-name rule predict a rejection %s but the macro expanded the block" % exp, "item": c["item"], "attr": c["attr"]}, found=False)
            continue
        if inst_ok:
            good.append(k)
        elif not failing_unknown and not any_known:
            rep.oblige(False)
            rep.violation("inst_" + c["label"], {"what": "instance premise wf_C07 = false although every user method passes (constructor / skeleton / unrecognised shape)", "attr": c["attr"], "item": c["item"],
                                                 "facts": r["facts"], "unknown": c["ex"].get("unknown")}, found=False)
    ok, out = inst.prove_instances(PID, mod, good, "wf_C07",
                                   ["fun (A V : Type) sem sem_slf dv => @C07_arguments_unchanged A V sem sem_slf dv {i} {w}",
                                    "fun (A V : Type) sem sem_slf dv => @C07_result_unchanged A V sem sem_slf dv {i} {w}",
                                    "C07_static_delegates {i} {w}", "C07_slf_delegates {i} {w}"],
                                   extra_imports="From IT Require Import Sdpl.WfC07 Runtime.Combined Properties.C07.\n")
    for _ in good:
        rep.oblige(ok)
    if not ok:
        rep.violation("obligations", {"what": "kernel rejected instance lemmas", "output": out[-2000:]}, found=False)
    rep.extra["instances_proved"] = len(good)
    # the regression inputs of the repaired classes that expand must be among the kernel-checked instances
    for k, c in enumerate(owners):
        if "witness" in c and c["witness"] not in listed and regress_status.get(c["label"]) == "ok" and k not in good:
            regress_status[c["label"]] = "expanded but wf_C07 = false"
    rep.extra["regression_inputs"] = regress_status
    # 4. known findings: the witnesses decide
    for cl in sorted(listed):
        ws = [x for x in seen_known.get(cl, []) if x[0].get("witness") == cl]
        failing = {x[0]["label"] for x in ws}
        for c in cs:
            if c.get("witness") == cl:
                rep.extra.setdefault("witness_status", {})[c["label"]] = "still fails" if c["label"] in failing else "passes"
                if c["label"] not in failing:
                    rep.notes.append("witness %s of known finding class %s passes on this tree" % (c["label"], cl))
        if ws:
            rep.known_finding("%s: %s" % (cl, ws[0][1]))
        else:
            rep.notes.append("known finding class %s: its witnesses no longer fail on this tree (candidate for a `fixed:` line)" % cl)
        rep.extra.setdefault("known_class_inputs", {})[cl] = len(seen_known.get(cl, []))
    rep.assumptions += ["no `interact` option (channel-end parameters are C14's subject); public methods only; no typed `self: T` receivers, no cfg attributes on methods, no raw identifiers",
                        "struct-pattern field NAMES are never inter_send / inter_recv (the crate's textual reserved-word test would reject them although they bind nothing)",
                        "flattened identifiers other than the user's own (composite patterns) are not prescribed by the documentation: the oracle demands one distinct identifier per parameter, "
                        "the model (binders joined by `_`) is compared as correspondence",
                        "rustc's type checker guarantees a call supplies as many values as the handle method declares parameters (hypothesis `length vs = length (lm_params lm)`)",
                        "channel / oneshot / spawn primitives behave as defined in Runtime/Actor.v (modelled, not verified)",
                        "inputs of a class LISTED as `finding:` in known_findings.txt (currently: self-assoc-path, a type mentioning `Self::`) are not judged; the repaired classes "
                        "param-named-actor, flat-name-collision, self-print-adjacent are ordinary regression inputs (recurrence = VIOLATION)"]
