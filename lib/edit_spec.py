"""C15: `edit` specifications -- python AST of the documented grammar, renderers (Rust attribute text, Coq terms of
IT.Gen.Edit), an independent oracle written from the crate documentation, seeded generators and a recogniser of the item /
method / trait structure of real `code` / `edit` token strings."""
import random
import rs, ir

# AST --------------------------------------------------------------------------------------------------------------
# nitem : ("n", name) | ("nf", [names])
# sect  : ("def",) | ("imp", None | [nitem]) | ("trt", None | [nitem])
# sitem : ("s", sect) | ("sf", [sect])
# part  : ("script" | "live", None | [sitem])
# eitem : ("p", part) | ("pf", [part])
# edit  : ("bare",) | ("filebare",) | ("list", [eitem])          family: ("bare",) | ("filebare",) | ("flist", [sitem])
# meta  : ("path", n) | ("list", n, [meta]) | ("nv", n)


def m_nitem(x):
    return ("path", x[1]) if x[0] == "n" else ("list", "file", [("path", n) for n in x[1]])


def m_sect(s):
    if s[0] == "def":
        return ("path", "def")
    return ("path", s[0]) if s[1] is None else ("list", s[0], [m_nitem(x) for x in s[1]])


def m_sitem(x):
    return m_sect(x[1]) if x[0] == "s" else ("list", "file", [m_sect(s) for s in x[1]])


def m_part(p):
    return ("path", p[0]) if p[1] is None else ("list", p[0], [m_sitem(x) for x in p[1]])


def m_eitem(x):
    return m_part(x[1]) if x[0] == "p" else ("list", "file", [m_part(p) for p in x[1]])


def to_meta(e):
    if e[0] == "bare":
        return ("path", "edit")
    if e[0] == "filebare":
        return ("list", "edit", [("path", "file")])
    if e[0] == "list":
        return ("list", "edit", [m_eitem(x) for x in e[1]])
    return ("list", "edit", [m_sitem(x) for x in e[1]])  # flist


def meta_text(m):
    if m[0] == "path":
        return m[1]
    if m[0] == "nv":
        return '%s = 3' % m[1]
    return "%s(%s)" % (m[1], ", ".join(meta_text(x) for x in m[2]))


def cs(x):
    return '"%s"' % x


def clist(xs):
    return "[" + "; ".join(xs) + "]"


def meta_coq(m):
    if m[0] == "path":
        return "(MPath %s)" % cs(m[1])
    if m[0] == "nv":
        return "(MNV %s)" % cs(m[1])
    return "(MList %s %s)" % (cs(m[1]), clist(meta_coq(x) for x in m[2]))


def c_nitem(x):
    return "(NName %s)" % cs(x[1]) if x[0] == "n" else "(NFile %s)" % clist(cs(n) for n in x[1])


def c_sect(s):
    if s[0] == "def":
        return "SDef"
    k = "SImp" if s[0] == "imp" else "STrt"
    return "(%s None)" % k if s[1] is None else "(%s (Some %s))" % (k, clist(c_nitem(x) for x in s[1]))


def c_sitem(x):
    return "(SSect %s)" % c_sect(x[1]) if x[0] == "s" else "(SFileS %s)" % clist(c_sect(s) for s in x[1])


def c_part(p):
    b = "true" if p[0] == "script" else "false"
    return "(PSol %s None)" % b if p[1] is None else "(PSol %s (Some %s))" % (b, clist(c_sitem(x) for x in p[1]))


def c_eitem(x):
    return "(EPart %s)" % c_part(x[1]) if x[0] == "p" else "(EFile %s)" % clist(c_part(p) for p in x[1])


def ast_coq(e):
    if e[0] == "bare":
        return "EBare"
    if e[0] == "filebare":
        return "EFileBare"
    return "(EList %s)" % clist(c_eitem(x) for x in e[1])


def fam_coq(e):
    if e[0] == "bare":
        return "FBare"
    if e[0] == "filebare":
        return "FFileBare"
    return "(FList %s)" % clist(c_sitem(x) for x in e[1])


# oracle (from the documentation of `edit` / `file`, src/lib.rs "# edit", "# file", error::AVAIL_EDIT, HELP_EDIT_FILE_ACTOR) -------
# A specification names, per struct (script / live; the family struct for family level):
#   def -> the definition; imp -> all methods, imp(a, b) -> exactly a and b; trt likewise; `script` = script(def, imp, trt);
#   `edit` = edit(script, live).  A part is written to the file iff it (or a level enclosing it) is wrapped in file(..).
#   Each of script/live, def/imp/trt and each name may be declared once in its scope; file(..) must not be nested.

def _sects(items, f):
    out = []
    for x in items:
        if x[0] == "s":
            out.append((x[1], f, False))
        else:
            out += [(s, True, f) for s in x[1]]          # third: nested file
    return out


def oracle_sects(items, f):
    """-> None if illegal, else dict def/imp/trt: absent None | ('all', file) | ('names', [(n, file)])  (def: (file,))"""
    res = {"def": None, "imp": None, "trt": None}
    if not items:
        return None                       # `script()` / `edit()` at family level: an empty list is rejected
    if any(x[0] == "sf" and not x[1] for x in items):
        return None                       # `file()`
    for s, fl, nested in _sects(items, f):
        if nested:
            return None
        if res[s[0]] is not None:
            return None
        if s[0] == "def":
            res["def"] = ("all", fl)
        elif s[1] is None:
            res[s[0]] = ("all", fl)
        else:
            names = []
            if not s[1]:
                return None               # `imp()` / `trt()`
            for x in s[1]:
                if x[0] == "n":
                    names.append((x[1], fl))
                else:
                    if fl:
                        return None
                    if not x[1]:
                        return None       # `file()` among the names
                    names += [(n, True) for n in x[1]]
            if len(set(n for n, _ in names)) != len(names):
                return None
            res[s[0]] = ("names", names)
    return res


ALL = lambda f: {"def": ("all", f), "imp": ("all", f), "trt": ("all", f)}
NONE = lambda: {"def": None, "imp": None, "trt": None}


def oracle_spec(e):
    """actor-level specification -> None (must be rejected) | 'outside' (not in the documented grammar: no demand) |
    {'script': sects, 'live': sects, 'remove': bool}"""
    if e[0] == "bare":
        return {"script": ALL(False), "live": ALL(False), "remove": False}
    if e[0] == "filebare":
        return {"script": ALL(True), "live": ALL(True), "remove": True}
    out = {"script": None, "live": None, "remove": False}
    if not e[1]:
        return None                       # `edit()`
    parts = []
    bad = False
    for x in e[1]:
        if x[0] == "p":
            parts.append((x[1], False))
        else:
            if not x[1]:
                bad = True                # `file()`
            parts += [(p, True) for p in x[1]]
    for p, f in parts:
        if out[p[0]] is not None:
            bad = True
            continue
        if p[1] is None:
            out[p[0]] = ALL(f)
        else:
            if f and any(x[0] == "sf" for x in p[1]):
                bad = True
                out[p[0]] = NONE()
                continue
            r = oracle_sects(p[1], f)
            if r == "outside":
                return "outside"
            if r is None:
                bad = True
                r = NONE()
            out[p[0]] = r
    if bad:
        return None
    for k in ("script", "live"):
        if out[k] is None:
            out[k] = NONE()
    return out


def oracle_fam(e):
    if e[0] == "bare":
        return ALL(False)
    if e[0] == "filebare":
        return ALL(True)
    return oracle_sects(e[1], False)


def oracle_split(sects, part):
    """part = {'def': bool, 'mets': [names], 'trts': [names]} -> None if a listed name matches nothing, else
    (emitted part, withheld part, file part) as dicts of the same shape (file lists as sets: order not documented)"""
    em = {"def": part["def"], "mets": list(part["mets"]), "trts": list(part["trts"])}
    wh = {"def": False, "mets": [], "trts": []}
    fi = {"def": False, "mets": [], "trts": []}
    if sects["def"] is not None and part["def"]:
        em["def"] = False
        wh["def"] = True
        fi["def"] = sects["def"][1]
    for key, fld in (("imp", "mets"), ("trt", "trts")):
        s = sects[key]
        if s is None:
            continue
        if s[0] == "all":
            wh[fld] = list(part[fld])
            em[fld] = []
            if s[1]:
                fi[fld] = list(part[fld])
        else:
            for n, f in s[1]:
                if n not in part[fld]:
                    return None
            named = [n for n, _ in s[1]]
            em[fld] = [n for n in part[fld] if n not in named]
            wh[fld] = [n for n in part[fld] if n in named]
            fi[fld] = [n for n, f in s[1] if f]
    return em, wh, fi


def part_items(p, as_set=False):
    """projection of a part to the item sequence: def ; imp(m, ..) ; trt(t) .."""
    out = []
    if p["def"]:
        out.append("def")
    if p["mets"]:
        out.append("imp(%s)" % ",".join(sorted(p["mets"]) if as_set else p["mets"]))
    ts = sorted(p["trts"]) if as_set else p["trts"]
    out += ["trt(%s)" % t for t in ts]
    return out


# recogniser of real token strings ---------------------------------------------------------------------------------------

def recognise(text):
    """token string of a syn::File -> list of (kind, type name, names) with kind in def|imp|trt, in order; None if unparseable"""
    toks = rs.parse(text)
    out = []
    for it in ir.split_items(toks):
        kw = it["kw"]
        if kw in ("enum", "struct"):
            out.append(("def", it["header"][1].s, []))
        elif kw == "impl":
            gen, trait, ty, where = ir.impl_header(it["header"])
            tn = ir.type_name(ty)
            if trait is None:
                names = []
                for sub in ir.split_items(it["body"].sub):
                    f = ir.parse_fn(sub)
                    if f is None:
                        return None
                    names.append(f["name"])
                out.append(("imp", tn, names))
            else:
                tr = [t.s for t in rs.parse(trait) if t.k == "id"]
                out.append(("trt", tn, [tr[-1] if tr else "?"]))
        else:
            return None
    return out


def proj_seq(rec):
    """item sequence without type names (what Gen/Edit.v `show_items` prints)"""
    out = []
    for k, _, names in rec:
        out.append("def" if k == "def" else "%s(%s)" % (k, ",".join(names)))
    return ";".join(out)


def parts_of(rec):
    """group a recognised full model (no edit) into parts by type name, in order of first appearance:
    [(type name, {'def':bool,'mets':[..],'trts':[..]})]"""
    order, parts = [], {}
    for k, tn, names in rec:
        if tn not in parts:
            parts[tn] = {"def": False, "mets": [], "trts": []}
            order.append(tn)
        if k == "def":
            parts[tn]["def"] = True
        elif k == "imp":
            parts[tn]["mets"] += names
        else:
            parts[tn]["trts"] += names
    return [(tn, parts[tn]) for tn in order]


def parts_by_type(rec, types):
    """parts of a (possibly partial) output, for the given type names (missing -> empty part)"""
    d = dict(parts_of(rec))
    return [d.get(t, {"def": False, "mets": [], "trts": []}) for t in types]


# generators -----------------------------------------------------------------------------------------------------------

def gen_names(rng, pool, allow_file, bad=0.0):
    """nitem list over `pool` (non-empty subset, random order), optionally with file(..) groups"""
    k = rng.randint(1, max(1, len(pool)))
    names = rng.sample(pool, min(k, len(pool)))
    if rng.random() < bad:
        names.append(rng.choice(["zork", "nope", names[0]]))     # unknown or duplicate name
    items = []
    i = 0
    while i < len(names):
        if allow_file and rng.random() < 0.35:
            j = rng.randint(i + 1, len(names))
            items.append(("nf", names[i:j]))
            i = j
        else:
            items.append(("n", names[i]))
            i += 1
    return items


def gen_sect(rng, key, pool, allow_file, bad=0.0):
    if key == "def":
        return ("def",)
    if not pool or rng.random() < 0.35:
        return (key, None)
    return (key, gen_names(rng, pool, allow_file, bad))


def gen_sitems(rng, part, allow_file, bad=0.0):
    keys = [k for k in ("def", "imp", "trt") if rng.random() < 0.55]
    if not keys:
        keys = [rng.choice(["def", "imp", "trt"])]
    rng.shuffle(keys)
    if rng.random() < bad:
        keys.append(rng.choice(keys))                            # double declaration
    pools = {"imp": part["mets"], "trt": part["trts"]}
    items = []
    i = 0
    while i < len(keys):
        if allow_file and rng.random() < 0.3:
            j = rng.randint(i + 1, len(keys))
            nested = rng.random() < bad
            items.append(("sf", [gen_sect(rng, k, pools.get(k), nested, bad) for k in keys[i:j]]))
            i = j
        else:
            items.append(("s", gen_sect(rng, keys[i], pools.get(keys[i]), allow_file, bad)))
            i += 1
    return items


def gen_part(rng, sol, part, allow_file, bad=0.0):
    if rng.random() < 0.2:
        return (sol, None)
    return (sol, gen_sitems(rng, part, allow_file, bad))


def gen_edit(rng, script, live, bad=0.0):
    """random actor-level specification over the names of the two parts; bad = probability of each kind of slip"""
    r = rng.random()
    if r < 0.04:
        return ("bare",)
    if r < 0.08:
        return ("filebare",)
    sols = [s for s in ("script", "live") if rng.random() < 0.65] or [rng.choice(["script", "live"])]
    rng.shuffle(sols)
    if rng.random() < bad:
        sols.append(rng.choice(sols))
    items = []
    i = 0
    pd = {"script": script, "live": live}
    while i < len(sols):
        if rng.random() < 0.25:
            j = rng.randint(i + 1, len(sols))
            nested = rng.random() < bad
            items.append(("pf", [gen_part(rng, s, pd[s], nested, bad) for s in sols[i:j]]))
            i = j
        else:
            items.append(("p", gen_part(rng, sols[i], pd[sols[i]], True, bad)))
            i += 1
    return ("list", items)


def gen_fam(rng, fam, bad=0.0, single=None):
    """family-level specification edit | edit(file) | edit(def | imp[(..)] | trt[(..)] | file(..), ..) of any length
    (single=True cuts the list to one element); since the F7 repair lists of every length are ordinary legal inputs"""
    r = rng.random()
    if r < 0.1:
        return ("bare",)
    if r < 0.2:
        return ("filebare",)
    items = gen_sitems(rng, fam, True, bad)
    if single is True:
        items = items[:1]
    return ("flist", items)


VOCAB = ["edit", "file", "script", "live", "def", "imp", "trt", "new", "inc", "play", "direct", "bogus", "Debug"]


def gen_meta(rng, depth=0, name=None):
    """arbitrary attribute tree over the vocabulary (mostly illegal): for the parser correspondence"""
    n = name or rng.choice(VOCAB[1:])
    r = rng.random()
    if depth >= 4 or r < 0.35:
        return ("path", n)
    if r < 0.4:
        return ("nv", n)
    k = rng.choice([0, 1, 1, 2, 2, 3])
    return ("list", n, [gen_meta(rng, depth + 1) for _ in range(k)])


def mutate_meta(rng, m):
    """one random local change of a legal tree: rename a key, wrap in file(..), duplicate an element, drop the list, add name = lit"""
    if m[0] != "list" or not m[2]:
        r = rng.random()
        if r < 0.3:
            return ("path", rng.choice(VOCAB))
        if r < 0.5:
            return ("nv", m[1])
        if r < 0.7:
            return ("list", m[1], [])
        return ("list", "file", [m])
    r = rng.random()
    kids = list(m[2])
    i = rng.randrange(len(kids))
    if r < 0.5:
        kids[i] = mutate_meta(rng, kids[i])
    elif r < 0.65:
        kids.insert(i, kids[i])
    elif r < 0.8:
        kids[i] = ("list", "file", [kids[i]])
    elif r < 0.9:
        kids = []
    else:
        return ("list", rng.choice(VOCAB), kids)
    return ("list", m[1], kids)


def enum_names(pool):
    """all name specifications over pool: non-empty subsets in pool order, every per-name file marking"""
    out = []
    n = len(pool)
    for mask in range(1, 1 << n):
        sub = [pool[i] for i in range(n) if mask >> i & 1]
        for fm in range(1 << len(sub)):
            items = []
            for j, nm in enumerate(sub):
                items.append(("nf", [nm]) if fm >> j & 1 else ("n", nm))
            out.append(items)
    return out


def enum_part(sol, part):
    """every specification of one struct over the grammar (sections in the order def, imp, trt; file at every legal level)"""
    defs = [None, ("s", ("def",)), ("sf", [("def",)])]

    def opts(key, pool):
        o = [None, ("s", (key, None)), ("sf", [(key, None)])]
        for ns in enum_names(pool):
            o.append(("s", (key, ns)))
            if all(x[0] == "n" for x in ns):
                o.append(("sf", [(key, ns)]))
        return o
    out = [(sol, None)]
    for d in defs:
        for i in opts("imp", part["mets"]):
            for t in opts("trt", part["trts"]):
                items = [x for x in (d, i, t) if x is not None]
                if items:
                    out.append((sol, items))
    return out


# meta -> AST (for the oracle on mutated trees) ----------------------------------------------------------------------------

class _Outside(Exception):
    pass


class _Reject(Exception):
    pass


def _a_names(m):
    if m[0] == "path":
        return None
    if m[0] != "list":
        raise _Outside()
    if not m[2]:
        raise _Reject()                   # imp() / trt()
    out, rej = [], False
    for x in m[2]:
        if x[0] == "path":
            out.append(("n", x[1]))
        elif x[0] == "list" and x[1] == "file":
            if not x[2] or not all(y[0] == "path" for y in x[2]):
                rej = True                # file() / a non-bare name inside file(..)
            else:
                out.append(("nf", [y[1] for y in x[2]]))
        elif x[1] == "file":
            raise _Outside()              # file = lit among names
        else:
            rej = True                    # foo(bar) / foo = 1: a name must be a bare word
    if rej:
        raise _Reject()
    return out


def _a_sect(m):
    if m[1] == "def":
        if m[0] != "path":
            raise _Reject()               # def(x) / def = 3
        return ("def",)
    if m[1] in ("imp", "trt"):
        return (m[1], _a_names(m))
    if m[1] == "file":
        raise _Outside()
    raise _Reject()


def _a_sitems(ms):
    if not ms:
        raise _Reject()                   # script() / live() / edit() at family level
    out, rej = [], False
    for x in ms:
        try:
            if x[1] == "file":
                if x[0] != "list":
                    raise _Outside()
                if not x[2]:
                    rej = True            # file()
                    continue
                ss = []
                for y in x[2]:
                    if y[1] == "file" and y[0] == "list":
                        rej = True       # file directly inside file: "nesting them is not permitted"
                        continue
                    ss.append(_a_sect(y))
                out.append(("sf", ss))
            else:
                out.append(("s", _a_sect(x)))
        except _Reject:
            rej = True
    if rej:
        raise _Reject()
    return out


def _a_part(m):
    if m[1] not in ("script", "live"):
        if m[1] == "file":
            raise _Outside()
        raise _Reject()
    if m[0] == "path":
        return (m[1], None)
    if m[0] != "list":
        raise _Outside()
    return (m[1], _a_sitems(m[2]))


def ast_of_meta(m, family=False):
    """-> AST | 'reject' (an unknown key, file(file(..)), an empty list `w()`, a non-bare `def` / method / trait name somewhere,
    everything else inside the grammar) | 'outside' (forms neither the documentation nor the repairs speak about:
    `script = 3`, a bare `file` next to other elements, `file = lit`)"""
    try:
        if m[0] == "path":
            return ("bare",)
        if m[0] != "list":
            return "outside"
        if not m[2]:
            return "reject"               # edit()
        if len(m[2]) == 1 and m[2][0] == ("path", "file"):
            return ("filebare",)
        if family:
            return ("flist", _a_sitems(m[2]))
        out, rej = [], False
        for x in m[2]:
            try:
                if x[1] == "file":
                    if x[0] != "list":
                        return "outside"
                    if not x[2]:
                        rej = True
                        continue
                    ps = []
                    for y in x[2]:
                        if y[1] == "file" and y[0] == "list":
                            rej = True
                            continue
                        ps.append(_a_part(y))
                    out.append(("pf", ps))
                else:
                    out.append(("p", _a_part(x)))
            except _Reject:
                rej = True
        return "reject" if rej else ("list", out)
    except _Outside:
        return "outside"
    except _Reject:
        return "reject"


def empties(rng, x, p=0.12):
    """copy of an AST in which some lists were emptied (`script()`, `imp()`, `file()`, `edit()`): each must be rejected"""
    if isinstance(x, list):
        if x and rng.random() < p:
            return []
        return [empties(rng, y, p) for y in x]
    if isinstance(x, tuple):
        return tuple(empties(rng, y, p) for y in x)
    return x


def meta_slips(script, live, family=False):
    """attribute trees with one non-bare leaf or one empty list (not expressible in the AST): (label, meta); each must be rejected"""
    out = []
    P, L, NV = (lambda n: ("path", n)), (lambda n, xs: ("list", n, xs)), (lambda n: ("nv", n))
    E = lambda xs: L("edit", xs)
    pd = {"script": script, "live": live}
    sols = ["live"] if family else ["script", "live"]
    wrap = (lambda sol, xs: E(xs)) if family else (lambda sol, xs: E([L(sol, xs)]))
    for sol in sols:
        met = (pd[sol]["mets"] or ["new"])[0]
        trt = (pd[sol]["trts"] or ["Debug"])[0]
        for lab, xs in [
            ("def-list", [L("def", [P("x")])]), ("def-nv", [NV("def")]), ("def-empty", [L("def", [])]),
            ("def-list-after-imp", [P("imp"), L("def", [P(met)])]),
            ("file-def-list", [L("file", [L("def", [P("x")])])]),
            ("imp-name-list", [L("imp", [L(met, [P("bar")])])]), ("imp-name-nv", [L("imp", [NV(met)])]),
            ("imp-name-empty-list", [L("imp", [L(met, [])])]),
            ("imp-second-name-list", [L("imp", [P(met), L("zork", [P("a")])])]),
            ("trt-name-list", [L("trt", [L(trt, [P("bar")])])]), ("trt-name-nv", [L("trt", [NV(trt)])]),
            ("imp-file-file", [L("imp", [L("file", [L("file", [P(met)])])])]),
            ("imp-file-name-list", [L("imp", [L("file", [L(met, [P("b")])])])]),
            ("imp-file-name-nv", [L("imp", [L("file", [P(met), NV(met)])])]),
            ("file-imp-name-list", [L("file", [L("imp", [L(met, [P("bar")])])])]),
            ("imp-empty", [L("imp", [])]), ("trt-empty", [L("trt", [])]), ("imp-empty-after-def", [P("def"), L("imp", [])]),
            ("file-empty", [L("file", [])]), ("file-empty-after-def", [P("def"), L("file", [])]),
            ("imp-file-empty", [L("imp", [L("file", [])])]), ("imp-name-then-file-empty", [L("imp", [P(met), L("file", [])])]),
            ("file-imp-empty", [L("file", [L("imp", [])])]),
        ]:
            out.append(("%s-%s" % (lab, sol), wrap(sol, xs)))
        if not family:
            out.append(("part-empty-%s" % sol, E([L(sol, [])])))
            out.append(("part-empty-after-%s" % sol, E([P("live" if sol == "script" else "script"), L(sol, [])])))
            out.append(("file-part-empty-%s" % sol, E([L("file", [L(sol, [])])])))
    out.append(("edit-empty", E([])))
    out.append(("edit-file-empty", E([L("file", [])])))
    if not family:
        out.append(("edit-file-empty-after-part", E([P("script"), L("file", [])])))
    return out


def slips(rng, script, live):
    """systematic one-slip specifications (each must be rejected): every double declaration shape, file nested at every
    level pair, unknown names; returned as (label, AST)"""
    out = []
    pd = {"script": script, "live": live}
    only = {"def": [("s", ("def",))], "imp": [("s", ("imp", None))], "trt": [("s", ("trt", None))]}

    def names(sol, key):
        pool = pd[sol]["mets" if key == "imp" else "trts"]
        return [("n", rng.choice(pool))] if pool else None
    for sol in ("script", "live"):
        other = "live" if sol == "script" else "script"
        firsts = [("bare", (sol, None))] + [(k, (sol, only[k])) for k in only]
        for k in ("imp", "trt"):
            ns = names(sol, k)
            if ns:
                firsts.append((k + "-names", (sol, [("s", (k, ns))])))
                firsts.append((k + "-filenames", (sol, [("s", (k, [("nf", [ns[0][1]])]))])))
        seconds = [(sol, None), (sol, only["def"]), (sol, only["trt"]), (sol, only["imp"])]
        for lab, f in firsts:
            s2 = rng.choice(seconds)
            out.append(("dup-%s-after-%s" % (sol, lab), ("list", [("p", f), ("p", s2)])))
            out.append(("dup-%s-after-file-%s" % (sol, lab), ("list", [("pf", [f]), ("p", (other, None)), ("p", s2)])))
            out.append(("dup-%s-in-file-after-%s" % (sol, lab), ("list", [("p", f), ("pf", [s2])])))
        # double sections inside one struct
        for k in ("def", "imp", "trt"):
            sec = ("def",) if k == "def" else (k, None)
            out.append(("dup-%s-%s" % (sol, k), ("list", [("p", (sol, [("s", sec), ("s", sec)]))])))
            out.append(("dup-%s-%s-file" % (sol, k), ("list", [("p", (sol, [("sf", [sec]), ("s", ("def",) if k != "def" else ("imp", None)), ("s", sec)]))])))
            if k != "def":
                ns = names(sol, k)
                if ns:
                    out.append(("dup-%s-%s-names-then-bare" % (sol, k), ("list", [("p", (sol, [("s", (k, ns)), ("s", sec)]))])))
                    out.append(("dup-%s-%s-bare-then-names" % (sol, k), ("list", [("p", (sol, [("s", sec), ("s", (k, ns))]))])))
                    n = ns[0][1]
                    out.append(("dup-name-%s-%s" % (sol, k), ("list", [("p", (sol, [("s", (k, [("n", n), ("n", n)]))]))])))
                    out.append(("dup-name-file-%s-%s" % (sol, k), ("list", [("p", (sol, [("s", (k, [("n", n), ("nf", [n])]))]))])))
                    out.append(("dup-name-file2-%s-%s" % (sol, k), ("list", [("p", (sol, [("s", (k, [("nf", [n]), ("nf", [n])]))]))])))
                    # nested file: names level under section-level / part-level wrapper
                    out.append(("nest-sect-name-%s-%s" % (sol, k), ("list", [("p", (sol, [("sf", [(k, [("nf", [n])])])]))])))
                    out.append(("nest-part-name-%s-%s" % (sol, k), ("list", [("pf", [(sol, [("s", (k, [("nf", [n])]))])])])))
                    out.append(("unknown-name-%s-%s" % (sol, k), ("list", [("p", (sol, [("s", (k, [("n", n), ("n", "zork")]))]))])))
                    out.append(("unknown-name-file-%s-%s" % (sol, k), ("list", [("p", (sol, [("s", (k, [("nf", ["zork"])]))]))])))
                else:
                    out.append(("unknown-name-empty-%s-%s" % (sol, k), ("list", [("p", (sol, [("s", (k, [("n", "zork")]))]))])))
        out.append(("nest-part-sect-%s" % sol, ("list", [("pf", [(sol, [("sf", [("def",)])])])])))
        out.append(("nest-part-sect2-%s" % sol, ("list", [("p", (other, None)), ("pf", [(sol, [("s", ("def",)), ("sf", [("imp", None)])])])])))
        # empty lists (rejected since the repair of `name()`)
        out.append(("empty-part-%s" % sol, ("list", [("p", (sol, []))])))
        out.append(("empty-file-in-part-%s" % sol, ("list", [("p", (sol, [("s", ("def",)), ("sf", [])]))])))
        for k in ("imp", "trt"):
            out.append(("empty-%s-%s" % (k, sol), ("list", [("p", (sol, [("s", (k, []))]))])))
            out.append(("empty-file-in-%s-%s" % (k, sol), ("list", [("p", (sol, [("s", (k, [("nf", [])]))]))])))
    out.append(("empty-edit", ("list", [])))
    out.append(("empty-file", ("list", [("pf", [])])))
    out.append(("empty-file-after-part", ("list", [("p", ("script", None)), ("pf", [])])))
    return out
