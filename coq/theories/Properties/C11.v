(* C11 -- handles are clonable and sendable; all clones address the same actor.  Statements only.
   Dynamic half: Runtime LTS (proofs in Gen/HandleOps.v, Runtime/Combined.v, Runtime/InvStop.v).
   Static half: trait algebra over the translated handle struct (proofs in Gen/Generics.v); rustc's trait solver is NOT
   modelled: the auto-trait / derive rules are the hypothesis record [auto_trait_facts] over an abstract relation, and
   rustc is the oracle on the real code (harness/typecheck). *)
From Coq Require Import List String Arith Bool.
Import ListNotations.
From IT Require Import Sdpl.IR Sdpl.Elab Sdpl.Wf Runtime.Actor Runtime.Lists Runtime.ActorInv Runtime.InvDefs Runtime.Combined
  Gen.HandleOps Gen.Generics.
Local Open Scope nat_scope.
Local Open Scope list_scope.

Section C11_dynamic.
Context {A V : Type} (sem : nat -> A -> list V -> option (A * V)) (sem_slf : nat -> A -> list V -> V) (dv : V).
Notation run := (run sem sem_slf dv).
Notation step := (step sem sem_slf dv).

(* creating a clone touches nothing a call in flight lives in (queue, executing message, oneshot slots, actor, loop status,
   history) and no other client; it adds one sender - or does nothing when the handle is not Clone / the client owns none *)
Theorem C11_clone_frame : forall (m : model) s t c rest,
  nth_error (clients s) t = Some c -> c_pc c = Ready -> c_prog c = CloneH :: rest ->
  exists s', step (elab m) s (Cl t) = Some s' /\ calls_untouched s s' /\ others_untouched t s s' /\
    let made := (0 <? c_nh c) && r_clonable (elab m) in
    senders s' = (if made then S (senders s) else senders s) /\
    nth_error (clients s') t = Some (mk_client Ready rest (if made then S (c_nh c) else c_nh c) (c_seq c) (c_rets c)).
Proof. intros m. exact (clone_frame sem sem_slf dv (elab m)). Qed.

(* dropping a clone: one sender less, nothing else *)
Theorem C11_drop_frame : forall (m : model) s t c rest,
  nth_error (clients s) t = Some c -> c_pc c = Ready -> c_prog c = DropH :: rest ->
  exists s', step (elab m) s (Cl t) = Some s' /\ calls_untouched s s' /\ others_untouched t s s' /\
    let had := 0 <? c_nh c in
    senders s' = (if had then pred (senders s) else senders s) /\
    nth_error (clients s') t = Some (mk_client Ready rest (if had then pred (c_nh c) else c_nh c) (c_seq c) (c_rets c)).
Proof. intros m. exact (drop_frame sem sem_slf dv (elab m)). Qed.

(* ... and while another handle exists the actor keeps running *)
Theorem C11_drop_keeps_alive : forall (m : model) s t c rest s',
  nth_error (clients s) t = Some c -> c_pc c = Ready -> c_prog c = DropH :: rest ->
  step (elab m) s (Cl t) = Some s' -> 1 < senders s -> 0 < senders s' /\ exited s' = exited s.
Proof. intros m. exact (drop_keeps_alive sem sem_slf dv (elab m)). Qed.

(* the channel's sender count is the number of live handles, in every reachable state of every program *)
Theorem C11_senders_are_handles : forall (m : model) a0 progs sched,
  let s := run (elab m) a0 progs sched in senders s = list_sum (map c_nh (clients s)).
Proof. intros m. exact (senders_are_handles sem sem_slf dv (elab m)). Qed.

(* a clone addresses the same actor: a call through any handle the client owns enters the one queue of the model *)
Theorem C11_call_through_any_handle : forall (m : model) s t c k vs rest,
  nth_error (clients s) t = Some c -> c_pc c = Ready -> c_prog c = Call k vs :: rest ->
  0 < c_nh c -> k < List.length (r_meths (elab m)) ->
  exists s', step (elab m) s (Cl t) = Some s' /\ issued s' = issued s ++ [((t, c_seq c), k, vs)] /\ queue s' = queue s /\
    nth_error (clients s') t = Some (mk_client (Sending (t, c_seq c) k vs false) rest (c_nh c) (S (c_seq c)) (c_rets c)).
Proof. intros m. exact (call_through_any_handle sem sem_slf dv (elab m)). Qed.

(* exactly-once and own-reply with a clone or a drop at ANY position of ANY client's program, under every schedule
   (the C03 theorems quantify over all programs; this is their instance, spelled out) *)
Theorem C11_clone_drop_anywhere : forall (m : model), wf_C03 m = true ->
  forall a0 pre o post n before after sched, o = CloneH \/ o = DropH ->
  let s := run (elab m) a0 (before ++ (pre ++ o :: post, n) :: after) sched in
  (dropped s = [] -> moved s = 0 -> NoDup (enq s) /\ enq s = applied_ids s ++ busy_id s ++ qids s) /\
  (forall t cl c v, nth_error (clients s) t = Some cl -> In (c, Returned v) (c_rets cl) ->
     fst c = t /\ exists callee args, In (c, callee, args, v) (applied s)).
Proof.
  intros m W a0 pre o post n before after sched _ s. split.
  - intros D M. exact (exactly_once sem sem_slf dv (elab m) a0 _ sched D M).
  - apply own_reply.
    unfold wf_C03, wf_C02, wf_C01 in W. apply andb_prop in W. destruct W as [W _]. apply andb_prop in W. exact (proj2 W).
Qed.
End C11_dynamic.

Section C11_static.
(* the world: which traits hold of which types (rustc decides; here an arbitrary relation satisfying the library rules) *)
Variable holds : tr -> ty -> Prop.
Variable lholds : live_desc -> tr -> Prop.
Variable hsend : live_desc -> held -> Prop.
Variable fsend : live_desc -> fut_desc -> Prop.
Variable psend : string -> Prop.
Hypothesis facts : auto_trait_facts holds lholds hsend fsend psend.

(* every instantiation of the handle (one that meets the bounds written on the struct) is Send + Sync + 'static whenever
   the call payloads are Send; premise [wf_send] is evaluated on the translated real struct on every run *)
Theorem C11_send_sync_static : forall ld, wf_send ld = true -> bounds_hold holds ld -> payload_send holds ->
  lholds ld Send /\ lholds ld Sync /\ lholds ld Static.
Proof. exact (live_send_sync_static holds lholds hsend fsend psend facts). Qed.

(* the futures returned by the generated async methods are Send *)
Theorem C11_future_send : forall ld fd, wf_send ld = true -> bounds_hold holds ld -> payload_send holds ->
  fd_recognised fd = true -> (forall t, In t (fd_params fd) -> psend t) -> (forall r, fd_reply fd = Some r -> psend r) ->
  fsend ld fd.
Proof. exact (future_send holds lholds hsend fsend psend facts). Qed.

(* Clone of the handle holds exactly when the parameters in [clone_requirements] are Clone: for `#[derive(Clone)]` these
   are ALL type parameters of the handle *)
Theorem C11_clone_iff : forall ld, clone_fields_ok ld = true ->
  (lholds ld Clone <-> exists reqs, clone_requirements ld = Some reqs /\ forall p, In p reqs -> holds Clone (TParam p)).
Proof. exact (live_clone_iff holds lholds hsend fsend psend facts). Qed.

(* FULL-STRENGTH STATEMENT (the property: Clone whether or not the actor's own type parameters are Clone) - FALSE of the
   real generator, see C11_clone_refuted (finding F5):
     forall ld, derives_clone ld = true -> clone_fields_ok ld = true -> lholds ld Clone.
   Guarded form, outside the known class [f5_class] (derive present and at least one type parameter): *)
Theorem C11_clone_guarded : forall ld, f5_class ld = false ->
  derives_clone ld = true -> clone_fields_ok ld = true -> lholds ld Clone.
Proof.
  intros ld K D F. apply (live_clone_no_tparams holds lholds hsend fsend psend facts ld D); [|exact F].
  unfold f5_class in K. rewrite D in K. destruct (ld_tparams ld); [reflexivity|discriminate K].
Qed.

(* ... and whenever the requirement set is empty (e.g. after a hand-written unconditional impl) *)
Theorem C11_clone_unconditional : forall ld, clone_unconditional ld = true -> lholds ld Clone.
Proof. exact (live_clone_guarded holds lholds hsend fsend psend facts). Qed.
End C11_static.

(* the known class is inhabited by a real expansion, and there the property's Clone clause fails in a world that satisfies
   every library rule: T is Send + Sync + 'static but not Clone, the handle is Send yet not Clone *)
Theorem C11_clone_refuted :
  f5_class f5_witness = true /\ wf_send f5_witness = true /\ clone_unconditional f5_witness = false /\
  exists holds lholds hsend fsend psend,
    auto_trait_facts holds lholds hsend fsend psend /\ bounds_hold holds f5_witness /\ payload_send holds /\
    lholds f5_witness Send /\ ~ lholds f5_witness Clone.
Proof. exact f5_refuted. Qed.

(* the hypothesis record is satisfiable: the boolean semantics is a model of it, for every instantiation *)
Theorem C11_facts_satisfiable : forall env ss,
  auto_trait_facts (m_holds env ss) (m_lholds env ss) (m_hsend env ss) (m_fsend env ss) m_psend.
Proof. exact facts_model. Qed.

Print Assumptions C11_clone_frame.
Print Assumptions C11_drop_frame.
Print Assumptions C11_drop_keeps_alive.
Print Assumptions C11_senders_are_handles.
Print Assumptions C11_call_through_any_handle.
Print Assumptions C11_clone_drop_anywhere.
Print Assumptions C11_send_sync_static.
Print Assumptions C11_future_send.
Print Assumptions C11_clone_iff.
Print Assumptions C11_clone_guarded.
Print Assumptions C11_clone_unconditional.
Print Assumptions C11_clone_refuted.
Print Assumptions C11_facts_satisfiable.
