(* Runtime LTS of a family: k member loops, each with its own queue, sharing one actor value under one lock.
   The handle side of each member is the single-actor model of Actor.v (its channel, clients, replies); here the
   environment enqueues messages into member queues in any order, and the member threads take, lock, execute, release.
   Definitions only.

   Modelled, not verified: Mutex gives mutual exclusion; RwLock admits any number of readers or one writer; lock
   acquisition blocks while incompatible holders exist. *)
From Coq Require Import List Arith Bool Lia.
Import ListNotations.

Section Family.
Context {A V : Type}.
Variable sem : nat -> A -> list V -> option (A * V).   (* user method k *)

Inductive lockmode := LRead | LWrite | LMutex | LNone.     (* what the arm acquires before calling the user method *)
Definition exclusive (l : lockmode) := match l with LWrite | LMutex => true | _ => false end.

(* per member: for each method index the mode its arm acquires and the user method it calls *)
Record fmeth := { fm_mode : lockmode; fm_callee : nat; fm_mut : bool (* the user method takes &mut self *) }.
Record fmodel := { f_members : list (list fmeth) }.

Record fmsg := { g_id : nat; g_meth : nat; g_args : list V }.
Inductive phase := Taken | Holding.
Record member := { mq : list fmsg; mbusy : option (fmsg * phase); mdead : bool }.

Record fstate := {
  factor : A;
  holders : list (nat * lockmode);                 (* members currently holding the lock, with their mode *)
  members : list member;
  fapplied : list (nat * nat * nat * list V * V);  (* member, message id, user method, arguments, result: in execution order *)
  ftaken : list (nat * nat);                       (* member, message id: in the order messages were taken from the queues *)
  fctor_runs : nat }.

Fixpoint upd {X} (l : list X) (i : nat) (x : X) : list X :=
  match l, i with [], _ => [] | _ :: t, 0 => x :: t | h :: t, S k => h :: upd t k x end.

Definition compatible (hs : list (nat * lockmode)) (l : lockmode) : bool :=
  match l with
  | LNone => true
  | LRead => forallb (fun h => negb (exclusive (snd h))) hs
  | LWrite | LMutex => match hs with [] => true | _ => false end
  end.
Definition release (hs : list (nat * lockmode)) (i : nat) := filter (fun h => negb (Nat.eqb (fst h) i)) hs.

Definition meth_of (m : fmodel) (i k : nat) : option fmeth :=
  match nth_error (f_members m) i with Some ms => nth_error ms k | None => None end.

Inductive fchoice := Env (i : nat) (x : fmsg) | Mem (i : nat).

Definition fstep (m : fmodel) (s : fstate) (ch : fchoice) : option fstate :=
  match ch with
  | Env i x =>
      (* a client of member i got its message accepted by that member's channel *)
      match nth_error (members s) i with
      | Some mb => Some {| factor := factor s; holders := holders s;
                           members := upd (members s) i {| mq := mq mb ++ [x]; mbusy := mbusy mb; mdead := mdead mb |};
                           fapplied := fapplied s; ftaken := ftaken s; fctor_runs := fctor_runs s |}
      | None => None end
  | Mem i =>
      match nth_error (members s) i with
      | None => None
      | Some mb =>
        if mdead mb then None else
        match mbusy mb with
        | None =>
            match mq mb with
            | [] => None
            | x :: q => Some {| factor := factor s; holders := holders s;
                                members := upd (members s) i {| mq := q; mbusy := Some (x, Taken); mdead := false |};
                                fapplied := fapplied s; ftaken := ftaken s ++ [(i, g_id x)]; fctor_runs := fctor_runs s |}
            end
        | Some (x, Taken) =>
            match meth_of m i (g_meth x) with
            | None => None
            | Some fm =>
                if compatible (holders s) (fm_mode fm) then
                  Some {| factor := factor s;
                          holders := match fm_mode fm with LNone => holders s | l => holders s ++ [(i, l)] end;
                          members := upd (members s) i {| mq := mq mb; mbusy := Some (x, Holding); mdead := false |};
                          fapplied := fapplied s; ftaken := ftaken s; fctor_runs := fctor_runs s |}
                else None   (* blocked on the lock *)
            end
        | Some (x, Holding) =>
            match meth_of m i (g_meth x) with
            | None => None
            | Some fm =>
                match sem (fm_callee fm) (factor s) (g_args x) with
                | Some (a', r) =>
                    Some {| factor := a'; holders := release (holders s) i;
                            members := upd (members s) i {| mq := mq mb; mbusy := None; mdead := false |};
                            fapplied := fapplied s ++ [(i, g_id x, fm_callee fm, g_args x, r)];
                            ftaken := ftaken s; fctor_runs := fctor_runs s |}
                | None =>
                    (* the user method panics: this member's loop dies, its guard is released by unwinding *)
                    Some {| factor := factor s; holders := release (holders s) i;
                            members := upd (members s) i {| mq := []; mbusy := None; mdead := true |};
                            fapplied := fapplied s; ftaken := ftaken s; fctor_runs := fctor_runs s |}
                end
            end
        end
      end
  end.

Definition fstep' m s ch := match fstep m s ch with Some s' => s' | None => s end.
Definition frun_from m s (sched : list fchoice) := fold_left (fstep' m) sched s.
(* one constructor call produced a0; it is wrapped once and every member gets a clone of that Arc *)
Definition finit (a0 : A) (k : nat) : fstate :=
  {| factor := a0; holders := []; members := repeat {| mq := []; mbusy := None; mdead := false |} k;
     fapplied := []; ftaken := []; fctor_runs := 1 |}.
Definition frun m a0 sched := frun_from m (finit a0 (length (f_members m))) sched.

(* ---- statements ---- *)
(* at most one exclusive holder, and then nobody else; every member holds at most once *)
Definition excl_ok (s : fstate) :=
  NoDup (map fst (holders s)) /\
  (forall i l, In (i, l) (holders s) -> exclusive l = true -> holders s = [(i, l)]) /\
  (forall i l, In (i, l) (holders s) -> l <> LNone).
(* a member holds the lock exactly while it is in phase Holding with a locking mode *)
Definition hold_ok (m : fmodel) (s : fstate) :=
  forall i l, In (i, l) (holders s) ->
    exists mb x fm, nth_error (members s) i = Some mb /\ mbusy mb = Some (x, Holding) /\ meth_of m i (g_meth x) = Some fm /\ fm_mode fm = l.

(* the calls of one member are executed in the order they were taken from its queue: its applied subsequence is a prefix
   of its taken subsequence *)
Definition of_member {X} (i : nat) (l : list (nat * X)) : list X := map snd (filter (fun e => Nat.eqb (fst e) i) l).
Definition applied_pairs (s : fstate) : list (nat * nat) := map (fun e => match e with (i, c, _, _, _) => (i, c) end) (fapplied s).
Definition member_order_ok (s : fstate) :=
  forall i, exists rest, of_member i (ftaken s) = of_member i (applied_pairs s) ++ rest /\ length rest <= 1.

Inductive FReplay (a0 : A) : list (nat * nat * nat * list V * V) -> A -> Prop :=
| frp_nil : FReplay a0 [] a0
| frp_snoc l a i c k args a' r : FReplay a0 l a -> sem k a args = Some (a', r) -> FReplay a0 (l ++ [(i, c, k, args, r)]) a'.
End Family.
