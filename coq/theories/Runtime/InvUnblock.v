(* A caller blocked on a full bounded queue is released by the actor's next take:
   the two-step progress counterpart of [blocked_waits] / [unblocked_enqueues] (ActorInv.v).
   Also: the actor's take is enabled whenever a caller is blocked (a full queue is not empty),
   so a bounded queue cannot dead-lock a live idle actor against its callers. *)
From Coq Require Import List Arith Bool Lia.
Import ListNotations.
From IT Require Import Runtime.Actor Runtime.Lists Runtime.ActorInv Runtime.InvReply.

Section Unblock.
Context {A V : Type}.
Variable sem : nat -> A -> list V -> option (A * V).
Variable sem_slf : nat -> A -> list V -> V.
Variable dv : V.
Notation st := (@st A V).
Notation step := (step sem sem_slf dv).
Notation run := (run sem sem_slf dv).

Definition is_stop (x : @msg V) := match x with MStop _ => true | Msg _ _ _ => false end.

(* an idle live actor with a non-empty queue headed by an ordinary message takes exactly that message *)
Lemma take_head m (s : st) x q :
  alive s = true -> busy s = None -> queue s = x :: q -> is_stop x = false ->
  exists s1, step m s Ac = Some s1 /\ queue s1 = q /\ busy s1 = Some x /\ deq s1 = deq s ++ [msg_id x]
    /\ clients s1 = clients s /\ exited s1 = exited s /\ enq s1 = enq s /\ lost s1 = lost s /\ slots s1 = slots s
    /\ actor s1 = actor s /\ applied s1 = applied s.
Proof.
  intros Al B Q NS. cbn [Actor.step]. unfold step_actor. unfold alive in Al.
  destruct (exited s) eqn:E; [discriminate|]. rewrite B, Q.
  destruct x as [c k fs|c]; [|discriminate].
  eexists; split; [reflexivity|]. cbn. rewrite E. repeat split; reflexivity.
Qed.

(* a bounded queue that accepts nothing more holds exactly n messages *)
Lemma full_length m (q : list (@msg V)) n : r_cap m = Some n -> room (r_cap m) q = false -> length q <= n -> length q = n.
Proof. intros -> R L. unfold room in R. apply Nat.ltb_ge in R. lia. Qed.

Theorem take_unblocks m (s : st) n x q t cid k vs ab rm :
  r_cap m = Some n -> length (queue s) <= n ->
  alive s = true -> busy s = None -> queue s = x :: q -> is_stop x = false ->
  at_send s t cid k vs ab -> meth m k = Some rm ->
  exists s1 s2, step m s Ac = Some s1 /\ step m s1 (Cl t) = Some s2
    /\ deq s1 = deq s ++ [msg_id x]
    /\ queue s2 = q ++ [Msg cid k (route dv (rm_fields rm) vs)]
    /\ enq s2 = enq s ++ [cid] /\ lost s2 = lost s.
Proof.
  intros Hn L Al B Q NS Hat Hm.
  destruct (take_head m s x q Al B Q NS) as (s1 & H1 & Q1 & _ & D1 & C1 & E1 & N1 & L1 & _).
  assert (Hat1 : at_send s1 t cid k vs ab).
  { destruct Hat as (c & Hc & Hpc). exists c. rewrite C1. split; assumption. }
  assert (Al1 : alive s1 = true) by (unfold alive in *; rewrite E1; exact Al).
  assert (R1 : room (r_cap m) (queue s1) = true).
  { rewrite Hn, Q1. unfold room. apply Nat.ltb_lt. rewrite Q in L. cbn in L. lia. }
  destruct (unblocked_enqueues sem sem_slf dv m s1 t cid k vs ab rm Hat1 Hm Al1 R1) as (s2 & H2 & Q2 & N2 & L2).
  exists s1, s2. repeat split; try assumption.
  - rewrite Q2, Q1. reflexivity.
  - rewrite N2, N1. reflexivity.
  - rewrite L2, L1. reflexivity.
Qed.

(* when a caller is blocked (no room) on capacity n >= 1, the queue has a head: the take above is what the
   idle actor does next, so callers and actor never wait for each other *)
Theorem blocked_queue_has_head m (s : st) n :
  r_cap m = Some n -> 0 < n -> room (r_cap m) (queue s) = false -> exists x q, queue s = x :: q.
Proof.
  intros Hn Pn R. rewrite Hn in R. unfold room in R. apply Nat.ltb_ge in R.
  destruct (queue s) as [|x q]; [cbn in R; lia|eauto].
Qed.

(* the same on every reachable state: the length premise is the capacity invariant *)
Theorem reachable_take_unblocks m a0 progs sched n x q t cid k vs ab rm :
  let s := run m a0 progs sched in
  r_cap m = Some n -> alive s = true -> busy s = None -> queue s = x :: q -> is_stop x = false ->
  at_send s t cid k vs ab -> meth m k = Some rm ->
  exists s1 s2, step m s Ac = Some s1 /\ step m s1 (Cl t) = Some s2
    /\ deq s1 = deq s ++ [msg_id x]
    /\ queue s2 = q ++ [Msg cid k (route dv (rm_fields rm) vs)]
    /\ enq s2 = enq s ++ [cid] /\ lost s2 = lost s.
Proof.
  intros s Hn. apply (take_unblocks m s n); [exact Hn|]. exact (cap_reachable sem sem_slf dv m a0 progs sched n Hn).
Qed.
(* ---- the head is a stop message (a self-consuming method won the race): the play returns, the receiver goes away,
        and a caller still blocked on the full queue is released with a panic - it neither hangs nor vanishes ---- *)
Lemma upd_same {X} (l : list X) i x y : nth_error l i = Some y -> nth_error (upd l i x) i = Some x.
Proof. revert i. induction l as [|h l IH]; intros [|i] H; cbn in *; try discriminate; auto. Qed.

Theorem stop_releases_blocked m (s : st) c0 q a t cid k vs ab rm :
  alive s = true -> busy s = None -> queue s = MStop c0 :: q -> actor s = Some a -> r_stop_first m = true ->
  at_send s t cid k vs ab -> meth m k = Some rm -> rm_loud_send rm = true ->
  exists s1 s2 cl, step m s Ac = Some s1 /\ alive s1 = false /\ exited s1 = Some Stopped /\ moved s1 = S (moved s)
    /\ step m s1 (Cl t) = Some s2
    /\ nth_error (clients s2) t = Some cl /\ c_pc cl = Dead /\ In (cid, Panicked) (c_rets cl)
    /\ lost s2 = lost s ++ [cid] /\ enq s2 = enq s.
Proof.
  intros Al B Q Ha SF (c & Hc & Hpc) Hm Hl.
  cbn [Actor.step]. unfold step_actor. unfold alive in Al.
  destruct (exited s) eqn:E; [discriminate|]. rewrite B, Q, Ha, SF.
  eexists. eexists. exists (die c cid). split; [reflexivity|].
  split; [reflexivity|]. split; [reflexivity|]. split; [reflexivity|].
  unfold step_client. cbn. rewrite Hc, Hpc, Hm, Hl. cbn.
  split; [reflexivity|]. cbn.
  split; [exact (upd_same _ _ _ _ Hc)|].
  split; [reflexivity|]. split; [cbn; apply in_or_app; right; left; reflexivity|].
  split; reflexivity.
Qed.
(* ---- the third place a caller waits: on its reply.  When the actor finishes the call it is executing, the reply lands in that
        call's own slot and the waiting caller's next step returns exactly the value this execution produced ---- *)
Theorem reply_releases_waiter m (s : st) cid k fs rm a a' r t c :
  alive s = true -> busy s = Some (Msg cid k fs) -> meth m k = Some rm -> actor s = Some a ->
  sem (rm_callee rm) a (route dv (rm_args rm) fs) = Some (a', r) ->
  rm_reply rm = true -> rm_reply_own rm = true -> slot_get (slots s) cid = Some SEmpty ->
  nth_error (clients s) t = Some c -> c_pc c = Waiting cid k ->
  exists s1 s2 cl, step m s Ac = Some s1 /\ actor s1 = Some a' /\ busy s1 = None
    /\ applied s1 = applied s ++ [(cid, rm_callee rm, route dv (rm_args rm) fs, r)]
    /\ step m s1 (Cl t) = Some s2 /\ nth_error (clients s2) t = Some cl /\ c_pc cl = Ready
    /\ c_rets cl = c_rets c ++ [(cid, Returned r)].
Proof.
  intros Al B Hm Ha Hs Rr Ro Sl Hc Hpc.
  cbn [Actor.step]. unfold step_actor. unfold alive in Al.
  destruct (exited s) eqn:E; [discriminate|]. rewrite B, Hm, Ha, Hs, Rr, Ro, Sl.
  eexists. eexists. exists (ret c Ready cid (Returned r)). split; [reflexivity|].
  split; [reflexivity|]. split; [reflexivity|]. split; [reflexivity|].
  unfold step_client. cbn. rewrite Hc, Hpc, Hm, slot_get_set_same. cbn.
  split; [reflexivity|]. cbn. split; [exact (upd_same _ _ _ _ Hc)|]. split; reflexivity.
Qed.
End Unblock.
