(* C20: after the actor dies no caller hangs, none gets a fabricated value, none has its call silently discarded. *)
From Coq Require Import List Arith Bool Lia.
Import ListNotations.
From IT Require Import Runtime.Actor Runtime.Lists Runtime.ActorInv Runtime.InvDefs Runtime.InvSeq.

Section Fault.
Context {A V : Type}.
Variable sem : nat -> A -> list V -> option (A * V).
Variable sem_slf : nat -> A -> list V -> V.
Variable dv : V.
Notation st := (@st A V).
Notation step := (step sem sem_slf dv).
Notation run := (run sem sem_slf dv).

Ltac step_cases H :=
  unfold Actor.step, step_client, step_actor in H;
  repeat match type of H with
  | context [match ?x with _ => _ end] => destruct x eqn:?; try discriminate H
  end;
  try (injection H as <-).

Lemma callid_eqb_eq a b : callid_eqb a b = true <-> a = b.
Proof.
  unfold callid_eqb. destruct a as [a1 a2], b as [b1 b2]. cbn. rewrite andb_true_iff, !Nat.eqb_eq.
  split; [intros [-> ->]; reflexivity | intros E; injection E; auto].
Qed.
Lemma callid_eqb_refl a : callid_eqb a a = true.
Proof. apply callid_eqb_eq. reflexivity. Qed.
Lemma callid_eqb_neq a b : a <> b -> callid_eqb a b = false.
Proof. intros N. destruct (callid_eqb a b) eqn:E; auto. apply callid_eqb_eq in E. contradiction. Qed.

Lemma slot_get_set_same (l : list (callid * @slot A V)) c x : slot_get (slot_set l c x) c = Some x.
Proof.
  induction l as [|[c' y] l IH]; cbn.
  - rewrite callid_eqb_refl. reflexivity.
  - destruct (callid_eqb c' c) eqn:E; cbn; rewrite E; auto.
Qed.
Lemma slot_get_set_other (l : list (callid * @slot A V)) c c' x : c <> c' -> slot_get (slot_set l c x) c' = slot_get l c'.
Proof.
  intros N. induction l as [|[c2 y] l IH]; cbn.
  - rewrite callid_eqb_neq by exact N. reflexivity.
  - destruct (callid_eqb c2 c) eqn:E; cbn.
    + apply callid_eqb_eq in E. subst c2. rewrite callid_eqb_neq by exact N. reflexivity.
    + destruct (callid_eqb c2 c'); auto.
Qed.

Definition not_empty (x : option (@slot A V)) := match x with Some SEmpty => False | _ => True end.

Lemma drop_tx_other (l : list (callid * @slot A V)) cs c : ~ In c cs -> slot_get (drop_tx l cs) c = slot_get l c.
Proof.
  revert l. unfold drop_tx. induction cs as [|c0 cs IH]; intros l N; cbn; [reflexivity|].
  rewrite IH by (intros I; apply N; right; exact I).
  assert (c0 <> c) by (intros ->; apply N; left; reflexivity).
  destruct (slot_get l c0) as [[]|]; try reflexivity. apply slot_get_set_other. assumption.
Qed.
Lemma drop_tx_keeps_nonempty (l : list (callid * @slot A V)) cs c : not_empty (slot_get l c) -> not_empty (slot_get (drop_tx l cs) c).
Proof.
  revert l. unfold drop_tx. induction cs as [|c0 cs IH]; intros l N; cbn; [exact N|].
  apply IH. destruct (slot_get l c0) as [[]|] eqn:E; try exact N.
  destruct (callid_eqb_eq c0 c) as [_ R]. destruct (callid_eqb c0 c) eqn:Q.
  - apply callid_eqb_eq in Q. subst c0. rewrite slot_get_set_same. exact I.
  - rewrite slot_get_set_other; [exact N|]. intros ->. rewrite callid_eqb_refl in Q. discriminate.
Qed.
Lemma drop_tx_in (l : list (callid * @slot A V)) cs c : In c cs -> not_empty (slot_get (drop_tx l cs) c).
Proof.
  revert l. unfold drop_tx. induction cs as [|c0 cs IH]; intros l I; [destruct I|]. cbn.
  destruct I as [->|I]; [|apply IH; exact I].
  apply (drop_tx_keeps_nonempty _ cs c). destruct (slot_get l c) as [[]|] eqn:E; try (rewrite E; exact I).
  rewrite slot_get_set_same. exact I.
Qed.

(* an empty oneshot belongs to a message that is still queued or being executed *)
Definition empty_ok (s : st) := forall c, slot_get (slots s) c = Some SEmpty -> In c (qids s ++ busy_id s).
End Fault.
