"""Statement-level translator for C13: the body of the generated `debut()` -> Coq `debut_ir` (IT.Debut.Debut), the bodies of
eq / partial_cmp / cmp / inter_get_count and the struct / constructor facts -> Coq `cmp_ir` (IT.Debut.Cmp).
Every token of every statement must be accounted for by a template; anything else -> SUnknown / DUnknown / CUnknown
(which no wf_* accepts)."""
import re
import rs
from rs import match, split_stmts, render, is_p, is_id

SYSTIME = ":: std :: time :: SystemTime"
T_STATIC = ("static $L:ident : :: std :: sync :: Mutex < " + SYSTIME + " > = :: std :: sync :: Mutex :: new ( " + SYSTIME + " :: UNIX_EPOCH ) ;")
T_LOCK = "let mut $g:ident = $L:ident . lock ( ) . unwrap ( ) ;"
OPS = {"<": "OLt", "<=": "OLe", "==": "OEq", "!=": "ONe", ">=": "OGe", ">": "OGt"}


class Names(object):
    def __init__(self, static, guard):
        self.static, self.guard, self.next = static, guard, None


def var(toks, nm):
    """operand of a comparison / right-hand side: `* guard` -> VLast, `next` / `next . clone ( )` -> VNext"""
    e = match(toks, "* $g:ident")
    if e is not None and e["g"].s == nm.guard:
        return "VLast"
    e = match(toks, "$n:ident")
    if e is None:
        e = match(toks, "$n:ident . clone ( )")
    if e is not None and nm.next is not None and e["n"].s == nm.next:
        return "VNext"
    e = match(toks, "( $x:rest )")
    if e is not None:
        return var(e["x"], nm)
    return None


def expr(toks, nm):
    if match(toks, SYSTIME + " :: now ( )") is not None:
        return "ENow"
    if match(toks, SYSTIME + " :: UNIX_EPOCH") is not None:
        return "EEpoch"
    v = var(toks, nm)
    if v is not None:
        return "(EVar %s)" % v
    e = match(toks, "$a:rest + $d:rest")
    if e is not None:
        v, n = var(e["a"], nm), duration(e["d"])
        if v is not None and n is not None:
            return "(EAdd %s %d)" % (v, n)
    return None


def duration(toks):
    e = match(toks, ":: std :: time :: Duration :: new ( $s:lit , $n:lit )")
    if e is not None and re.match(r"^[0-9_]+$", e["s"].s) and re.match(r"^[0-9_]+$", e["n"].s):
        return int(e["s"].s.replace("_", "")) * 10 ** 9 + int(e["n"].s.replace("_", ""))
    for fn, mul in (("from_nanos", 1), ("from_micros", 10 ** 3), ("from_millis", 10 ** 6), ("from_secs", 10 ** 9)):
        e = match(toks, ":: std :: time :: Duration :: %s ( $n:lit )" % fn)
        if e is not None and re.match(r"^[0-9_]+$", e["n"].s):
            return int(e["n"].s.replace("_", "")) * mul
    return None


def bexp(toks, nm):
    e = match(toks, "! ( $c:rest )")
    if e is not None:
        b = bexp(e["c"], nm)
        return None if b is None else "(BNot %s)" % b
    e = match(toks, "( $c:rest )")
    if e is not None:
        return bexp(e["c"], nm)
    # binary comparison at top level: exactly one comparison operator token
    idx = [i for i, t in enumerate(toks) if t.k == "p" and t.s in OPS]
    if len(idx) != 1:
        return None
    i = idx[0]
    a, b = var(toks[:i], nm), var(toks[i + 1:], nm)
    if a is None or b is None:
        return None
    return "(BCmp %s %s %s)" % (OPS[toks[i].s], a, b)


def stmt(st, nm):
    e = match(st, "while $c:rest { $b:rest }")
    if e is not None:
        c = bexp(e["c"], nm)
        if c is None:
            return "SUnknown"
        return "(SWhile %s %s)" % (c, block(e["b"], nm))
    e = match(st, "if $c:rest { $t:rest } else { $e:rest }")
    if e is not None:
        c = bexp(e["c"], nm)
        if c is None:
            return "SUnknown"
        return "(SIf %s %s %s)" % (c, block(e["t"], nm), block(e["e"], nm))
    e = match(st, "if $c:rest { $t:rest }")
    if e is not None:
        c = bexp(e["c"], nm)
        if c is None:
            return "SUnknown"
        return "(SIf %s %s [])" % (c, block(e["t"], nm))
    e = match(st, "let mut $n:ident = $e:rest ;")
    if e is None:
        e = match(st, "let $n:ident = $e:rest ;")
    if e is not None and nm.next is None:
        x = expr(e["e"], nm)
        if x is None:
            return "SUnknown"
        nm.next = e["n"].s
        return "(SAssign VNext %s)" % x
    e = match(st, "$n:ident += $d:rest ;")
    if e is not None and e["n"].s == nm.next:
        n = duration(e["d"])
        return "SUnknown" if n is None else "(SAssign VNext (EAdd VNext %d))" % n
    e = match(st, "$n:ident = $e:rest ;")
    if e is not None and e["n"].s == nm.next:
        x = expr(e["e"], nm)
        return "SUnknown" if x is None else "(SAssign VNext %s)" % x
    e = match(st, "* $g:ident = $e:rest ;")
    if e is not None and e["g"].s == nm.guard:
        x = expr(e["e"], nm)
        return "SUnknown" if x is None else "(SAssign VLast %s)" % x
    return "SUnknown"


def block(toks, nm):
    return "[" + "; ".join(stmt(s, nm) for s in split_stmts(toks)) + "]"


def debut_ir(fn):
    """fn: method dict of ir.parse_fn for `debut`. Returns (coq term, notes)"""
    if fn is None or fn.get("body") is None:
        return "DUnknown", ["no debut function"]
    notes = []
    if fn["self"] != "" or fn["params"] or fn["async"] or fn["generics"]:
        return "DUnknown", ["unexpected signature of debut"]
    if render(rs.parse(fn["ret"])) != SYSTIME:
        return "DUnknown", ["unexpected return type " + fn["ret"]]
    stmts = split_stmts(fn["body"])
    if len(stmts) < 3:
        return "DUnknown", ["body too short"]
    static = False
    e = match(stmts[0], T_STATIC)
    if e is None:
        return "DUnknown", ["first statement is not the static LAST mutex: " + render(stmts[0])[:120]]
    static = True
    lname = e["L"].s
    e = match(stmts[1], T_LOCK)
    if e is None or e["L"].s != lname:
        return "DUnknown", ["second statement does not bind the guard of LAST.lock(): " + render(stmts[1])[:120]]
    nm = Names(lname, e["g"].s)
    tail = stmts[-1]
    body = [stmt(s, nm) for s in stmts[2:-1]]
    ret = var(tail, nm) if not is_p(tail[-1], ";") else None
    if ret is None:
        e = match(tail, "return $x:rest ;")
        ret = var(e["x"], nm) if e is not None else None
    if ret is None:
        return "DUnknown", ["tail expression not recognised: " + render(tail)[:120]]
    # the guard must not be mentioned by any statement other than through `* guard` (e.g. drop(guard), a re-lock)
    flat = rs.flat(fn["body"])
    uses = sum(1 for i, t in enumerate(flat) if t == nm.guard)
    derefs = sum(1 for i, t in enumerate(flat) if t == nm.guard and i > 0 and flat[i - 1] == "*")
    locked = (uses == derefs + 1) and flat.count(lname) == 2
    term = "{| d_static := %s; d_locked := %s; d_body := [%s]; d_ret := %s |}" % ("true" if static else "false", "true" if locked else "false", "; ".join(body), ret)
    return term, notes


# ---------------------------------------------------------------------------------------------------------------
def operand(toks):
    e = match(toks, "* $x:rest")
    if e is not None:
        toks = e["x"]
    e = match(toks, "& $x:rest")
    if e is not None:
        toks = e["x"]
    e = match(toks, "$s:ident . $f:ident")
    if e is None:
        return None
    side = {"self": "Self", "other": "Other"}.get(e["s"].s)
    fld = {"debut": "FDebut", "name": "FName"}.get(e["f"].s)
    if side is None or fld is None:
        return None
    return "(Op %s %s)" % (side, fld)


def cmp_body(fn, which):
    if fn is None or fn.get("body") is None:
        return "CUnknown"
    if [p[0] for p in fn["params"]] != ["other"] or fn["self"].replace(" ", "") != "&self":
        return "CUnknown"
    b = fn["body"]
    if b and is_p(b[-1], ";"):
        return "CUnknown"
    if which == "eq":
        for op, c in (("==", "CEq"), ("!=", "CNe")):
            idx = [i for i, t in enumerate(b) if is_p(t, op)]
            if len(idx) == 1:
                x, y = operand(b[:idx[0]]), operand(b[idx[0] + 1:])
                if x and y and is_p(b[0], "*") and is_p(b[idx[0] + 1], "*"):
                    return "(%s %s %s)" % (c, x, y)
        return "CUnknown"
    meth = {"cmp": [("cmp", "CCmp")], "partial_cmp": [("partial_cmp", "CPartial")]}[which]
    for mname, c in meth:
        e = match(b, "$r:rest . %s ( & $a:rest )" % mname)
        if e is not None:
            x, y = operand(e["r"]), operand(e["a"])
            if x and y and not is_p(e["r"][0], "*"):
                return "(%s %s %s)" % (c, x, y)
    if which == "partial_cmp":
        e = match(b, "Some ( $r:rest . cmp ( & $a:rest ) )")
        if e is not None:
            x, y = operand(e["r"]), operand(e["a"])
            if x and y:
                return "(CSomeCmp %s %s)" % (x, y)
    return "CUnknown"


ARC_SYSTIME = ":: std :: sync :: Arc < :: std :: time :: SystemTime >"


def cmp_ir(mdl, member_of_family=False):
    """mdl: one model of ir.parse_expansion. Returns (coq term, facts dict)"""
    traits = {}
    for t in mdl["traits"]:
        name = (t["trait"] or "").split("::")[-1].strip()
        traits.setdefault(name, []).append(t)
    def one(tn, mn):
        recs = traits.get(tn, [])
        if len(recs) != 1 or len(recs[0]["methods"]) != 1 or recs[0]["methods"][0].get("name") != mn:
            return None
        return recs[0]["methods"][0]
    eqb = cmp_body(one("PartialEq", "eq"), "eq")
    pcb = cmp_body(one("PartialOrd", "partial_cmp"), "partial_cmp")
    cb = cmp_body(one("Ord", "cmp"), "cmp")
    eqm = len(traits.get("Eq", [])) == 1 and not traits["Eq"][0]["methods"]
    cnt = "CntUnknown"
    ctor_ok = False
    for m in mdl["methods"]:
        if m.get("name") == "inter_get_count" and m.get("body") is not None:
            for pre in ("", ":: "):
                for fnm, c in (("strong_count", "CntStrong"), ("weak_count", "CntWeak")):
                    e = match(m["body"], pre + "std :: sync :: Arc :: %s ( & self . $f:ident )" % fnm)
                    if e is not None and e["f"].s in ("debut", "name") and m["self"].replace(" ", "") == "&self" and not m["params"]:
                        cnt = "(%s %s)" % (c, {"debut": "FDebut", "name": "FName"}[e["f"].s])
        if m.get("name") in ("new", "try_new") and m.get("body_ir") and m["body_ir"][0] == "BCtor":
            c = m["body_ir"][1]
            fields = dict(c["fields"] or [])
            arc = fields.get("debut") == ("SOther", ":: std :: sync :: Arc :: new ( debut )")
            if member_of_family:
                src_ok = any(p[0] == "debut" and render(rs.parse(p[1])) == SYSTIME for p in m["params"]) and c["debut_call"] is None
            else:
                src_ok = c["debut_call"] is not None and c["debut_call"][0] == "debut" and c["order"].count("debut") == 1
            ctor_ok = arc and src_ok
    live = mdl["live"] or {"attrs": [], "fields": []}
    derive = any(re.match(r"^derive \( (.* , )?Clone( , .*)? \)$", a) for a in live["attrs"])
    fty = dict((f[0], f[1]) for f in live["fields"]).get("debut")
    clone_ok = derive and fty == ARC_SYSTIME
    term = ("{| c_eq := %s; c_partial := %s; c_cmp := %s; c_eq_marker := %s; c_count := %s; c_clone_derived := %s; c_arc_fresh := %s |}"
            % (eqb, pcb, cb, "true" if eqm else "false", cnt, "true" if clone_ok else "false", "true" if ctor_ok else "false"))
    return term, {"eq": eqb, "partial_cmp": pcb, "cmp": cb, "eq_marker": eqm, "count": cnt, "clone": clone_ok, "ctor": ctor_ok}


def family_ctor_ok(fam):
    """the family constructor calls Self::debut() exactly once and hands a copy of that value to every member"""
    if fam is None or fam["impl"] is None:
        return False
    for m in fam["impl"]["methods"]:
        if m.get("name") in ("new", "try_new") and m.get("body") is not None:
            stmts = split_stmts(m["body"])
            calls = [s for s in stmts if match(s, "let debut = Self :: debut ( ) ;") is not None]
            txt = render(m["body"])
            members = re.findall(r"(\w+) :: new \( ([^()]*(?:\( \))?[^()]*(?:\( \))?) \)", txt)
            mem_ok = [a for (n, a) in members if n.endswith("Live")]
            return len(calls) == 1 and txt.count("debut ( )") == 1 and len(mem_ok) >= 1 and all(a.strip().endswith("debut . clone ( )") for a in mem_ok)
    return False
