(* C03 -- each accepted call runs exactly once and its caller gets its own reply.  Statements only. *)
From Coq Require Import List Arith.
Import ListNotations.
From IT Require Import Sdpl.IR Sdpl.Elab Sdpl.Wf Runtime.Actor Runtime.Lists Runtime.ActorInv Runtime.InvDefs Runtime.Combined.

Section C03.
Context {A V : Type} (sem : nat -> A -> list V -> option (A * V)) (sem_slf : nat -> A -> list V -> V) (dv : V).
Notation run := (run sem sem_slf dv).

(* while the actor is alive (nothing discarded, no self-consuming stop) every call the channel accepted is - exactly once -
   executed, in progress, or still queued: none lost, none duplicated *)
Theorem C03_exactly_once : forall (m : model), wf_C03 m = true ->
  forall a0 progs sched, let s := run (elab m) a0 progs sched in
  dropped s = [] -> moved s = 0 ->
  NoDup (enq s) /\ enq s = applied_ids s ++ busy_id s ++ qids s /\ (alive s = true -> lost s = []).
Proof.
  intros m W a0 progs sched s D M.
  destruct (exactly_once sem sem_slf dv (elab m) a0 progs sched D M) as [N E]. repeat split; auto.
  unfold wf_C03, wf_C02 in W. apply andb_prop in W. destruct W as [_ B].
  exact (no_loss_reachable sem sem_slf dv (elab m) a0 progs sched B).
Qed.

(* each execution is the execution of an issued call with exactly the argument values supplied, by position *)
Theorem C03_same_arguments : forall (m : model), wf_C03 m = true ->
  forall a0 progs sched, let s := run (elab m) a0 progs sched in
  forall c callee args r, In (c, callee, args, r) (applied s) ->
  exists k vs rm, In (c, k, vs) (issued s) /\ meth (elab m) k = Some rm /\ callee = k /\ (length vs = length (rm_args rm) -> args = vs).
Proof.
  intros m W a0 progs sched. apply executed_as_issued.
  unfold wf_C03, wf_C02, wf_C01 in W. repeat (apply andb_prop in W; destruct W as [W ?]). assumption.
Qed.

(* a value-returning call returns precisely the value produced by the execution of that very call; no caller ever
   receives the reply to a different call *)
Theorem C03_own_reply : forall (m : model), wf_C03 m = true ->
  forall a0 progs sched, let s := run (elab m) a0 progs sched in
  forall t cl c v, nth_error (clients s) t = Some cl -> In (c, Returned v) (c_rets cl) ->
  fst c = t /\ exists callee args, In (c, callee, args, v) (applied s).
Proof.
  intros m W a0 progs sched. apply own_reply.
  unfold wf_C03, wf_C02, wf_C01 in W. apply andb_prop in W. destruct W as [W _]. apply andb_prop in W. exact (proj2 W).
Qed.

(* call ids are unique, so "the execution of that call" is well defined *)
Theorem C03_ids_unique : forall (m : model) a0 progs sched, let s := run (elab m) a0 progs sched in
  NoDup (map (fun e => fst (fst e)) (issued s)).
Proof. intros m a0 progs sched. destruct (Inv_reachable sem sem_slf dv (elab m) a0 progs sched) as (I & _). apply I. Qed.
End C03.

Print Assumptions C03_exactly_once.
Print Assumptions C03_same_arguments.
Print Assumptions C03_own_reply.
Print Assumptions C03_ids_unique.
