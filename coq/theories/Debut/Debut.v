(* Clock model: statement form of the generated `debut()` body and an interpreter that gives meaning to
   ALTERNATIVE bodies too (other loop conditions, missing re-read, hoisted equality test, no store ...).
   Time is N nanoseconds; the clock is an arbitrary function  nat -> N  (k-th reading), never an axiom.
   This file contains definitions only (so that it still runs when a proof breaks); proofs are in DebutThm.v. *)
From Coq Require Import List NArith Bool Arith.
Import ListNotations.
Open Scope N_scope.

Inductive var := VLast | VNext.
Inductive cmp_op := OLt | OLe | OEq | ONe | OGe | OGt.
Inductive expr :=
  | ENow                      (* ::std::time::SystemTime::now()          : consumes one clock reading *)
  | EVar (v : var)            (* *last_time / next_time / next_time.clone() *)
  | EAdd (v : var) (n : N)    (* v + Duration::new(0, n) *)
  | EEpoch.                   (* SystemTime::UNIX_EPOCH *)
Inductive bexp :=
  | BCmp (o : cmp_op) (a b : var)
  | BNot (b : bexp).
Inductive stmt :=
  | SAssign (v : var) (e : expr)        (* let mut v = e;  v = e;  v += Duration  (as EAdd v n) *)
  | SIf (c : bexp) (th el : list stmt)
  | SWhile (c : bexp) (body : list stmt)
  | SUnknown.                           (* anything the translator did not recognise; no wf accepts it, execution is stuck *)

Record debut_ir := {
  d_static : bool;          (* LAST is a `static` Mutex initialised with UNIX_EPOCH (one per generated function) *)
  d_locked : bool;          (* the guard of LAST.lock() is bound at the top of the body and lives to its end *)
  d_body : list stmt;
  d_ret : var               (* tail expression *)
}.

Definition DUnknown : debut_ir := {| d_static := false; d_locked := false; d_body := [SUnknown]; d_ret := VNext |}.

Record st := { s_last : N; s_next : N; s_pos : nat }.

Definition val (v : var) (s : st) : N := match v with VLast => s_last s | VNext => s_next s end.
Definition set (v : var) (x : N) (p : nat) (s : st) : st :=
  match v with VLast => {| s_last := x; s_next := s_next s; s_pos := p |} | VNext => {| s_last := s_last s; s_next := x; s_pos := p |} end.

Definition op_eval (o : cmp_op) (x y : N) : bool :=
  match o with OLt => x <? y | OLe => x <=? y | OEq => x =? y | ONe => negb (x =? y) | OGe => y <=? x | OGt => y <? x end.

Fixpoint beval (c : bexp) (s : st) : bool :=
  match c with BCmp o a b => op_eval o (val a s) (val b s) | BNot b => negb (beval b s) end.

Definition eeval (clock : nat -> N) (e : expr) (s : st) : N * nat :=
  match e with
  | ENow => (clock (s_pos s), S (s_pos s))
  | EVar v => (val v s, s_pos s)
  | EAdd v n => (val v s + n, s_pos s)
  | EEpoch => (0, s_pos s)
  end.

Inductive outcome := Next (k : list stmt) (s : st) | Done (s : st) | Stuck.

(* one small step on (continuation, state) *)
Definition step1 (clock : nat -> N) (k : list stmt) (s : st) : outcome :=
  match k with
  | [] => Done s
  | SAssign v e :: r => let '(x, p) := eeval clock e s in Next r (set v x p s)
  | SIf c a b :: r => Next ((if beval c s then a else b) ++ r) s
  | SWhile c body :: r => if beval c s then Next (body ++ SWhile c body :: r) s else Next r s
  | SUnknown :: _ => Stuck
  end.

Fixpoint exec (fuel : nat) (clock : nat -> N) (k : list stmt) (s : st) : option st :=
  match fuel with
  | O => None
  | S f => match step1 clock k s with Next k' s' => exec f clock k' s' | Done s' => Some s' | Stuck => None end
  end.

(* one call of debut(): LAST holds `last`, the next unread clock reading has index `pos`.
   Result: final state (new LAST, returned local, index of the next unread reading). *)
Definition run_full (ir : debut_ir) (fuel : nat) (clock : nat -> N) (pos : nat) (last : N) : option st :=
  exec fuel clock (d_body ir) {| s_last := last; s_next := 0; s_pos := pos |}.

Definition run_debut (ir : debut_ir) (fuel : nat) (clock : nat -> N) (pos : nat) (last : N) : option (N * nat) :=
  match run_full ir fuel clock pos last with Some s => Some (val (d_ret ir) s, s_pos s) | None => None end.

(* LAST as seen by the next call *)
Definition next_last (ir : debut_ir) (s : st) : N := if d_static ir then s_last s else 0.

(* n calls one after the other (the order in which they obtain the LAST mutex), sharing one stream of readings *)
Fixpoint run_seq (ir : debut_ir) (fuel : nat) (clock : nat -> N) (pos : nat) (last : N) (n : nat) : option (list N) :=
  match n with
  | O => Some []
  | S m => match run_full ir fuel clock pos last with
           | None => None
           | Some s => match run_seq ir fuel clock (s_pos s) (next_last ir s) m with
                       | None => None
                       | Some ts => Some (val (d_ret ir) s :: ts)
                       end
           end
  end.

(* ---------- well-formedness: the shapes for which the theorems are proved ---------- *)

Definition wf_cond (c : bexp) : bool :=      (* "next_time is not after last_time" *)
  match c with
  | BNot (BCmp OLt VLast VNext) | BNot (BCmp OGt VNext VLast) | BCmp OGe VLast VNext | BCmp OLe VNext VLast => true
  | _ => false
  end.

Definition wf_eq (c : bexp) : bool :=
  match c with
  | BCmp OEq VLast VNext | BCmp OEq VNext VLast => true
  | _ => false
  end.

Definition canon (c e : bexp) (n : N) : list stmt :=
  [ SAssign VNext ENow;
    SWhile c [ SIf e [SAssign VNext (EAdd VNext n)] [SAssign VNext ENow] ];
    SAssign VLast (EVar VNext) ].

Definition wf_body (b : list stmt) : bool :=
  match b with
  | [ SAssign VNext ENow;
      SWhile c [ SIf e [SAssign VNext (EAdd VNext n)] [SAssign VNext ENow] ];
      SAssign VLast (EVar VNext) ] => wf_cond c && wf_eq e && (1 <=? n)
  | _ => false
  end.

Definition wf_debut (ir : debut_ir) : bool :=
  d_static ir && d_locked ir && wf_body (d_body ir) && match d_ret ir with VNext => true | VLast => false end.

(* nanoseconds added to an equal reading *)
Definition bump_of (ir : debut_ir) : N :=
  match d_body ir with
  | [ _; SWhile _ [ SIf _ [SAssign _ (EAdd _ n)] _ ]; _ ] => n
  | _ => 0
  end.

(* what the macro emits today *)
Definition debut_ir_canonical : debut_ir :=
  {| d_static := true; d_locked := true;
     d_body := canon (BNot (BCmp OLt VLast VNext)) (BCmp OEq VLast VNext) 1;
     d_ret := VNext |}.

(* ---------- executable search for a failing input (used by ./check on a translated body that fails wf) ---------- *)

(* the property's oracle for one call: strictly after last, completed exactly at the first reading that is not behind,
   stored in LAST *)
Definition first_ok (clock : nat -> N) (pos : nat) (last : N) (len : nat) : option nat :=
  (fix go (j : nat) (rem : nat) : option nat :=
     match rem with O => None | S r => if last <=? clock (pos + j)%nat then Some j else go (S j) r end) O len.

Definition call_ok (ir : debut_ir) (fuel : nat) (clock : nat -> N) (pos : nat) (last : N) (len : nat) : bool :=
  match first_ok clock pos last len, run_full ir fuel clock pos last with
  | Some j, Some s => (last <? val (d_ret ir) s) && (s_pos s =? pos + j + 1)%nat && (next_last ir s =? val (d_ret ir) s)
  | Some _, None => false
  | None, Some s => (last <? val (d_ret ir) s) && (next_last ir s =? val (d_ret ir) s)
  | None, None => true
  end.

Definition clock_of (rs : list N) (dflt : N) : nat -> N := fun i => nth i rs dflt.
(* scripted readings, afterwards the clock runs ahead: d, d+1, d+2, ... *)
Definition clock_up (rs : list N) (d : N) : nat -> N :=
  fun i => if (i <? List.length rs)%nat then nth i rs 0 else d + N.of_nat (i - List.length rs).

(* ---------- functions used by the correspondence with the real code ---------- *)
(* n calls on one shared stream, per-call (stamp, index of next unread reading); also the final LAST *)
Fixpoint trace (ir : debut_ir) (fuel : nat) (clock : nat -> N) (pos : nat) (last : N) (n : nat) : list (option (N * nat)) * N :=
  match n with
  | O => ([], last)
  | S m => match run_full ir fuel clock pos last with
           | None => ([None], last)
           | Some s => let '(tr, l) := trace ir fuel clock (s_pos s) (next_last ir s) m in (Some (val (d_ret ir) s, s_pos s) :: tr, l)
           end
  end.

(* a process: LAST starts from `last`; every item is (scripted readings, start of the increasing readings that follow, number of calls sharing them) *)
Fixpoint run_items (ir : debut_ir) (fuel : nat) (last : N) (items : list (list N * N * nat)) : list (list (option (N * nat))) :=
  match items with
  | [] => []
  | (rs, d, n) :: r => let '(tr, l) := trace ir fuel (clock_up rs d) 0 last n in tr :: run_items ir fuel l r
  end.

(* all reading sequences of length <= len whose consecutive steps are -1, 0, +1, starting one step from `prev` *)
Fixpoint ext (prev : N) (len : nat) : list (list N) :=
  match len with
  | O => [[]]
  | S l => [] :: flat_map (fun r => map (cons r) (ext r l)) [prev - 1; prev; prev + 1]
  end.

(* failing-input search on a translated body: the scripts on which one call violates the oracle (LAST = 100, afterwards the clock jumps ahead) *)
Definition search_single (ir : debut_ir) (len : nat) : list (list N) :=
  filter (fun rs => negb (call_ok ir 200 (clock_up rs 1000) 0 100 (S (List.length rs)))) (ext 100 len).
