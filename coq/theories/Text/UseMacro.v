(* Text/UseMacro.v -- model of `src/use_macro.rs` (struct UseMacro): the `use`-tree algebra with which
   `file::expand_macro` recognises the attribute paths that name an interthread macro.

   Rust                                   here
   syn::UseTree::{Path,Name,Rename,Glob,Group}   utree
   UseMacro { mac_name, imp_path }        um  (mod_name is the constant "interthread",
                                               mac_path the constant interthread::<mac_name>)
   UseMacro::file_self_use                fsu
   UseMacro::update                       update
   UseMacro::is                           is_mac      (syn::Path equality: leading colon + segments)
   UseMacro::exclude                      exclude     (in Text/Example.v, over attributes)

   Identifiers are strings; a `syn::Path` of an attribute is (leading `::`?, segments). *)
From Coq Require Import List String Bool Permutation Lia PeanoNat.
Import ListNotations.
Open Scope string_scope.
Open Scope list_scope.

Definition INTERTHREAD : string := "interthread".

Inductive utree : Type :=
| UPath (id : string) (t : utree)          (* id :: t *)
| UName (id : string)                      (* id *)
| URename (id al : string)                 (* id as al *)
| UGlob                                    (* * *)
| UGroup (ts : list utree).                (* { t, .. } *)

Section utree_induction.
  Variable P : utree -> Prop.
  Hypothesis HPath : forall id t, P t -> P (UPath id t).
  Hypothesis HName : forall id, P (UName id).
  Hypothesis HRename : forall id al, P (URename id al).
  Hypothesis HGlob : P UGlob.
  Hypothesis HGroup : forall ts, Forall P ts -> P (UGroup ts).
  Fixpoint utree_ind' (t : utree) : P t :=
    match t with
    | UPath id s => HPath id s (utree_ind' s)
    | UName id => HName id
    | URename id al => HRename id al
    | UGlob => HGlob
    | UGroup ts => HGroup ts ((fix go (l : list utree) : Forall P l :=
                                 match l with [] => Forall_nil P | x :: r => Forall_cons x (utree_ind' x) (go r) end) ts)
    end.
End utree_induction.

(* ---- file_self_use ----------------------------------------------------------------------- *)

(* state of the `for _ in 0..len { pop .. insert(0, ..) }` loop over a group: the vector is always
   `front ++ unprocessed`; items are popped from the END of the unprocessed part and, when they do
   not import the macro, re-inserted at the FRONT *)
Inductive gres : Type :=
| GFound (p : string) (pre un : list utree)    (* import found: vector is pre ++ un *)
| GNot (front : list utree).                   (* all of the suffix processed, nothing found *)

Definition opt_list {T} (o : option T) : list T := match o with Some x => [x] | None => [] end.

Fixpoint fsu (mac : string) (t : utree) : option string * option utree :=
  match t with
  | UPath id sub =>
      if id =? INTERTHREAD then
        match fsu mac sub with
        | (Some p, Some t') => (Some p, Some (UPath id t'))
        | (None, Some t') => (None, Some (UPath id t'))
        | (Some p, None) => (Some p, None)
        | (None, None) => (None, None)
        end
      else (None, Some t)
  | UName id => if id =? mac then (Some mac, None) else (None, Some t)
  | URename id al => if id =? mac then (Some al, None) else (None, Some t)
  | UGlob => (Some mac, None)
  | UGroup ts =>
      match (fix go (l : list utree) : gres :=
               match l with
               | [] => GNot []
               | x :: rest =>
                   match go rest with
                   | GFound p pre un => GFound p pre (x :: un)
                   | GNot front =>
                       match fsu mac x with
                       | (Some p, t') => GFound p (opt_list t' ++ front) []
                       | (None, Some t') => GNot (t' :: front)
                       | (None, None) => GNot front      (* `t.unwrap()` on None: a panic in the Rust code;
                                                            unreachable, see fsu_never_none_none *)
                       end
                   end
               end) ts with
      | GFound p pre un =>
          match pre ++ un with
          | [] => (Some p, None)
          | items => (Some p, Some (UGroup items))
          end
      | GNot _ => (None, Some t)
      end
  end.

(* the loop, named (for the proofs) *)
Fixpoint group_loop (mac : string) (l : list utree) : gres :=
  match l with
  | [] => GNot []
  | x :: rest =>
      match group_loop mac rest with
      | GFound p pre un => GFound p pre (x :: un)
      | GNot front =>
          match fsu mac x with
          | (Some p, t') => GFound p (opt_list t' ++ front) []
          | (None, Some t') => GNot (t' :: front)
          | (None, None) => GNot front
          end
      end
  end.

Lemma fsu_group : forall mac ts,
  fsu mac (UGroup ts) =
  match group_loop mac ts with
  | GFound p pre un => match pre ++ un with [] => (Some p, None) | items => (Some p, Some (UGroup items)) end
  | GNot _ => (None, Some (UGroup ts))
  end.
Proof.
  intros mac ts. simpl.
  assert (E : (fix go (l : list utree) : gres :=
               match l with
               | [] => GNot []
               | x :: rest =>
                   match go rest with
                   | GFound p pre un => GFound p pre (x :: un)
                   | GNot front =>
                       match fsu mac x with
                       | (Some p, t') => GFound p (opt_list t' ++ front) []
                       | (None, Some t') => GNot (t' :: front)
                       | (None, None) => GNot front
                       end
                   end
               end) ts = group_loop mac ts).
  { induction ts as [|x r IH]; simpl; auto. rewrite IH. reflexivity. }
  rewrite E. reflexivity.
Qed.

(* ---- leaves: what a use tree imports ------------------------------------------------------ *)

Inductive leaf : Type := LName (id : string) | LRename (id al : string) | LGlob.

Definition pleaf : Type := (list string * leaf)%type.      (* prefix path, leaf *)

Definition push (id : string) (pl : pleaf) : pleaf := (id :: fst pl, snd pl).

Fixpoint leaves (t : utree) : list pleaf :=
  match t with
  | UPath id s => map (push id) (leaves s)
  | UName id => [([], LName id)]
  | URename id al => [([], LRename id al)]
  | UGlob => [([], LGlob)]
  | UGroup ts => flat_map leaves ts
  end.

Definition oleaves (o : option utree) : list pleaf := match o with Some t => leaves t | None => [] end.

(* the leaves `file_self_use` takes for an import of the macro: every prefix segment is `interthread`
   (zero or more of them) and the leaf is the macro name, a rename of it, or a glob *)
Definition leaf_is (mac : string) (l : leaf) : bool :=
  match l with LName id => id =? mac | LRename id _ => id =? mac | LGlob => true end.

Definition vis (mac : string) (pl : pleaf) : bool :=
  forallb (fun s => s =? INTERTHREAD) (fst pl) && leaf_is mac (snd pl).

(* the name under which the leaf binds the macro *)
Definition bind (mac : string) (l : leaf) : string :=
  match l with LName _ => mac | LRename _ al => al | LGlob => mac end.

Lemma vis_push_inter : forall mac pl, vis mac (push INTERTHREAD pl) = vis mac pl.
Proof. intros mac [p l]. unfold vis, push. simpl. reflexivity. Qed.

Lemma vis_push_other : forall mac id pl, (id =? INTERTHREAD) = false -> vis mac (push id pl) = false.
Proof. intros mac id [p l] H. unfold vis, push. simpl. rewrite H. reflexivity. Qed.

Lemma existsb_map_push_inter : forall mac l, existsb (vis mac) (map (push INTERTHREAD) l) = existsb (vis mac) l.
Proof. induction l; simpl; auto. rewrite vis_push_inter, IHl. reflexivity. Qed.

Lemma existsb_map_push_other : forall mac id l, (id =? INTERTHREAD) = false -> existsb (vis mac) (map (push id) l) = false.
Proof. induction l; simpl; auto. intros H. rewrite vis_push_other, IHl; auto. Qed.

(* ---- the specification of file_self_use ---------------------------------------------------- *)

(* what `file_self_use mac t` returns:
   - no leaf of t is an import of the macro: (None, Some t), t untouched;
   - otherwise: the binding name of the LAST such leaf (source order), and a tree whose leaves are
     all the other leaves of t (order inside groups may be rotated), or None when nothing is left. *)
Definition fsu_post (mac : string) (t : utree) (r : option string * option utree) : Prop :=
  match r with
  | (None, r2) => r2 = Some t /\ existsb (vis mac) (leaves t) = false
  | (Some n, r2) => exists l1 lf l2, leaves t = l1 ++ lf :: l2 /\ vis mac lf = true /\ bind mac (snd lf) = n
                                      /\ existsb (vis mac) l2 = false /\ Permutation (oleaves r2) (l1 ++ l2)
  end.

Definition gres_post (mac : string) (l : list utree) (g : gres) : Prop :=
  match g with
  | GNot front => front = l /\ existsb (vis mac) (flat_map leaves l) = false
  | GFound n pre un => exists l1 lf l2, flat_map leaves l = l1 ++ lf :: l2 /\ vis mac lf = true /\ bind mac (snd lf) = n
                                      /\ existsb (vis mac) l2 = false /\ Permutation (flat_map leaves (pre ++ un)) (l1 ++ l2)
  end.

Lemma flat_map_app' : forall {A B} (f : A -> list B) l1 l2, flat_map f (l1 ++ l2) = flat_map f l1 ++ flat_map f l2.
Proof. intros. induction l1; simpl; auto. rewrite IHl1, app_assoc. reflexivity. Qed.

Lemma group_loop_spec : forall mac l, Forall (fun t => fsu_post mac t (fsu mac t)) l -> gres_post mac l (group_loop mac l).
Proof.
  intros mac l H. induction H as [|x r Hx Hr IH]; simpl.
  - split; reflexivity.
  - destruct (group_loop mac r) as [n pre un | front]; simpl in IH.
    + destruct IH as (l1 & lf & l2 & E & V & B & N & Pm). simpl.
      exists (leaves x ++ l1), lf, l2. repeat split; auto.
      * rewrite E, app_assoc. reflexivity.
      * rewrite flat_map_app'. simpl. rewrite flat_map_app' in Pm.
        rewrite <- app_assoc.
        apply Permutation_trans with (leaves x ++ flat_map leaves pre ++ flat_map leaves un).
        { rewrite !app_assoc. apply Permutation_app_tail. apply Permutation_app_comm. }
        apply Permutation_app_head. exact Pm.
    + destruct IH as [Ef Nr]. subst front.
      destruct (fsu mac x) as [[n|] r2] eqn:Ex; simpl in Hx.
      * destruct Hx as (l1 & lf & l2 & E & V & B & N & Pm). simpl.
        exists l1, lf, (l2 ++ flat_map leaves r). repeat split; auto.
        -- rewrite E, <- app_assoc. reflexivity.
        -- rewrite existsb_app, N, Nr. reflexivity.
        -- rewrite app_nil_r, flat_map_app'.
           replace (flat_map leaves (opt_list r2)) with (oleaves r2) by (destruct r2; simpl; rewrite ?app_nil_r; reflexivity).
           rewrite app_assoc. apply Permutation_app_tail. exact Pm.
      * destruct Hx as [E N]. subst r2. simpl. split; auto.
        rewrite existsb_app, N, Nr. reflexivity.
Qed.

Theorem fsu_spec : forall mac t, fsu_post mac t (fsu mac t).
Proof.
  intros mac t. induction t as [id s IH | id | id al | | ts IH] using utree_ind'.
  - (* path *) simpl. destruct (id =? INTERTHREAD) eqn:Ei.
    + apply String.eqb_eq in Ei. subst id.
      destruct (fsu mac s) as [[n|] [s'|]]; simpl in IH |- *.
      * destruct IH as (l1 & lf & l2 & E & V & B & N & Pm).
        exists (map (push INTERTHREAD) l1), (push INTERTHREAD lf), (map (push INTERTHREAD) l2).
        repeat split.
        -- rewrite E, map_app. reflexivity.
        -- rewrite vis_push_inter. exact V.
        -- destruct lf; exact B.
        -- rewrite existsb_map_push_inter. exact N.
        -- rewrite <- map_app. apply Permutation_map. exact Pm.
      * destruct IH as (l1 & lf & l2 & E & V & B & N & Pm).
        exists (map (push INTERTHREAD) l1), (push INTERTHREAD lf), (map (push INTERTHREAD) l2).
        repeat split.
        -- rewrite E, map_app. reflexivity.
        -- rewrite vis_push_inter. exact V.
        -- destruct lf; exact B.
        -- rewrite existsb_map_push_inter. exact N.
        -- rewrite <- map_app. change (@nil pleaf) with (map (push INTERTHREAD) []). apply Permutation_map. exact Pm.
      * destruct IH as [E N]. inversion E; subst s'. split; auto.
        rewrite existsb_map_push_inter. exact N.
      * destruct IH as [E _]. discriminate E.
    + simpl. split; auto. apply existsb_map_push_other. exact Ei.
  - (* name *) simpl. destruct (id =? mac) eqn:E; simpl.
    + exists [], ([], LName id), []. repeat split; auto; try (unfold vis; simpl; rewrite E; reflexivity).
    + split; auto; try (unfold vis; simpl; rewrite E; reflexivity).
  - (* rename *) simpl. destruct (id =? mac) eqn:E; simpl.
    + exists [], ([], LRename id al), []. repeat split; auto; try (unfold vis; simpl; rewrite E; reflexivity).
    + split; auto; try (unfold vis; simpl; rewrite E; reflexivity).
  - (* glob *) simpl. exists [], ([], LGlob), []. repeat split; auto.
  - (* group *) rewrite fsu_group. pose proof (group_loop_spec mac ts IH) as G.
    destruct (group_loop mac ts) as [n pre un | front]; simpl in G.
    + destruct G as (l1 & lf & l2 & E & V & B & N & Pm).
      assert (Q : fsu_post mac (UGroup ts) (Some n, match pre ++ un with [] => None | _ => Some (UGroup (pre ++ un)) end)).
      { simpl. exists l1, lf, l2. repeat split; auto.
        destruct (pre ++ un) eqn:Epu; simpl in *; exact Pm. }
      destruct (pre ++ un); exact Q.
    + destruct G as [_ N]. simpl. split; auto.
Qed.

(* the `unwrap()` in the group loop never sees None *)
Corollary fsu_never_none_none : forall mac t, fsu mac t <> (None, None).
Proof. intros mac t H. pose proof (fsu_spec mac t) as S. rewrite H in S. simpl in S. destruct S as [E _]. discriminate E. Qed.

Corollary fsu_none_unchanged : forall mac t r, fsu mac t = (None, r) -> r = Some t.
Proof. intros mac t r H. pose proof (fsu_spec mac t) as S. rewrite H in S. exact (proj1 S). Qed.

(* bindings of the macro-importing leaves, in source order *)
Definition vis_binds (mac : string) (ls : list pleaf) : list string :=
  map (fun pl => bind mac (snd pl)) (filter (vis mac) ls).

Definition last_opt {T} (l : list T) : option T := match rev l with x :: _ => Some x | [] => None end.

Lemma last_opt_app : forall {T} (a b : list T), last_opt (a ++ b) = match last_opt b with Some x => Some x | None => last_opt a end.
Proof. intros T a b. unfold last_opt. rewrite rev_app_distr. destruct (rev b); simpl; reflexivity. Qed.

Lemma filter_none : forall {T} (f : T -> bool) l, existsb f l = false -> filter f l = [].
Proof. induction l; simpl; auto. intros H. apply orb_false_iff in H. destruct H as [H1 H2]. rewrite H1. auto. Qed.

(* which name `file_self_use` reports: the binding of the last importing leaf *)
Theorem fsu_reports_last : forall mac t, fst (fsu mac t) = last_opt (vis_binds mac (leaves t)).
Proof.
  intros mac t. pose proof (fsu_spec mac t) as S. destruct (fsu mac t) as [[n|] r]; simpl in *.
  - destruct S as (l1 & lf & l2 & E & V & B & N & _). unfold vis_binds. rewrite E, filter_app. simpl. rewrite V.
    rewrite (filter_none _ _ N). rewrite map_app. simpl. rewrite last_opt_app. simpl. rewrite B. reflexivity.
  - destruct S as [_ N]. unfold vis_binds. rewrite (filter_none _ _ N). reflexivity.
Qed.

(* the leaves that remain are exactly the others *)
Theorem fsu_keeps_others : forall mac t n r, fsu mac t = (Some n, r) ->
  exists l1 lf l2, leaves t = l1 ++ lf :: l2 /\ vis mac lf = true /\ Permutation (oleaves r) (l1 ++ l2).
Proof.
  intros mac t n r H. pose proof (fsu_spec mac t) as S. rewrite H in S. simpl in S.
  destruct S as (l1 & lf & l2 & E & V & _ & _ & Pm). exists l1, lf, l2. auto.
Qed.

(* ---- UseMacro: state, update, is ----------------------------------------------------------- *)

Record apath : Type := { lead : bool; segs : list string }.       (* attribute path: leading `::`, segments *)

Record um : Type := { um_mac : string; um_imp : option string }.

Definition um_new (mac : string) : um := {| um_mac := mac; um_imp := None |}.

Fixpoint list_eqb (a b : list string) : bool :=
  match a, b with
  | [], [] => true
  | x :: a', y :: b' => (x =? y) && list_eqb a' b'
  | _, _ => false
  end.

Lemma list_eqb_eq : forall a b, list_eqb a b = true <-> a = b.
Proof.
  induction a as [|x a IH]; destruct b as [|y b]; simpl; split; intros H; try discriminate; auto.
  - apply andb_true_iff in H. destruct H as [H1 H2]. apply String.eqb_eq in H1. apply IH in H2. subst. reflexivity.
  - inversion H; subst. rewrite String.eqb_refl. simpl. apply IH. reflexivity.
Qed.

Definition is_mac (u : um) (p : apath) : bool :=
  negb (lead p) &&
  (list_eqb [INTERTHREAD; um_mac u] (segs p)
   || match um_imp u with Some n => list_eqb [n] (segs p) | None => false end).

Definition update (u : um) (t : utree) : um * option utree :=
  match fsu (um_mac u) t with
  | (Some p, r) => ({| um_mac := um_mac u; um_imp := Some p |}, r)
  | (None, r) => (u, r)
  end.

(* the import state after the `use` items seen so far *)
Definition track (mac : string) (uses : list utree) : um :=
  fold_left (fun u t => fst (update u t)) uses (um_new mac).

Lemma update_mac : forall u t, um_mac (fst (update u t)) = um_mac u.
Proof. intros u t. unfold update. destruct (fsu (um_mac u) t) as [[p|] r]; reflexivity. Qed.

Lemma update_imp : forall u t, um_imp (fst (update u t)) =
  match last_opt (vis_binds (um_mac u) (leaves t)) with Some n => Some n | None => um_imp u end.
Proof.
  intros u t. rewrite <- fsu_reports_last. unfold update. destruct (fsu (um_mac u) t) as [[p|] r]; reflexivity.
Qed.

Lemma vis_binds_app : forall mac a b, vis_binds mac (a ++ b) = vis_binds mac a ++ vis_binds mac b.
Proof. intros. unfold vis_binds. rewrite filter_app, map_app. reflexivity. Qed.

Lemma track_gen : forall uses u,
  let u' := fold_left (fun u t => fst (update u t)) uses u in
  um_mac u' = um_mac u /\
  um_imp u' = match last_opt (vis_binds (um_mac u) (flat_map leaves uses)) with Some n => Some n | None => um_imp u end.
Proof.
  induction uses as [|t r IH]; intros u; simpl.
  - split; reflexivity.
  - destruct (IH (fst (update u t))) as [M I]. simpl in M, I. split.
    + rewrite M. apply update_mac.
    + rewrite I, update_mac, update_imp, vis_binds_app, last_opt_app.
      destruct (last_opt (vis_binds (um_mac u) (flat_map leaves r))); reflexivity.
Qed.

(* single slot, last import wins *)
Theorem track_last : forall mac uses,
  um_mac (track mac uses) = mac /\ um_imp (track mac uses) = last_opt (vis_binds mac (flat_map leaves uses)).
Proof.
  intros mac uses. destruct (track_gen uses (um_new mac)) as [M I]. simpl in M, I. unfold track. split; auto.
  rewrite I. destruct (last_opt _); reflexivity.
Qed.

(* exactly which attribute paths `is` accepts after the `use` items seen so far *)
Theorem is_exact : forall mac uses p,
  is_mac (track mac uses) p = true <->
  lead p = false /\ (segs p = [INTERTHREAD; mac] \/ exists n, last_opt (vis_binds mac (flat_map leaves uses)) = Some n /\ segs p = [n]).
Proof.
  intros mac uses p. destruct (track_last mac uses) as [M I]. unfold is_mac. rewrite M, I. split.
  - intros H. apply andb_true_iff in H. destruct H as [L H]. apply negb_true_iff in L. split; auto.
    apply orb_true_iff in H. destruct H as [H|H].
    + left. apply list_eqb_eq in H. auto.
    + right. destruct (last_opt _) as [n|]; try discriminate. exists n. split; auto. apply list_eqb_eq in H. auto.
  - intros [L [H|(n & E & H)]]; rewrite L; simpl.
    + rewrite H. simpl. rewrite !String.eqb_refl. reflexivity.
    + rewrite E, H. simpl. rewrite String.eqb_refl. simpl. apply orb_true_r.
Qed.

(* ---- what the paths SHOULD denote (Rust name resolution restricted to the documented forms) -------- *)

(* names bound to the macro by the use items of the file: interthread::mac, interthread::mac as n, interthread::* *)
Definition imports_mac (mac : string) (pl : pleaf) : bool := list_eqb [INTERTHREAD] (fst pl) && leaf_is mac (snd pl).

Definition mac_names (mac : string) (ls : list pleaf) : list string :=
  map (fun pl => bind mac (snd pl)) (filter (imports_mac mac) ls).

(* names bound to the crate: `use interthread as it;`  `use interthread::{self as it}` *)
Definition crate_alias (pl : pleaf) : option string :=
  match pl with
  | ([], LRename id al) => if id =? INTERTHREAD then Some al else None
  | ([c], LRename id al) => if (c =? INTERTHREAD) && (id =? "self") then Some al else None
  | _ => None
  end.

Definition crate_aliases (ls : list pleaf) : list string := flat_map (fun pl => opt_list (crate_alias pl)) ls.

Definition mem (s : string) (l : list string) : bool := existsb (fun x => x =? s) l.

Definition denotes (mac : string) (uses : list utree) (p : apath) : bool :=
  let ls := flat_map leaves uses in
  match segs p with
  | [n] => negb (lead p) && mem n (mac_names mac ls)
  | [c; m] => (m =? mac) && ((c =? INTERTHREAD) || (negb (lead p) && mem c (crate_aliases ls)))
  | _ => false
  end.

(* every macro-importing leaf the code sees is a genuine `interthread::..` import (no `use actor;`,
   no `use interthread::interthread::actor`) *)
Definition well_imported (mac : string) (uses : list utree) : bool :=
  forallb (fun pl => negb (vis mac pl) || imports_mac mac pl) (flat_map leaves uses).

Lemma imports_vis : forall mac pl, imports_mac mac pl = true -> vis mac pl = true.
Proof.
  intros mac [p l] H. unfold imports_mac, vis in *. cbn [fst snd] in *. apply andb_true_iff in H. destruct H as [H1 H2].
  apply list_eqb_eq in H1. subst p. cbn [forallb]. rewrite String.eqb_refl, H2. reflexivity.
Qed.

Lemma mem_In : forall s l, mem s l = true <-> In s l.
Proof.
  intros s l. unfold mem. rewrite existsb_exists. split.
  - intros (x & I & E). apply String.eqb_eq in E. subst. exact I.
  - intros I. exists s. split; auto. apply String.eqb_refl.
Qed.

Lemma last_opt_In : forall {T} (l : list T) x, last_opt l = Some x -> In x l.
Proof.
  intros T l x. unfold last_opt. destruct (rev l) eqn:E; intros H; inversion H; subst.
  apply in_rev. rewrite E. left. reflexivity.
Qed.

Lemma vis_binds_sub : forall mac ls, forallb (fun pl => negb (vis mac pl) || imports_mac mac pl) ls = true ->
  vis_binds mac ls = mac_names mac ls.
Proof.
  intros mac ls. unfold vis_binds, mac_names. induction ls as [|pl ls IH]; simpl; auto.
  intros H. apply andb_true_iff in H. destruct H as [H1 H2].
  destruct (vis mac pl) eqn:V; simpl in H1.
  - rewrite H1. simpl. rewrite IH; auto.
  - destruct (imports_mac mac pl) eqn:I.
    + apply imports_vis in I. congruence.
    + apply IH. exact H2.
Qed.

(* soundness: whatever `is` accepts does denote the macro *)
Theorem is_sound : forall mac uses p, well_imported mac uses = true ->
  is_mac (track mac uses) p = true -> denotes mac uses p = true.
Proof.
  intros mac uses p W H. apply is_exact in H. destruct H as [L [H|(n & E & H)]]; unfold denotes; rewrite H, L; simpl.
  - rewrite !String.eqb_refl. reflexivity.
  - apply mem_In. rewrite <- (vis_binds_sub mac _ W). apply last_opt_In. exact E.
Qed.

(* the inputs on which recognition is known to be incomplete *)
Definition abs_path (p : apath) : bool := lead p.
Definition alias_path (p : apath) : bool := match segs p with [c; _] => negb (c =? INTERTHREAD) | _ => false end.
Definition multi_import (mac : string) (uses : list utree) : bool :=
  negb (Nat.leb (List.length (vis_binds mac (flat_map leaves uses))) 1).

Definition known_class (mac : string) (uses : list utree) (p : apath) : bool :=
  abs_path p || alias_path p || multi_import mac uses.

(* full-strength statement (FALSE, see the three _refuted lemmas):
     forall mac uses p, well_imported mac uses = true -> denotes mac uses p = true -> is_mac (track mac uses) p = true *)
Theorem is_complete_guarded : forall mac uses p, well_imported mac uses = true ->
  known_class mac uses p = false -> denotes mac uses p = true -> is_mac (track mac uses) p = true.
Proof.
  intros mac uses p W K D. unfold known_class in K. apply orb_false_iff in K. destruct K as [K K3].
  apply orb_false_iff in K. destruct K as [K1 K2]. unfold abs_path in K1. unfold alias_path in K2.
  apply is_exact. split; auto. unfold denotes in D. rewrite K1 in D. simpl in D.
  destruct (segs p) as [|a [|b [|c r]]] eqn:S; try discriminate.
  - right. exists a. split; auto. apply mem_In in D. rewrite <- (vis_binds_sub mac _ W) in D.
    unfold multi_import in K3. apply negb_false_iff in K3. apply Nat.leb_le in K3.
    destruct (vis_binds mac (flat_map leaves uses)) as [|x [|y l]]; simpl in *.
    + contradiction.
    + destruct D as [D|[]]. subst. reflexivity.
    + lia.
  - left. apply negb_false_iff in K2. apply String.eqb_eq in K2. subst a.
    apply andb_true_iff in D. destruct D as [D _]. apply String.eqb_eq in D. subst b. reflexivity.
Qed.

Definition ap (l : bool) (s : list string) : apath := {| lead := l; segs := s |}.

(* #[::interthread::actor] *)
Lemma is_abs_path_refuted : exists mac uses p, well_imported mac uses = true /\ abs_path p = true /\
  denotes mac uses p = true /\ is_mac (track mac uses) p = false.
Proof. exists "actor", [], (ap true ["interthread"; "actor"]). vm_compute. auto. Qed.

(* use interthread as it;  #[it::actor] *)
Lemma is_crate_alias_refuted : exists mac uses p, well_imported mac uses = true /\ alias_path p = true /\
  denotes mac uses p = true /\ is_mac (track mac uses) p = false.
Proof. exists "actor", [URename "interthread" "it"], (ap false ["it"; "actor"]). vm_compute. auto. Qed.

(* use interthread::actor; use interthread::actor as act;  #[actor] *)
Lemma is_reimport_refuted : exists mac uses p, well_imported mac uses = true /\ multi_import mac uses = true /\
  denotes mac uses p = true /\ is_mac (track mac uses) p = false.
Proof.
  exists "actor", [UPath "interthread" (UName "actor"); UPath "interthread" (URename "actor" "act")], (ap false ["actor"]).
  vm_compute. auto.
Qed.

(* the guards are satisfiable on a non-trivial input:
   use std::{fmt, io::*}; use interthread::{family, {actor as act, example}};   #[act] *)
Example is_complete_example :
  let uses := [UPath "std" (UGroup [UName "fmt"; UPath "io" UGlob]);
               UPath "interthread" (UGroup [UName "family"; UGroup [URename "actor" "act"; UName "example"]])] in
  let p := ap false ["act"] in
  well_imported "actor" uses = true /\ known_class "actor" uses p = false /\ denotes "actor" uses p = true
  /\ is_mac (track "actor" uses) p = true
  /\ snd (update (um_new "actor") (nth 1 uses UGlob)) = Some (UPath "interthread" (UGroup [UGroup [UName "example"]; UName "family"])).
Proof. vm_compute. auto 10. Qed.

(* printing, for the correspondence with the real `file_self_use` *)
Fixpoint show_tree (t : utree) : string :=
  match t with
  | UPath id s => (id ++ "::" ++ show_tree s)%string
  | UName id => id
  | URename id al => (id ++ " as " ++ al)%string
  | UGlob => "*"
  | UGroup ts => ("{" ++ String.concat "," (map show_tree ts) ++ "}")%string
  end.

Definition show_fsu (r : option string * option utree) : string :=
  ((match fst r with Some p => p | None => "-" end) ++ "|" ++ (match snd r with Some t => show_tree t | None => "-" end))%string.
