(* C07: decidable premise over the named IR of a real expansion, and what it implies.
   wf_C07 = wf_C01 (skeleton, routes by position, own reply, loud waits) and, per handle method:
     messaging method : as many user arguments as declared parameters, parameter names distinct,
                        the receiver of the user call resolves to the actor (not to a message field / parameter)
     static delegate  : `A::m(p1, .., pn)` with its own parameters in order
     self-consuming   : `let (a, _, ..) = self.inter_play_stop(); return a.m(p1, .., pn)` where a is not a parameter
     constructor      : the user's constructor receives the handle constructor's parameters in order
   Nothing here depends on the spelling of the generated binders (`inter_actor` since the repair): the `direct` parameter, the arm
   pattern, the closure parameter and the stop-reply binder are read from the IR and resolved by scope. *)
From Coq Require Import List String Ascii NArith Arith Bool Lia.
Import ListNotations.
From IT Require Import Sdpl.IR Sdpl.Elab Sdpl.Wf Runtime.Actor Runtime.ActorInv Runtime.Combined.
Open Scope string_scope.

Fixpoint args_are (args : list src) (ps : list string) : bool :=
  match args, ps with
  | [], [] => true
  | SVar x :: a, p :: q => String.eqb x p && args_are a q
  | _, _ => false
  end.

Definition pnames (lm : lmethod) : list string := map fst (lm_params lm).

(* the receiver of the user call inside the arm / closure is the actor *)
Definition recv_resolves (m : model) (rb : ref_body) : bool :=
  match rb_msg rb with
  | MVariant _ v _ =>
      match find_arm v (m_arms m) with
      | Some (ArmStruct _ binds ab) => recv_ok (m_direct_param m) binds (ab_lock ab) (ab_call ab)
      | _ => false end
  | MClosure _ v cparam _ ab _ =>
      (match find_arm v (m_arms m) with
       | Some (ArmClosure _ b (SVar a) _) => String.eqb a (m_direct_param m) && negb (String.eqb b (m_direct_param m))
       | _ => false end)
      && (match ab_call ab with
          | UMethod (SVar r) _ _ => String.eqb r cparam && match ab_lock ab with None => true | Some _ => false end
          | UStatic _ _ (SVar a0 :: _) => String.eqb a0 cparam
          | _ => false end)
  | MUnknown _ => false
  end.

Definition last_seg (p : string) : string :=
  (* "a::b::C" -> "C" *)
  let fix go (s acc : string) : string :=
    match s with
    | EmptyString => acc
    | String c r => if Ascii.eqb c ":"%char then go r EmptyString else go r (acc ++ String c EmptyString)
    end in go p EmptyString.

Definition all_underscore (l : list string) : bool := forallb (String.eqb "_") l.

Definition meth_ok (m : model) (k : nat) (lm : lmethod) : bool :=
  match lm_body lm with
  | BRef rb =>
      nodup_str (pnames lm) && Nat.eqb (List.length (rm_args (elab_method m k lm))) (List.length (lm_params lm))
      && recv_resolves m rb
  | BStat path f args _ =>
      nodup_str (pnames lm) && args_are args (pnames lm) && String.eqb f (lm_name lm) && String.eqb (last_seg path) (last_seg (m_actor_ty m))
  | BSlf sb =>
      nodup_str (pnames lm) &&
      match sb_binds sb, sb_call sb with
      | a :: rest, UMethod (SVar r) f args =>
          String.eqb a r && negb (mem a (pnames lm)) && negb (String.eqb a "_") && all_underscore rest
          && args_are args (pnames lm) && String.eqb f (lm_name lm)
      | a :: rest, UStatic _ f (SVar r :: args) =>
          String.eqb a r && negb (mem a (pnames lm)) && negb (String.eqb a "_") && all_underscore rest
          && args_are args (pnames lm) && String.eqb f (lm_name lm)
      | _, _ => false end
  | BCtor c =>
      match cb_user c with
      | Some u => nodup_str (pnames lm) && args_are (uc_args u) (pnames lm) && String.eqb (uc_method u) (lm_name lm)
      | None => true end
  | _ => true
  end.

Fixpoint all_meths (f : nat -> lmethod -> bool) (k : nat) (l : list lmethod) : bool :=
  match l with [] => true | x :: t => f k x && all_meths f (S k) t end.

Definition wf_C07 (m : model) : bool := wf_C01 m && all_meths (meth_ok m) 0 (m_methods m).

(* what the check reports per method when the premise fails: (name, routed by position, own reply, meth_ok) *)
Definition c07_facts (m : model) : list (string * bool * bool * bool) :=
  mapi (fun k lm => let rm := elab_method m k lm in
                    (lm_name lm, match lm_body lm with BRef _ => route_ok k rm | _ => true end,
                     implb (rm_reply rm) (rm_reply_own rm), meth_ok m k lm))
       0 (m_methods m).

(* ---- a small environment semantics for the argument lists of the delegates ---- *)
Section Eval.
Context {X : Type}.
(* innermost binding first *)
Fixpoint lookup (env : list (string * X)) (x : string) : option X :=
  match env with [] => None | (y, v) :: t => if String.eqb x y then Some v else lookup t x end.
Definition eval_src (env : list (string * X)) (a : src) : option X := match a with SVar x => lookup env x | _ => None end.

Lemma lookup_params : forall ps vs, NoDup ps -> List.length vs = List.length ps ->
  map (lookup (combine ps vs)) ps = map Some vs.
Proof.
  induction ps as [|p ps IH]; intros [|v vs] N L; try discriminate; [reflexivity|].
  inversion N; subst. cbn. rewrite String.eqb_refl. f_equal.
  rewrite <- (IH vs) by (auto; cbn in L; lia). apply map_ext_in. intros x Hx.
  destruct (String.eqb_spec x p); [subst; contradiction|reflexivity].
Qed.

Lemma lookup_shadowed : forall a act env ps, ~ In a ps ->
  map (lookup ((a, act) :: env)) ps = map (lookup env) ps.
Proof.
  intros a act env ps H. apply map_ext_in. intros x Hx. cbn.
  destruct (String.eqb_spec x a); [subst; contradiction|reflexivity].
Qed.
End Eval.

Lemma args_are_eq : forall args ps, args_are args ps = true -> args = map SVar ps.
Proof.
  induction args as [|a args IH]; intros [|p ps] H; cbn in H; try discriminate; [reflexivity| |].
  - destruct a; discriminate.
  - destruct a; try discriminate. apply andb_prop in H. destruct H as [E H]. apply String.eqb_eq in E. subst.
    cbn. f_equal. apply IH, H.
Qed.

Lemma nodup_str_NoDup : forall l, nodup_str l = true -> NoDup l.
Proof.
  induction l as [|x t IH]; cbn; intros H; [constructor|]. apply andb_prop in H. destruct H as [H1 H2].
  constructor; [|apply IH, H2]. intros Hin. unfold mem in H1.
  assert (E : existsb (String.eqb x) t = true) by (apply existsb_exists; exists x; split; [assumption|apply String.eqb_refl]).
  rewrite E in H1. discriminate.
Qed.

Lemma mem_false_notin x l : mem x l = false -> ~ In x l.
Proof.
  unfold mem. intros H Hin.
  assert (E : existsb (String.eqb x) l = true) by (apply existsb_exists; exists x; split; [assumption|apply String.eqb_refl]).
  congruence.
Qed.

Lemma all_meths_nth f : forall l k i lm, all_meths f k l = true -> nth_error l i = Some lm -> f (k + i) lm = true.
Proof.
  induction l as [|x t IH]; intros k i lm H Hn; [destruct i; discriminate|].
  cbn in H. apply andb_prop in H. destruct H as [H1 H2]. destruct i as [|i]; cbn in Hn.
  - injection Hn as <-. rewrite Nat.add_0_r. exact H1.
  - replace (k + S i) with (S k + i) by lia. exact (IH (S k) i lm H2 Hn).
Qed.

Lemma mapi_nth {X Y} (f : nat -> X -> Y) : forall l k i, nth_error (mapi f k l) i = option_map (f (k + i)) (nth_error l i).
Proof.
  induction l as [|x t IH]; intros k i; [destruct i; reflexivity|]. destruct i as [|i]; cbn.
  - rewrite Nat.add_0_r. reflexivity.
  - rewrite IH. replace (S k + i) with (k + S i) by lia. reflexivity.
Qed.

Lemma wf_C07_C01 m : wf_C07 m = true -> wf_C01 m = true.
Proof. unfold wf_C07. intros H. apply andb_prop in H. apply H. Qed.

Lemma wf_C07_routes m : wf_C07 m = true -> routes_ok (elab m) = true.
Proof.
  intros H. apply wf_C07_C01 in H. unfold wf_C01 in H.
  repeat (apply andb_prop in H; destruct H as [H ?]). assumption.
Qed.

Lemma wf_C07_meth m k lm : wf_C07 m = true -> nth_error (m_methods m) k = Some lm -> meth_ok m k lm = true.
Proof.
  unfold wf_C07. intros H Hn. apply andb_prop in H. destruct H as [_ H].
  exact (all_meths_nth (meth_ok m) (m_methods m) 0 k lm H Hn).
Qed.

(* the resolved method k of the runtime model is the elaboration of the k-th handle method *)
Lemma meth_elab m k rm : meth (elab m) k = Some rm ->
  exists lm, nth_error (m_methods m) k = Some lm /\ rm = elab_method m k lm.
Proof.
  unfold meth, elab. cbn [r_meths]. rewrite mapi_nth. cbn.
  destruct (nth_error (m_methods m) k) as [lm|]; cbn; [|discriminate]. intros E. injection E as <-. eauto.
Qed.

Section Runtime.
Context {A V : Type} (sem : nat -> A -> list V -> option (A * V)) (sem_slf : nat -> A -> list V -> V) (dv : V).

(* every execution of a user method is the execution of an issued call of the handle method of the same index, and -
   for a messaging method called with as many values as it declares parameters - receives exactly those values,
   position by position *)
Theorem arguments_unchanged m : wf_C07 m = true ->
  forall a0 progs sched, let s := run sem sem_slf dv (elab m) a0 progs sched in
  forall c callee args r, In (c, callee, args, r) (applied s) ->
  exists k vs lm, In (c, k, vs) (issued s) /\ nth_error (m_methods m) k = Some lm /\ callee = k
    /\ (forall rb, lm_body lm = BRef rb -> List.length vs = List.length (lm_params lm) -> args = vs).
Proof.
  intros W a0 progs sched s c callee args r H.
  destruct (executed_as_issued sem sem_slf dv (elab m) a0 progs sched (wf_C07_routes m W) c callee args r H)
    as (k & vs & rm & Hi & Hm & -> & Ha).
  destruct (meth_elab m k rm Hm) as (lm & Hn & ->).
  exists k, vs, lm. repeat split; auto.
  intros rb Hb L. apply Ha.
  pose proof (wf_C07_meth m k lm W Hn) as M. unfold meth_ok in M. rewrite Hb in M.
  apply andb_prop in M. destruct M as [M _]. apply andb_prop in M. destruct M as [_ M].
  apply Nat.eqb_eq in M. congruence.
Qed.
End Runtime.

(* static methods delegate directly: the user's function of the same name on the actor type, with the handle
   method's own parameters in order; evaluated in the scope of the handle method they are the supplied values *)
Theorem static_delegates m : wf_C07 m = true ->
  forall k lm path f args aw, nth_error (m_methods m) k = Some lm -> lm_body lm = BStat path f args aw ->
  f = lm_name lm /\ last_seg path = last_seg (m_actor_ty m) /\ args = map SVar (pnames lm) /\
  forall (X : Type) (vs : list X), List.length vs = List.length (lm_params lm) ->
    map (eval_src (combine (pnames lm) vs)) args = map Some vs.
Proof.
  intros W k lm path f args aw Hn Hb. pose proof (wf_C07_meth m k lm W Hn) as M. unfold meth_ok in M. rewrite Hb in M.
  repeat (apply andb_prop in M; destruct M as [M ?]).
  apply String.eqb_eq in H0. apply String.eqb_eq in H. apply args_are_eq in H1. apply nodup_str_NoDup in M.
  repeat split; auto. intros X vs L. subst args. rewrite map_map. cbn [eval_src].
  apply lookup_params; [assumption|]. unfold pnames. rewrite map_length. exact L.
Qed.

(* self-consuming methods: the only new binding is the actor taken from the stop reply; it is no parameter, the user
   method is invoked on it with the handle method's own parameters in order *)
Theorem slf_delegates m : wf_C07 m = true ->
  forall k lm sb, nth_error (m_methods m) k = Some lm -> lm_body lm = BSlf sb ->
  exists a rest f args, sb_binds sb = a :: rest /\ Forall (eq "_") rest /\ a <> "_" /\ ~ In a (pnames lm)
    /\ (sb_call sb = UMethod (SVar a) f args \/ exists p, sb_call sb = UStatic p f (SVar a :: args))
    /\ f = lm_name lm /\ args = map SVar (pnames lm)
    /\ forall (X : Type) (act : X) (vs : list X), List.length vs = List.length (lm_params lm) ->
         let env := (a, act) :: combine (pnames lm) vs in
         eval_src env (SVar a) = Some act /\ map (eval_src env) args = map Some vs.
Proof.
  intros W k lm sb Hn Hb. pose proof (wf_C07_meth m k lm W Hn) as M. unfold meth_ok in M. rewrite Hb in M.
  apply andb_prop in M. destruct M as [N M]. apply nodup_str_NoDup in N.
  destruct (sb_binds sb) as [|a rest] eqn:Eb; [discriminate|].
  assert (G : forall f args r, String.eqb a r && negb (mem a (pnames lm)) && negb (String.eqb a "_") && all_underscore rest
                && args_are args (pnames lm) && String.eqb f (lm_name lm) = true ->
              r = a /\ Forall (eq "_") rest /\ a <> "_" /\ ~ In a (pnames lm) /\ f = lm_name lm /\ args = map SVar (pnames lm)).
  { intros f args r H. repeat (apply andb_prop in H; destruct H as [H ?]).
    apply String.eqb_eq in H. apply String.eqb_eq in H0. apply args_are_eq in H1.
    repeat split; auto.
    - unfold all_underscore in H2. rewrite forallb_forall in H2. apply Forall_forall. intros x Hx. apply String.eqb_eq, H2, Hx.
    - intros E. rewrite E in H3. vm_compute in H3. discriminate.
    - apply mem_false_notin. destruct (mem a (pnames lm)); [discriminate|reflexivity]. }
  assert (E : forall args, args = map SVar (pnames lm) -> ~ In a (pnames lm) ->
              forall (X : Type) (act : X) (vs : list X), List.length vs = List.length (lm_params lm) ->
              let env := (a, act) :: combine (pnames lm) vs in
              eval_src env (SVar a) = Some act /\ map (eval_src env) args = map Some vs).
  { intros args -> Hni X act vs L env. split; [cbn; rewrite String.eqb_refl; reflexivity|].
    rewrite map_map. cbn [eval_src]. unfold env. rewrite lookup_shadowed by assumption.
    apply lookup_params; [assumption|]. unfold pnames. rewrite map_length. exact L. }
  destruct (sb_call sb) as [rcv f args|p f args|] eqn:Ec; try discriminate.
  - destruct rcv as [r| |]; try discriminate. destruct (G f args r M) as (-> & F & Nu & Ni & Ef & Ea).
    exists a, rest, f, args. split; [reflexivity|]. split; [exact F|]. split; [exact Nu|]. split; [exact Ni|].
    split; [left; reflexivity|]. split; [exact Ef|]. split; [exact Ea|]. exact (E args Ea Ni).
  - destruct args as [|[r| |] args]; try discriminate. destruct (G f args r M) as (-> & F & Nu & Ni & Ef & Ea).
    exists a, rest, f, args. split; [reflexivity|]. split; [exact F|]. split; [exact Nu|]. split; [exact Ni|].
    split; [right; exists p; reflexivity|]. split; [exact Ef|]. split; [exact Ea|]. exact (E args Ea Ni).
Qed.

(* a parameter named like the `direct` parameter shadows it inside the arm: the receiver then resolves to the message
   field, and no instance with such an arm satisfies the premise *)
Lemma capture_rejected : forall dp binds lk f args, mem dp binds = true ->
  recv_ok dp binds lk (UMethod (SVar dp) f args) = false.
Proof.
  intros dp binds lk f args H. unfold recv_ok, resolve_arm. destruct lk as [l|].
  - destruct (String.eqb dp (lk_binder l)) eqn:E.
    + unfold lock_on_ok. destruct (lk_on l) as [x| |]; try reflexivity.
      destruct (String.eqb x dp) eqn:E2; [|apply andb_false_r]. apply String.eqb_eq in E2. subst. rewrite H. reflexivity.
    + rewrite H. reflexivity.
  - rewrite H. reflexivity.
Qed.
