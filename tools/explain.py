#!/usr/bin/env python3
import sys,json; sys.path.insert(0,'/verif/lib')
import hook, ir, subprocess
kind, attr, item = sys.argv[1], sys.argv[2], sys.argv[3]
r = hook.run_batch([(kind,[attr,item])])[0]
print(r[0])
if r[0]!='TOKENS': print(r[1][0][:800]); sys.exit()
ex = ir.parse_expansion(r[1][0])
print("unknown:",ex['unknown'])
for m in ex['models']:
    print("script_other",m['script_other'], "play", m['play']['shape'] if isinstance(m['play']['shape'],tuple) else 'ok')
    for a in m['direct']['arms']:
        if a[0]=='Unknown': print(' ARM',a)
    for mm in m['methods']:
        b=mm['body_ir']
        print(' ',mm['name'],b[0], b[1] if b[0]=='Unknown' else (b[1] if b[0]=='BCtor' else ''))
if '-t' in sys.argv:
    open('/tmp/x.rs','w').write(r[1][0]); print(subprocess.run(['rustfmt','--edition','2021','--emit','stdout','/tmp/x.rs'],capture_output=True,text=True).stdout)
