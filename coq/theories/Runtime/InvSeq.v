(* Sequential specification: the executed calls, in execution order, replayed on the user's own type,
   give the actor's current state and the recorded results.  Lifecycle facts for C04. *)
From Coq Require Import List Arith Bool Lia.
Import ListNotations.
From IT Require Import Runtime.Actor Runtime.Lists Runtime.ActorInv.

Section Seq.
Context {A V : Type}.
Variable sem : nat -> A -> list V -> option (A * V).
Variable sem_slf : nat -> A -> list V -> V.
Variable dv : V.
Notation st := (@st A V).
Notation step := (step sem sem_slf dv).
Notation run := (run sem sem_slf dv).

Ltac step_cases H :=
  unfold Actor.step, step_client, step_actor in H;
  repeat match type of H with
  | context [match ?x with _ => _ end] => destruct x eqn:?; try discriminate H
  end;
  try (injection H as <-).

(* the user's type applied to the same calls one after another *)
Inductive Replay (a0 : A) : list (callid * nat * list V * V) -> A -> Prop :=
| rp_nil : Replay a0 [] a0
| rp_snoc l a c k args a' r : Replay a0 l a -> sem k a args = Some (a', r) -> Replay a0 (l ++ [(c, k, args, r)]) a'.

Definition seq_ok (a0 : A) (s : st) :=
  match actor s with Some a => Replay a0 (applied s) a | None => exists a, Replay a0 (applied s) a end.

Lemma seq_step a0 m s ch s' : seq_ok a0 s -> step m s ch = Some s' -> seq_ok a0 s'.
Proof.
  unfold seq_ok. intros I H. destruct ch as [t|]; cbn [Actor.step] in H.
  - step_cases H; cbn in *; assumption.
  - step_cases H; cbn in *;
      repeat (match goal with E : actor s = _ |- _ => rewrite E in * end); cbn in *;
      try assumption; try (eexists; eassumption);
      try (eapply rp_snoc; eassumption); try (eexists; eapply rp_snoc; eassumption);
      try (destruct (actor s) as [aa|] eqn:EA; [eexists; eassumption | assumption]).
Qed.

Theorem seq_reachable m a0 progs sched : seq_ok a0 (run m a0 progs sched).
Proof. unfold Actor.run. apply (inv_run sem sem_slf dv (seq_ok a0) m (seq_step a0 m)). cbn. constructor. Qed.

(* replay is a function of the call list: the single total order determines state and results *)
Lemma Replay_inv a0 l x a : Replay a0 (l ++ [x]) a ->
  exists a1 a' , Replay a0 l a1 /\ sem (snd (fst (fst x))) a1 (snd (fst x)) = Some (a', snd x) /\ a = a'.
Proof.
  intros H. inversion H as [E|l0 a1 c k args a' r R S E].
  - destruct l; discriminate.
  - apply app_inj_tail in E. destruct E as [-> <-]. cbn. eauto.
Qed.

Lemma Replay_det a0 l a b : Replay a0 l a -> Replay a0 l b -> a = b.
Proof.
  revert a b. induction l as [|x l IH] using rev_ind; intros a b Ha Hb.
  - inversion Ha as [|? ? ? ? ? ? ? ? ? E]; [|destruct l; discriminate].
    inversion Hb as [|? ? ? ? ? ? ? ? ? E]; [|destruct l; discriminate]. congruence.
  - apply Replay_inv in Ha. apply Replay_inv in Hb.
    destruct Ha as (a1 & a' & Ra & Sa & ->). destruct Hb as (b1 & b' & Rb & Sb & ->).
    rewrite (IH _ _ Ra Rb) in Sa. congruence.
Qed.

(* ---- lifecycle ---- *)
Definition life_ok (s : st) :=
  ctor_runs s = 1 /\ spawns s = 1 /\ drops s + moved s <= 1 /\
  (exited s = None -> drops s = 0 /\ moved s = 0 /\ actor s <> None) /\
  (exited s <> None -> actor s = None /\ queue s = [] /\ busy s = None) /\
  (exited s = Some Stopped -> moved s = 1) /\
  (forall r, exited s = Some r -> r <> Stopped -> drops s = 1).

Lemma alive_exited (s : st) : negb (alive s) = false -> exited s = None.
Proof. unfold alive. destruct (exited s); [discriminate|reflexivity]. Qed.

Lemma life_step m s ch s' : life_ok s -> step m s ch = Some s' -> life_ok s'.
Proof.
  unfold life_ok. intros (I1 & I2 & I3 & I4 & I5 & I6 & I7) H. destruct ch as [t|]; cbn [Actor.step] in H.
  - step_cases H; cbn in *;
      try (match goal with E : negb (alive s) = false |- _ => apply alive_exited in E end);
      repeat split; intros; auto; try (apply I4; assumption); try (apply I5; assumption); try congruence; eauto.
  - step_cases H; cbn in *;
      destruct I4 as (D & M & Ac); auto;
      repeat split; intros; try discriminate; try congruence; try lia; auto.
    all: try (match goal with E : Some _ = Some ?r, N : ?r <> _ |- _ => injection E as <-; congruence end).
Qed.

Theorem life_reachable m a0 progs sched : life_ok (run m a0 progs sched).
Proof.
  unfold Actor.run. apply (inv_run sem sem_slf dv life_ok m (life_step m)).
  unfold life_ok. cbn. repeat split; intros; try discriminate; try congruence; auto.
Qed.

(* why the actor thread ends: at the step where it exits, one of the four documented causes holds *)
Theorem exit_cause m s ch s' : step m s ch = Some s' -> exited s = None -> forall r, exited s' = Some r ->
  ch = Ac /\
  match r with
  | ChannelClosed => senders s = 0 /\ queue s = [] /\ busy s = None /\ applied s' = applied s
  | Stopped => exists c q, queue s = MStop c :: q /\ r_stop_first m = true
  | PanickedIn c => exists k fs rm a, busy s = Some (Msg c k fs) /\ meth m k = Some rm /\ actor s = Some a
                                      /\ sem (rm_callee rm) a (route dv (rm_args rm) fs) = None
  | ReplyFailed c => slot_get (slots s) c = Some SRxDropped
  end.
Proof.
  intros H E r R. destruct ch as [t|]; cbn [Actor.step] in H.
  - exfalso. step_cases H; cbn in *; congruence.
  - split; [reflexivity|]. step_cases H; cbn in *; try congruence;
      injection R as <-; repeat split; eauto 10.
    match goal with E : (senders s =? 0) = true |- _ => apply Nat.eqb_eq in E; exact E end.
Qed.
End Seq.
