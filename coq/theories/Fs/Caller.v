(* Fs/Caller.v -- the code AROUND the writer (C17).

   `src/parse/mod.rs::edit_write` builds the whole new text of the user's file in memory and hands it to
   `write::write` exactly once.  The all-or-nothing guarantee of the writer (Fs/CrashThm.v `wf_atomic`) is a
   guarantee about ONE call; a caller that commits in several steps (first the file with the `file` markers
   removed, then the file with the generated code) is a sequence of calls, and the process can die between or
   inside them.

   A caller is modelled by the list of contents it hands to the writer, in order, each call running against
   its own fault sequence; the caller goes on to the next call only when the previous one returned Ok (an
   error return aborts the macro, a crash kills the process).

   Results:
     - whatever the caller does, the target holds the previous content or one of the contents handed to the
       writer (`calls_some_content`) and a caller whose calls all return Ok leaves the last one
       (`calls_all_ok_last`);
     - a caller with ONE call is all-or-nothing (`single_call_atomic`) -- this is the premise the check reads
       off the real `edit_write`;
     - a caller with two calls is not: there is a fault sequence that leaves the intermediate content, which is
       neither the previous nor the final one (`two_step_refuted`), although every single call is atomic. *)
From Coq Require Import List String Ascii NArith Bool Arith Lia.
Import ListNotations.
From IT Require Import Fs.Crash Fs.CrashThm.
Open Scope string_scope.

Fixpoint calls (w : wprog) (p tmp : path) (cs : list (content * list fault)) (d : disk) : disk :=
  match cs with
  | [] => d
  | (n, fs) :: rest =>
      let r := run (mkenv p tmp n) w fs d in
      match r_status r with
      | RetOk => calls w p tmp rest (r_disk r)
      | _ => r_disk r
      end
  end.

(* the final content the caller means to leave: the content of its last call *)
Definition final_of (old : content) (cs : list (content * list fault)) : content :=
  last (map fst cs) old.

Lemma calls_some_content : forall w, wf_writer w = true ->
  forall (p tmp : path) (cs : list (content * list fault)) (old : content) (d : disk),
    tmp <> p -> d p = Some old ->
    exists c, In c (old :: map fst cs) /\ calls w p tmp cs d p = Some c.
Proof.
  intros w W p tmp cs. induction cs as [|[n fs] rest IH]; intros old d Hne Hd.
  - exists old. split; [left; reflexivity | exact Hd].
  - cbn [calls map fst].
    pose proof (wf_atomic w W p tmp old n d fs Hne Hd) as A. cbv zeta in A.
    destruct (r_status (run (mkenv p tmp n) w fs d)) eqn:St.
    + destruct A as [A|A]; [exists old | exists n]; (split; [|exact A]); cbn; auto.
    + destruct A as [A|A].
      * destruct (IH old _ Hne A) as [c [Hin Hc]]. exists c. split; [|exact Hc].
        destruct Hin as [->|Hin]; [left; reflexivity | right; right; exact Hin].
      * destruct (IH n _ Hne A) as [c [Hin Hc]]. exists c. split; [|exact Hc].
        destruct Hin as [<-|Hin]; [right; left; reflexivity | right; right; exact Hin].
    + destruct A as [A|A]; [exists old | exists n]; (split; [|exact A]); cbn; auto.
    + destruct A as [A|A]; [exists old | exists n]; (split; [|exact A]); cbn; auto.
Qed.

(* one call: all-or-nothing, for every fault sequence *)
Theorem single_call_atomic : forall w, wf_writer w = true ->
  forall (p tmp : path) (old new : content) (fs : list fault) (d : disk),
    tmp <> p -> d p = Some old ->
    let d' := calls w p tmp [(new, fs)] d in d' p = Some old \/ d' p = Some new.
Proof.
  intros w W p tmp old new fs d Hne Hd. cbv zeta.
  destruct (calls_some_content w W p tmp [(new, fs)] old d Hne Hd) as [c [Hin Hc]].
  cbn in Hin. destruct Hin as [<-|[<-|[]]]; [left | right]; exact Hc.
Qed.

(* the number of calls the all-or-nothing statement tolerates is exactly one as soon as an intermediate
   content differs from both ends *)
Definition all_or_nothing_caller (w : wprog) (news : list content) : Prop :=
  forall (p tmp : path) (old : content) (fss : list (list fault)) (d : disk),
    tmp <> p -> d p = Some old -> List.length fss = List.length news ->
    let d' := calls w p tmp (combine news fss) d in
    d' p = Some old \/ d' p = Some (last news old).

Theorem one_content_caller_atomic : forall w, wf_writer w = true -> forall new, all_or_nothing_caller w [new].
Proof.
  intros w W new p tmp old fss d Hne Hd Hl. destruct fss as [|fs [|? ?]]; try discriminate.
  cbn [combine last]. apply (single_call_atomic w W p tmp old new fs d Hne Hd).
Qed.

(* two calls: the first completes, the process dies at the start of the second *)
Definition ok_run : list fault := repeat FOk 8.

Theorem two_step_refuted : forall (old mid new : content), mid <> old -> mid <> new ->
  ~ all_or_nothing_caller writer_tmp_rename [mid; new].
Proof.
  intros old mid new H1 H2 A.
  specialize (A "f"%string "f.tmp"%string old [ok_run; []] (disk0 "f"%string old)).
  assert (Hne : "f.tmp"%string <> "f"%string) by discriminate.
  specialize (A Hne eq_refl eq_refl). cbv zeta in A.
  assert (E : calls writer_tmp_rename "f" "f.tmp" (combine [mid; new] [ok_run; []]) (disk0 "f" old) "f"%string = Some mid).
  { cbn. reflexivity. }
  rewrite E in A. cbn [last] in A. destruct A as [A|A]; inversion A; congruence.
Qed.

(* the same statement for ANY writer that is correct in the fault-free case: splitting the commit cannot be
   repaired by a better writer *)
Theorem two_step_refuted_any_writer : forall w (old mid new : content) (fs1 : list fault),
  mid <> old -> mid <> new ->
  (let r := run (mkenv "f" "f.tmp" mid) w fs1 (disk0 "f" old) in r_status r = RetOk /\ r_disk r "f"%string = Some mid) ->
  (forall d, r_disk (run (mkenv "f" "f.tmp" new) w [] d) "f"%string = d "f"%string \/ w = WDone \/ w = WFail \/ w = WUnknown) ->
  ~ all_or_nothing_caller w [mid; new].
Proof.
  intros w old mid new fs1 H1 H2 [Hs Hd] Hcrash A.
  specialize (A "f"%string "f.tmp"%string old [fs1; []] (disk0 "f"%string old)).
  assert (Hne : "f.tmp"%string <> "f"%string) by discriminate.
  specialize (A Hne eq_refl eq_refl). cbv zeta in A. cbn [combine calls] in A.
  rewrite Hs in A. cbn [last] in A.
  set (d1 := r_disk (run (mkenv "f" "f.tmp" mid) w fs1 (disk0 "f" old))) in *.
  assert (E : r_disk (run (mkenv "f" "f.tmp" new) w [] d1) "f"%string = Some mid).
  { destruct (Hcrash d1) as [E | [E | [E | E] ] ]; [rewrite E; exact Hd | subst w; exact Hd | subst w; exact Hd | subst w; exact Hd]. }
  destruct (r_status (run (mkenv "f" "f.tmp" new) w [] d1)); rewrite E in A; destruct A as [A|A]; inversion A; congruence.
Qed.

Lemma last_nonempty_default : forall (A : Type) (l : list A) (a x y : A), last (a :: l) x = last (a :: l) y.
Proof. intros A l. induction l as [|b l IH]; intros a x y; [reflexivity|]. cbn [last] in *. apply IH. Qed.

Lemma last_shift : forall (A : Type) (l : list A) (n old : A), last (n :: l) old = last l n.
Proof. intros A l n old. destruct l as [|a l]; [reflexivity|]. cbn [last]. apply last_nonempty_default. Qed.

(* a caller all of whose calls return Ok leaves the content of its last call *)
Lemma calls_all_ok_last : forall w (p tmp : path) (cs : list (content * list fault)) (old : content) (d : disk),
  d p = Some old ->
  (forall n fs d0, In (n, fs) cs -> r_status (run (mkenv p tmp n) w fs d0) = RetOk /\ r_disk (run (mkenv p tmp n) w fs d0) p = Some n) ->
  calls w p tmp cs d p = Some (final_of old cs).
Proof.
  intros w p tmp cs. induction cs as [|[n fs] rest IH]; intros old d Hd H.
  - exact Hd.
  - cbn [calls]. destruct (H n fs d (or_introl eq_refl)) as [Hs Hn]. rewrite Hs.
    rewrite (IH n _ Hn (fun n' fs' d0 Hin => H n' fs' d0 (or_intror Hin))).
    unfold final_of. cbn [map fst]. f_equal. symmetry. apply last_shift.
Qed.

(* non-vacuity *)
Example ex_single : let old := bytes_of_string "old" in let new := bytes_of_string "new text" in
  calls writer_tmp_rename "f" "f.tmp" [(new, ok_run)] (disk0 "f" old) "f"%string = Some new
  /\ calls writer_tmp_rename "f" "f.tmp" [(new, [FOk; FCrash 3])] (disk0 "f" old) "f"%string = Some old.
Proof. split; reflexivity. Qed.

Example ex_two_step : let old := bytes_of_string "#[actor(file=..,edit(live(file(imp))))] impl A {}" in
  let mid := bytes_of_string "#[actor(file=..,edit(live(imp)))] impl A {}" in
  let new := bytes_of_string "#[actor(file=..,edit(live(imp)))] impl A {} /* generated */" in
  calls writer_tmp_rename "f" "f.tmp" [(mid, ok_run); (new, [FOk; FCrash 5])] (disk0 "f" old) "f"%string = Some mid.
Proof. reflexivity. Qed.
