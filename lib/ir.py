"""Recognise a real macro expansion (token text) as named SDPL-IR (python dicts).

Every statement of every generated item is matched as a whole against a template;
what does not match becomes ("Unknown", text) and is rejected by every wf_* premise.
"""
import re
from rs import *


def U(toks):
    return ("Unknown", render(toks) if not isinstance(toks, str) else toks)


# ---------------------------------------------------------------------------------------------
# items
# ---------------------------------------------------------------------------------------------

def split_items(toks):
    """top-level items of a token tree list -> list of dicts"""
    items = []
    i, n = 0, len(toks)
    while i < n:
        start = i
        attrs = []
        while i + 1 < n and is_p(toks[i], "#") and toks[i + 1].k == "g" and toks[i + 1].s == "[":
            attrs.append(toks[i + 1].sub)
            i += 2
        while i + 2 < n and is_p(toks[i], "#") and is_p(toks[i + 1], "!") and toks[i + 2].k == "g":
            attrs.append(toks[i + 2].sub)
            i += 3
        vis = []
        if i < n and is_id(toks[i], "pub"):
            vis.append(toks[i])
            i += 1
            if i < n and toks[i].k == "g" and toks[i].s == "(":
                vis.append(toks[i])
                i += 1
        hstart = i
        # find end: first `{}` group or `;`
        kw = toks[i].s if i < n and toks[i].k == "id" else ""
        semi_only = kw in ("use", "static", "const", "type", "extern", "let") and not (kw == "const" and i + 1 < n and is_id(toks[i + 1], "fn"))
        j = i
        while j < n:
            t = toks[j]
            if is_p(t, ";"):
                break
            if t.k == "g" and t.s == "{" and not semi_only:
                break
            j += 1
        header = toks[hstart:j]
        body = toks[j] if j < n and toks[j].k == "g" else None
        items.append({"attrs": attrs, "vis": vis, "header": header, "body": body, "all": toks[start:j + 1], "kw": kw})
        i = j + 1
    return items


def take_generics(toks, i):
    """if toks[i] is `<`, return (generic tokens incl. brackets, next index)"""
    if i < len(toks) and is_p(toks[i], "<"):
        depth, j = 0, i
        while j < len(toks):
            if is_p(toks[j], "<"):
                depth += 1
            elif is_p(toks[j], ">"):
                depth -= 1
                if depth == 0:
                    return toks[i:j + 1], j + 1
            j += 1
    return [], i


def split_where(toks):
    for k, t in enumerate(toks):
        if is_id(t, "where"):
            return toks[:k], toks[k + 1:]
    return toks, []


def parse_fn(item):
    """item dict of an `fn` inside an impl -> method dict (signature as text + body group)"""
    h = item["header"]
    i = 0
    quals = []
    while i < len(h) and h[i].k == "id" and h[i].s in ("async", "const", "unsafe", "default", "extern"):
        quals.append(h[i].s)
        i += 1
    if i >= len(h) or not is_id(h[i], "fn"):
        return None
    name = h[i + 1].s
    gen, j = take_generics(h, i + 2)
    if j >= len(h) or h[j].k != "g" or h[j].s != "(":
        return None
    params_g = h[j].sub
    rest = h[j + 1:]
    ret = []
    rest, where = split_where(rest)
    if rest and is_p(rest[0], "->"):
        ret = rest[1:]
    elif rest:
        return None
    params = []
    selfp = ""
    for k, p in enumerate(split_top(params_g)):
        ptxt = render(p)
        if k == 0 and p and is_id(p[-1], "self") and all(is_p(x, "&") or is_id(x, "mut") or x.k == "lt" or is_id(x, "self") for x in p):
            selfp = ptxt
            continue
        # pattern : type  (first top-level `:`)
        col = None
        for q, x in enumerate(p):
            if is_p(x, ":"):
                col = q
                break
        if col is None:
            params.append((ptxt, ""))
        else:
            params.append((render(p[:col]), render(p[col + 1:])))
    docs = []
    other_attrs = []
    for a in item["attrs"]:
        e = match(a, "doc = $d:lit")
        if e is not None:
            docs.append(lit_str(e["d"]))
        else:
            other_attrs.append(render(a))
    return {"name": name, "vis": render(item["vis"]), "async": "async" in quals, "quals": quals, "generics": render(gen),
            "self": selfp, "params": params, "ret": render(ret), "where": render(where), "docs": docs, "attrs": other_attrs,
            "body": item["body"].sub if item["body"] is not None else None, "sig_toks": h}


# ---------------------------------------------------------------------------------------------
# expression / statement shapes
# ---------------------------------------------------------------------------------------------

def src(toks):
    if len(toks) == 1 and toks[0].k == "id":
        return ("SVar", toks[0].s)
    e = match(toks, "self . $f:ident")
    if e is not None:
        return ("SSelfField", e["f"].s)
    return ("SOther", render(toks))


def args_srcs(group_sub):
    return [src(a) for a in split_top(group_sub, angle=False)]


PANIC_CLOSURE = "| _error | core :: panic ! ( $msg:lit )"


def on_closed_suffix(toks):
    """what follows a send / wait expression: returns (onclosed, ok)"""
    if not toks:
        return ("ClosedIgnore",)
    e = match(toks, ". expect ( $msg:lit )")
    if e is not None:
        return ("ClosedPanic", "closed" in lit_str(e["msg"]).lower())
    e = match(toks, ". unwrap_or_else ( " + PANIC_CLOSURE + " )")
    if e is not None:
        return ("ClosedPanic", "closed" in lit_str(e["msg"]).lower())
    e = match(toks, ". unwrap ( )")
    if e is not None:
        return ("ClosedPanic", False)
    e = match(toks, ". ok ( )")
    if e is not None:
        return ("ClosedIgnore",)
    return ("ClosedOther",)


_LAST_TURBO = [None]


def user_call(toks):
    """actor.m::<G>(args)[.await]  |  A::<..>::m::<G>(args)[.await]  -> (ucall, await); the generic arguments of a method call
    are left in _LAST_TURBO[0] (list of texts, None when the call has no turbofish)"""
    _LAST_TURBO[0] = None
    aw = False
    if len(toks) >= 2 and is_p(toks[-2], ".") and is_id(toks[-1], "await"):
        aw = True
        toks = toks[:-2]
    if not toks or toks[-1].k != "g" or toks[-1].s != "(":
        return ("UOtherCall", render(toks)), aw
    args = args_srcs(toks[-1].sub)
    head = toks[:-1]
    # method call on a receiver:  recv . m [:: <..>]
    e = match(head, "$r:ident . $m:ident")
    if e is None:
        e = match(head, "$r:ident . $m:ident :: < $g:rest >")
        if e is not None:
            _LAST_TURBO[0] = [render(x) for x in split_top(e["g"]) if x]
    if e is not None:
        return ("UMethod", ("SVar", e["r"].s), e["m"].s, args), aw
    # static path call
    if _path_ok_pub(head):
        p = strip_turbofish(head)
        segs = [t.s for t in p if t.k == "id"]
        if len(segs) >= 2:
            return ("UStatic", "::".join(segs[:-1]), segs[-1], args), aw
    return ("UOtherCall", render(toks)), aw


def _path_ok_pub(seg):
    from rs import _path_ok
    return _path_ok(seg)


def lock_stmt(st):
    """let [mut] actor = actor . read|write|lock ( ) . unwrap ( ) | . await ;"""
    for mut in (True, False):
        head = "let mut $b:ident" if mut else "let $b:ident"
        for kind, kn in (("read", "LkRead"), ("write", "LkWrite"), ("lock", "LkMutex")):
            e = match(st, head + " = $on:ident . " + kind + " ( ) . unwrap ( ) ;")
            if e is not None:
                return {"binder": e["b"].s, "mut": mut, "on": ("SVar", e["on"].s), "kind": kn, "wait": "unwrap"}
            e = match(st, head + " = $on:ident . " + kind + " ( ) . await ;")
            if e is not None:
                return {"binder": e["b"].s, "mut": mut, "on": ("SVar", e["on"].s), "kind": kn, "wait": "await"}
    return None


def arm_body(stmts, actor_name="inter_actor"):
    """[lock;] (call ; | tx . send ( call ) <onclosed> ;)"""
    lock = None
    if len(stmts) == 2:
        lock = lock_stmt(stmts[0])
        if lock is None:
            return None
        stmts = stmts[1:]
    if len(stmts) != 1:
        return None
    st = stmts[0]
    if not st or not is_p(st[-1], ";"):
        return None
    st = st[:-1]
    e = match(st, "$tx:ident . send ( $call:rest ) $suffix:rest")
    if e is not None and e["tx"].s not in (actor_name, "actor") and (lock is None or e["tx"].s != lock["binder"]):
        call, aw = user_call(e["call"])
        return {"lock": lock, "call": call, "await": aw, "reply": (("SVar", e["tx"].s), on_closed_suffix(e["suffix"])), "turbo": _LAST_TURBO[0]}
    call, aw = user_call(st)
    return {"lock": lock, "call": call, "await": aw, "reply": None, "turbo": _LAST_TURBO[0]}


def parse_arm(pat, body, actor_name="inter_actor"):
    """pat: tokens before `=>`; body: tokens after"""
    e = match(pat, "Self :: $v:ident { .. }")
    if e is not None:
        if match(body, "( )") is not None:
            return ("ArmSkip", e["v"].s)
        return U(pat + body)
    e = match(pat, "Self :: $v:ident ( $m:ident )")
    if e is not None:
        b = match(body, "{ $f:ident ( $a:rest ) ; }")
        aw = False
        if b is None:
            b = match(body, "{ $f:ident ( $a:rest ) . await ; }")
            aw = True
        if b is not None and b["f"].s == e["m"].s:
            return ("ArmClosure", e["v"].s, e["m"].s, src(b["a"]), aw)
        return U(pat + body)
    e = match(pat, "Self :: $v:ident { $binds:rest }")
    if e is not None:
        binds = []
        for b in split_top(e["binds"]):
            if len(b) == 1 and b[0].k == "id":
                binds.append(b[0].s)
            else:
                return U(pat + body)
        if len(body) == 1 and body[0].k == "g" and body[0].s == "{":
            ab = arm_body(split_stmts(body[0].sub), actor_name)
            if ab is not None:
                return ("ArmStruct", e["v"].s, binds, ab)
    return U(pat + body)


def parse_direct(m):
    """fn direct(self, actor: &[mut] T) { match self { arms } }"""
    out = {"async": m["async"], "param": None, "param_ty": None, "arms": [], "ok": False, "generics": m["generics"]}
    if m["self"] != "self" or len(m["params"]) != 1:
        out["arms"] = [U(m["body"])]
        return out
    out["param"], out["param_ty"] = m["params"][0]
    e = match(m["body"], "match self { $arms:rest }")
    if e is None:
        out["arms"] = [U(m["body"])]
        return out
    arms = []
    toks = e["arms"]
    # arms: PAT => BODY ,   (BODY is a `{}` group or `( )`)
    i = 0
    while i < len(toks):
        j = i
        while j < len(toks) and not is_p(toks[j], "=>"):
            j += 1
        if j >= len(toks):
            arms.append(U(toks[i:]))
            break
        pat = toks[i:j]
        k = j + 1
        body = []
        while k < len(toks) and not is_p(toks[k], ","):
            body.append(toks[k])
            k += 1
        arms.append(parse_arm(pat, body, out["param"]))
        i = k + 1
    out["arms"] = arms
    out["ok"] = True
    return out


def parse_play(m, lib_hint=None):
    out = {"params": m["params"], "async": m["async"], "shape": None, "generics": m["generics"]}
    b = m["body"]
    # optional drain guard of the async-channel runtimes: a local Drop type holding a clone of the receiver that closes the
    # channel and discards the buffered messages when play ends (normally, by `return`, or by unwinding)
    drain = None
    for rpath, lib in (("async_std :: channel :: Receiver", "async_std"), ("async_channel :: Receiver", "smol")):
        g = match(b, "struct InterDrain < T > ( " + rpath + " < T > ) ; impl < T > :: std :: ops :: Drop for InterDrain < T > "
                     "{ fn drop ( & mut self ) { self . 0 . close ( ) ; while self . 0 . try_recv ( ) . is_ok ( ) { } } } "
                     "let _inter_drain = InterDrain ( $rx:ident . clone ( ) ) ; $tail:rest")
        if g is not None:
            drain = {"rx": g["rx"].s, "lib": lib}
            b = g["tail"]
            break
    e = None
    okpat = None
    for pat in (":: std :: result :: Result :: Ok", ":: std :: option :: Option :: Some", "Ok", "Some"):
        for aw in (False, True):
            for rk in ("recv", "try_recv"):
                t = "while let " + pat + " ( $msg:ident ) = $rx:ident . " + rk + " ( ) " + (". await " if aw else "") + "{ $body:rest }"
                e = match(b, t)
                if e is not None:
                    okpat, await_, recvk = pat, aw, rk
                    break
            if e is not None:
                break
        if e is not None:
            break
    if e is None:
        out["shape"] = U(b)
        return out
    msg = e["msg"].s
    body = e["body"]
    stop = None
    disp = body
    s = match(body, "if let Self :: $v:ident { $tx:ident } = $m:ident { $then:rest } else { $els:rest }")
    if s is not None:
        disp = s["els"]
        then = split_stmts(s["then"])
        returns = len(then) == 2 and match(then[1], "return ;") is not None
        snd = None
        if then:
            snd = match(then[0], "let _ = $tx2:ident . send ( ( $payload:rest ) ) $suffix:rest ;")
        if snd is not None and len(then) <= 2 and (len(then) == 1 or returns):
            stop = {"variant": s["v"].s, "tx": s["tx"].s, "scrut": s["m"].s, "send_on": snd["tx2"].s,
                    "payload": args_srcs(snd["payload"]), "closed": on_closed_suffix(snd["suffix"]), "returns": returns}
        else:
            out["shape"] = U(b)
            return out
    d = match(disp, "$m:ident . direct ( $arg:rest ) ;")
    daw = False
    if d is None:
        d = match(disp, "$m:ident . direct ( $arg:rest ) . await ;")
        daw = True
    if d is None:
        out["shape"] = U(b)
        return out
    arg = d["arg"]
    dmut = False
    darg = None
    a = match(arg, "& mut $x:ident")
    if a is not None:
        dmut, darg = True, a["x"].s
    else:
        a = match(arg, "& $x:ident")
        if a is not None:
            darg = a["x"].s
    if darg is None:
        out["shape"] = U(b)
        return out
    out["shape"] = {"pat": okpat, "msg": msg, "rx": e["rx"].s, "recv": recvk, "await": await_, "stop": stop,
                    "disp_on": d["m"].s, "disp_arg": darg, "disp_mut": dmut, "disp_await": daw, "drain": drain}
    return out


def parse_msg_build(toks, script_names):
    """right-hand side of `let msg = ...`"""
    # closure message
    for asyncf in (True, False):
        if asyncf:
            t = "$p:path ( std :: boxed :: Box :: new ( move | $a:ident : $ty:ty | std :: boxed :: Box :: pin ( async move { $body:rest } ) ) )"
        else:
            t = "$p:path ( std :: boxed :: Box :: new ( move | $a:ident : $ty:ty | { $body:rest } ) )"
        e = match(toks, t)
        if e is not None:
            segs = [x.s for x in strip_turbofish(e["p"]) if x.k == "id"]
            ab = arm_body(split_stmts(e["body"]), e["a"].s)
            if ab is None or len(segs) != 2:
                if asyncf:
                    return U(toks)
                continue
            return ("MClosure", segs[0], segs[1], e["a"].s, render(e["ty"]), ab, asyncf)
    if toks and toks[-1].k == "g" and toks[-1].s == "{":
        head = toks[:-1]
        if _path_ok_pub(head):
            segs = [x.s for x in strip_turbofish(head) if x.k == "id"]
            if len(segs) == 2:
                fields = []
                for f in split_top(toks[-1].sub, angle=False):
                    if len(f) == 1 and f[0].k == "id":
                        fields.append((f[0].s, ("SVar", f[0].s)))
                    else:
                        fe = match(f, "$n:ident : $v:rest")
                        if fe is None:
                            return U(toks)
                        fields.append((fe["n"].s, src(fe["v"])))
                return ("MVariant", segs[0], segs[1], fields)
    return U(toks)


def parse_send(st):
    """let _ = CHAN . send|try_send ( MSG ) [. await] <suffix> ;"""
    for kind, kn in (("send", "SendBlocking"), ("try_send", "SendTry")):
        e = match(st, "let _ = $chan:rest . " + kind + " ( $m:rest ) $suffix:rest ;")
        if e is None:
            e = match(st, "$chan:rest . " + kind + " ( $m:rest ) $suffix:rest ;")
        if e is not None:
            suf = e["suffix"]
            aw = False
            if len(suf) >= 2 and is_p(suf[0], ".") and is_id(suf[1], "await"):
                aw = True
                suf = suf[2:]
            return {"chan": src(e["chan"]), "msg": src(e["m"]), "kind": kn, "await": aw, "closed": on_closed_suffix(suf)}
    return None


def parse_wait(toks):
    """RX . recv ( ) <suffix>   |   RX . await <suffix>"""
    e = match(toks, "$rx:ident . recv ( ) $suffix:rest")
    if e is not None:
        return ("TWait", ("SVar", e["rx"].s), "blocking", on_closed_suffix(e["suffix"]))
    e = match(toks, "$rx:ident . await $suffix:rest")
    if e is not None:
        return ("TWait", ("SVar", e["rx"].s), "await", on_closed_suffix(e["suffix"]))
    return None


def parse_ref_body(stmts):
    """[pre lets]* ; let msg = BUILD ; SEND ; [tail]"""
    pre = []
    i = 0
    n = len(stmts)
    while i < n:
        st = stmts[i]
        e = match(st, "let ( $tx:ident , $rx:ident ) = $p:path ( ) ;")
        if e is not None:
            p = e["p"]
            turbo = ""
            turbo_text = ""
            if is_p(p[-1], ">"):
                turbo = "T"
                # C14 (additive): text of the turbofish type, `path :: < T >` -> "T"
                for q in range(len(p)):
                    if is_p(p[q], "<"):
                        turbo_text = render(p[q + 1:-1])
                        break
            segs = [x.s for x in strip_turbofish(p) if x.k == "id"]
            pre.append(("POneshot", e["tx"].s, e["rx"].s, "::".join(segs), turbo, turbo_text))
            i += 1
            continue
        e = match(st, "let $x:ident = self . $g:ident ( ) ;")
        if e is not None:
            pre.append(("PGetter", e["x"].s, e["g"].s))
            i += 1
            continue
        break
    if i >= n:
        return None
    e = match(stmts[i], "let $m:ident = $b:rest ;")
    if e is None:
        return None
    msgvar = e["m"].s
    build = parse_msg_build(e["b"], None)
    i += 1
    if i >= n:
        return None
    send = parse_send(stmts[i])
    if send is None:
        return None
    i += 1
    tail = ("TNone",)
    rest = stmts[i:]
    return {"pre": pre, "msgvar": msgvar, "msg": build, "send": send, "rest": rest}


def parse_live_method(m, actor_ty_hint=None):
    """classify a method of the Live impl by the shape of its body"""
    stmts = split_stmts(m["body"])
    name = m["name"]
    # static delegate:  A :: m ( args ) [. await]
    if len(stmts) == 1 and not is_p(stmts[0][-1], ";") and m["self"] == "":
        call, aw = user_call(stmts[0])
        if call[0] == "UStatic":
            return ("BStat", call[1], call[2], call[3], aw)
    # inter_* helpers
    if name in ("inter_get_debut", "inter_get_count", "inter_set_name", "inter_get_name"):
        return ("BInter", name, render(m["body"]))
    # self consuming
    if m["self"] in ("self", "mut self") and name != "inter_play_stop":
        return parse_slf(m, stmts)
    # constructor
    if m["self"] == "" and name in ("new", "try_new") and stmts:
        c = parse_ctor(m, stmts)
        return c if c is not None else U(m["body"])
    rb = parse_ref_body(stmts)
    if rb is None:
        return U(m["body"])
    rest = rb.pop("rest")
    if name == "inter_play_stop":
        # let (actor, receiver) = WAIT ; ( actor , receiver , self . sender [, self . debut] )
        if len(rest) == 2:
            e = match(rest[0], "let ( $a:ident , $r:ident ) = $w:rest ;")
            t = match(rest[1], "( $ret:rest )")
            if e is not None and t is not None:
                w = parse_wait(e["w"])
                if w is not None:
                    rb["tail"] = w
                    return ("BStop", rb, [e["a"].s, e["r"].s], args_srcs(t["ret"]))
        return U(m["body"])
    if len(rest) == 0:
        rb["tail"] = ("TNone",)
    elif len(rest) == 1 and not is_p(rest[0][-1], ";"):
        w = parse_wait(rest[0])
        if w is not None:
            rb["tail"] = w
        elif len(rest[0]) == 1 and rest[0][0].k == "id":
            rb["tail"] = ("TRet", ("SVar", rest[0][0].s))
        else:
            rb["tail"] = U(rest[0])
    else:
        return U(m["body"])
    return ("BRef", rb)


def parse_slf(m, stmts):
    """[if self.inter_get_count() <= 1 { STOP } ELSE-RET]  |  STOP
       STOP = let ( actor , _ , _ [, _] ) = self . inter_play_stop ( ) [. await] ; return CALL ;"""
    guard = None
    els = None
    inner = stmts
    if len(stmts) == 2 and stmts[0] and is_id(stmts[0][0], "if"):
        e = match(stmts[0], "if $s:ident . inter_get_count ( ) $op:tt $n:lit { $body:rest }")
        if e is None:
            return U(m["body"])
        guard = (e["op"].s, e["n"].s, e["s"].s)
        inner = split_stmts(e["body"])
        els = render(stmts[1])
    if len(inner) != 2:
        return U(m["body"])
    aw = False
    e = match(inner[0], "let ( $binds:rest ) = $s:ident . inter_play_stop ( ) ;")
    if e is None:
        e = match(inner[0], "let ( $binds:rest ) = $s:ident . inter_play_stop ( ) . await ;")
        aw = True
    r = match(inner[1], "return $call:rest ;")
    if e is None or r is None:
        return U(m["body"])
    binds = [render(b) for b in split_top(e["binds"])]
    call, caw = user_call(r["call"])
    return ("BSlf", {"guard": guard, "binds": binds, "stop_on": e["s"].s, "stop_await": aw, "call": call, "await": caw, "else": els, "turbo": _LAST_TURBO[0]})


def rust_int(text):
    """value of a Rust integer literal (decimal, 0x / 0o / 0b, `_` separators, optional integer suffix); None when it is not one"""
    t = re.sub(r"(usize|isize|u\d+|i\d+)$", "", text)
    for pre, base, digs in (("0x", 16, "0-9a-fA-F"), ("0o", 8, "0-7"), ("0b", 2, "01"), ("", 10, "0-9")):
        if t.startswith(pre):
            body = t[len(pre):]
            if re.match(r"^[%s_]*[%s][%s_]*$" % (digs, digs, digs), body) and (pre or body[0] != "_"):
                return int(body.replace("_", ""), base)
            return None
    return None


def parse_chan_ctor(path_segs, args):
    p = "::".join(path_segs)
    unb = ("std::sync::mpsc::channel", "tokio::sync::mpsc::unbounded_channel", "async_std::channel::unbounded", "async_channel::unbounded")
    bnd = ("std::sync::mpsc::sync_channel", "tokio::sync::mpsc::channel", "async_std::channel::bounded", "async_channel::bounded")
    if p in unb and not args:
        return ("ChUnbounded", p)
    if p in bnd and len(args) == 1 and len(args[0]) == 1 and args[0][0].k == "lit" and rust_int(args[0][0].s) is not None:
        return ("ChBounded", rust_int(args[0][0].s), p)
    return ("ChOther", p + "(" + ",".join(render(a) for a in args) + ")")


def parse_spawn(st):
    """std::thread::spawn(move || { S::play(args) }) ;  tokio::spawn(S::play(args)) ; smol::spawn(..).detach() ; async_std::task::spawn(..) ;"""
    forms = [("std::thread::spawn", "std :: thread :: spawn ( move | | { $p:path ( $args:rest ) } ) ;"),
             ("std::thread::spawn", "std :: thread :: spawn ( move || { $p:path ( $args:rest ) } ) ;"),
             ("tokio::spawn", "tokio :: spawn ( $p:path ( $args:rest ) ) ;"),
             ("smol::spawn", "smol :: spawn ( $p:path ( $args:rest ) ) . detach ( ) ;"),
             ("async_std::task::spawn", "async_std :: task :: spawn ( $p:path ( $args:rest ) ) ;")]
    for nm, t in forms:
        e = match(st, t)
        if e is not None:
            segs = [x.s for x in strip_turbofish(e["p"]) if x.k == "id"]
            return {"via": nm, "callee": "::".join(segs), "args": args_srcs(e["args"])}
    return None


def parse_ctor(m, stmts):
    out = {"user_call": None, "debut_call": None, "phantoms": [], "chan": None, "chan_binds": None, "spawns": [], "wrap": "", "fields": None, "extra": [], "wrapped": None, "members": [], "order": []}
    last = stmts[-1]
    e = match(last, "Self { $f:rest }")
    if e is None:
        e = match(last, "$w:path ( Self { $f:rest } )")
        if e is None:
            return None
        out["wrap"] = "::".join(x.s for x in e["w"] if x.k == "id")
    fields = []
    for f in split_top(e["f"], angle=False):
        if len(f) == 1 and f[0].k == "id":
            fields.append((f[0].s, ("SVar", f[0].s)))
        else:
            fe = match(f, "$n:ident : $v:rest")
            if fe is None:
                return None
            fields.append((fe["n"].s, ("SOther", render(fe["v"]))))
    out["fields"] = fields
    for st in stmts[:-1]:
        e = match(st, "let $a:ident = $p:path ( $args:rest ) ;")
        q = False
        if e is None:
            e = match(st, "let $a:ident = $p:path ( $args:rest ) ? ;")
            q = True
        if e is not None:
            segs = [x.s for x in strip_turbofish(e["p"]) if x.k == "id"]
            if segs[-1] == "debut" and not q and not e["args"]:
                out["debut_call"] = (e["a"].s, "::".join(segs))
                out["order"].append("debut")
                continue
            if out["user_call"] is None and out["chan"] is None:
                out["user_call"] = {"bind": e["a"].s, "path": "::".join(segs[:-1]), "method": segs[-1], "args": args_srcs(e["args"]), "try": q}
                out["order"].append("user")
                continue
        e = match(st, "let $a:ident = :: std :: marker :: PhantomData ;")
        if e is not None:
            out["phantoms"].append(e["a"].s)
            out["order"].append("phantom")
            continue
        e = match(st, "let ( $tx:ident , $rx:ident ) = $p:path ( $args:rest ) ;")
        if e is not None and out["chan"] is None:
            segs = [x.s for x in e["p"] if x.k == "id"]
            out["chan"] = parse_chan_ctor(segs, split_top(e["args"], angle=False))
            out["chan_binds"] = (e["tx"].s, e["rx"].s)
            out["order"].append("chan")
            continue
        sp = parse_spawn(st)
        if sp is not None:
            out["spawns"].append(sp)
            out["order"].append("spawn")
            continue
        e = match(st, "let $a:ident = :: std :: sync :: Arc :: new ( $lk:path ( $inner:ident ) ) ;")
        if e is not None and out["wrapped"] is None:
            out["wrapped"] = {"bind": e["a"].s, "lock": "::".join(x.s for x in e["lk"] if x.k == "id"), "inner": e["inner"].s}
            out["order"].append("wrap")
            continue
        e = match(st, "let $a:ident = $p:path ( $args:rest ) ;")
        if e is not None:
            segs = [x.s for x in strip_turbofish(e["p"]) if x.k == "id"]
            margs = []
            okm = True
            for a in split_top(e["args"], angle=False):
                ce = match(a, "$x:ident . clone ( )")
                if ce is None:
                    okm = False
                    break
                margs.append(ce["x"].s)
            if okm and len(segs) == 2 and segs[1] == "new":
                out["members"].append({"bind": e["a"].s, "live": segs[0], "args": margs})
                out["order"].append("member")
                continue
        if render(st).strip() != ";":
            out["extra"].append(render(st))
    return ("BCtor", out)


# ---------------------------------------------------------------------------------------------
# whole expansion
# ---------------------------------------------------------------------------------------------

def impl_header(h):
    """impl [<G>] [Trait for] Type [where ..]  -> (generics, trait, type)"""
    assert is_id(h[0], "impl")
    gen, i = take_generics(h, 1)
    rest, where = split_where(h[i:])
    trait = None
    for k, t in enumerate(rest):
        if is_id(t, "for"):
            trait = rest[:k]
            rest = rest[k + 1:]
            break
    return render(gen), (render(trait) if trait is not None else None), rest, render(where)


def type_name(toks):
    """last path segment ident before generics"""
    p = strip_turbofish(toks)
    ids = [t.s for t in p if t.k == "id"]
    return ids[-1] if ids else ""


def parse_enum(it):
    h = it["header"]
    name = h[1].s
    gen, _ = take_generics(h, 2)
    variants = []
    for v in split_top(it["body"].sub, angle=True):
        if not v:
            continue
        vn = v[0].s
        if len(v) == 2 and v[1].k == "g" and v[1].s == "{":
            fs = []
            for f in split_top(v[1].sub):
                e = match(f, "$n:ident : $t:rest")
                fs.append((e["n"].s, render(e["t"])) if e is not None else ("?", render(f)))
            variants.append({"name": vn, "tuple": False, "fields": fs})
        elif len(v) == 2 and v[1].k == "g" and v[1].s == "(":
            variants.append({"name": vn, "tuple": True, "fields": [("0", render(v[1].sub))]})
        else:
            variants.append({"name": vn, "tuple": False, "fields": [("?", render(v))]})
    return {"name": name, "generics": render(gen), "variants": variants}


def parse_struct(it):
    h = it["header"]
    name = h[1].s
    gen, j = take_generics(h, 2)
    _, where = split_where(h[j:])
    fields = []
    if it["body"] is not None:
        for f in split_top(it["body"].sub):
            vis = ""
            if f and is_id(f[0], "pub"):
                vis = "pub"
                f = f[1:]
            e = match(f, "$n:ident : $t:rest")
            fields.append((e["n"].s, render(e["t"]), vis) if e is not None else ("?", render(f), vis))
    return {"name": name, "generics": render(gen), "where": render(where), "fields": fields, "attrs": [render(a) for a in it["attrs"]], "vis": render(it["vis"])}


KEYWORDS = set("impl let for in as where fn return mut ref dyn move if else match while loop pub use mod struct enum static const type unsafe async await crate super self trait extern break continue".split())


def collect_roots(toks, acc, bound=None):
    """leading segments of every path (ident followed by `::`, not preceded by `::` or `.`)"""
    prev = None
    for i, t in enumerate(toks):
        if t.k == "g":
            collect_roots(t.sub, acc)
        elif t.k == "id":
            nxt = toks[i + 1] if i + 1 < len(toks) else None
            if nxt is not None and is_p(nxt, "::") and t.s not in KEYWORDS:
                if prev is None or not (is_p(prev, ".") or (is_p(prev, "::") and not _leading_colon(toks, i))):
                    acc.add(t.s)
        prev = t
    return acc


def _leading_colon(toks, i):
    """toks[i-1] is `::`; is it a leading `::` (global path) rather than a separator?"""
    if i < 2:
        return True
    pp = toks[i - 2]
    return not (pp.k == "id" or is_p(pp, ">"))


def parse_expansion(text, n_user_items=1):
    """-> dict with user items and the generated models (one per script/live pair) and family part"""
    toks = parse(text)
    items = split_items(toks)
    out = {"user": items[:n_user_items], "models": [], "family": None, "unknown": [], "roots": sorted(collect_roots(flat_tree(items[n_user_items:]), set()))}
    gen = items[n_user_items:]
    cur = None
    fam = None
    structs = {}
    for it in gen:
        kw = it["kw"]
        if kw == "enum":
            en = parse_enum(it)
            cur = {"script": en, "script_impl": None, "live": None, "live_impl": None, "traits": [], "script_traits": []}
            out["models"].append(cur)
        elif kw == "struct":
            st = parse_struct(it)
            if cur is not None and cur["live"] is None and cur["script_impl"] is not None:
                cur["live"] = st
            else:
                fam = {"def": st, "impl": None, "traits": []}
                out["family"] = fam
        elif kw == "impl":
            g, trait, ty, where = impl_header(it["header"])
            tn = type_name(ty)
            methods = []
            for mi in split_items(it["body"].sub):
                f = parse_fn(mi)
                methods.append(f if f is not None else {"name": "?", "unknown": render(mi["all"])})
            rec = {"generics": g, "trait": trait, "type": render(ty), "type_name": tn, "where": where, "methods": methods}
            target = None
            for mdl in out["models"]:
                if mdl["script"]["name"] == tn:
                    target = (mdl, "script")
                if mdl["live"] is not None and mdl["live"]["name"] == tn:
                    target = (mdl, "live")
            if target is None and fam is not None and fam["def"]["name"] == tn:
                if trait is None:
                    fam["impl"] = rec
                else:
                    fam["traits"].append(rec)
            elif target is None:
                out["unknown"].append(render(it["all"]))
            else:
                mdl, which = target
                if trait is None:
                    if mdl[which + "_impl"] is None:
                        mdl[which + "_impl"] = rec
                    else:
                        out["unknown"].append("second impl block for " + tn)
                elif which == "script":
                    mdl["script_traits"].append(rec)
                else:
                    mdl["traits"].append(rec)
        else:
            out["unknown"].append(render(it["all"]))
    # names of the user's own `async fn` methods: a dispatch arm must await exactly those
    ua, ur = [], []
    for it in items[:n_user_items]:
        if it.get("kw") == "impl" and it.get("body") is not None:
            for mi in split_items(it["body"].sub):
                f = parse_fn(mi)
                if f is not None and f.get("async"):
                    ua.append(f["name"])
                if f is not None and (f.get("ret") or "").strip():
                    ur.append(f["name"])
    out["user_async"] = ua
    out["user_ret"] = ur
    for mdl in out["models"]:
        mdl["user_async"] = ua
        mdl["user_ret"] = ur
        analyse_model(mdl)
    return out


def flat_tree(items):
    out = []
    for it in items:
        out += it["all"]
    return out


def analyse_model(mdl):
    si = mdl["script_impl"]
    mdl["direct"] = None
    mdl["play"] = None
    mdl["debut_fn"] = None
    mdl["script_other"] = []
    if si is not None:
        for m in si["methods"]:
            if "unknown" in m:
                mdl["script_other"].append(m["unknown"])
            elif m["name"] == "direct":
                mdl["direct"] = parse_direct(m)
            elif m["name"] == "play":
                mdl["play"] = parse_play(m)
            elif m["name"] == "debut":
                mdl["debut_fn"] = m
            else:
                mdl["script_other"].append(m["name"])
    mdl["methods"] = []
    li = mdl["live_impl"]
    if li is not None:
        for m in li["methods"]:
            if "unknown" in m:
                mdl["methods"].append({"name": "?", "body_ir": U(m["unknown"])})
                continue
            m2 = dict(m)
            m2["body_ir"] = parse_live_method(m)
            mdl["methods"].append(m2)
