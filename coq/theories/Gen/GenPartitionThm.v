(* Gen/GenericsThm.v -- the generics partition / PhantomData model refines a spec written in declaration
   order only; hence the result does not depend on the HashMap iteration order. *)
From Coq Require Import List String Bool Permutation.
Import ListNotations.
From IT Require Import Gen.GenPartition.

Lemma mem_name_ext : forall x a b, (forall q, In q a <-> In q b) -> mem_name x a = mem_name x b.
Proof.
  intros x a b H. unfold mem_name. apply eq_true_iff_eq. rewrite !existsb_exists.
  split; intros [q [Hi He]]; exists q; split; auto; apply H; auto.
Qed.

Lemma get_mod_gen_ext : forall params h1 h2 f, (forall q, In q h1 <-> In q h2) ->
  get_mod_gen params h1 f = get_mod_gen params h2 f.
Proof.
  intros params h1 h2 f H. unfold get_mod_gen. destruct f; [reflexivity|].
  assert (forall p, mem_name (gp_name p) h1 = mem_name (gp_name p) h2) as E by (intro p; apply mem_name_ext; exact H).
  rewrite (filter_ext _ _ E).
  rewrite (filter_ext (fun p => negb (mem_name (gp_name p) h1)) (fun p => negb (mem_name (gp_name p) h2))) by (intro p; rewrite E; reflexivity).
  reflexivity.
Qed.

Section WithSelfTy.
Variable self_ty : list string.

Definition contributes (m : meth) (q : gparam) : bool :=
  match m_kind m with MRef => negb (m_localgen m) && includes (subst_self self_ty (m_sig m)) q | _ => false end.

Lemma step_retain_In : forall hm m q, In q (step_retain self_ty hm m) <-> In q hm /\ contributes m q = false.
Proof.
  intros hm m q. unfold step_retain, contributes. destruct (m_kind m); try tauto.
  destruct (m_localgen m); simpl; [tauto|]. unfold retain. rewrite filter_In, negb_true_iff. tauto.
Qed.

Lemma fold_retain_In : forall ms hm q, In q (fold_left (step_retain self_ty) ms hm) <-> In q hm /\ used_by self_ty ms q = false.
Proof.
  induction ms as [|m ms IH]; intros hm q; simpl.
  - unfold used_by. simpl. tauto.
  - rewrite IH, step_retain_In. unfold used_by. simpl. fold (contributes m q). fold (used_by self_ty ms q).
    rewrite orb_false_iff. tauto.
Qed.

(* refinement: whatever the iteration order of the map, the result is the declaration-order spec *)
Theorem impl_gen_spec : forall params ms hm0, Permutation hm0 (filter nonconst params) ->
  impl_gen params self_ty hm0 ms = spec_gen params self_ty ms.
Proof.
  intros params ms hm0 P. unfold impl_gen, spec_gen. apply get_mod_gen_ext. intro q.
  rewrite fold_retain_In. unfold unused. rewrite filter_In, andb_true_iff, negb_true_iff.
  assert (In q hm0 <-> In q (filter nonconst params)) as E
    by (split; intro H; [eapply Permutation_in; eauto | eapply Permutation_in; [apply Permutation_sym; eauto | auto]]).
  rewrite E, filter_In. tauto.
Qed.

Theorem impl_gen_deterministic : forall params ms hm1 hm2,
  Permutation hm1 (filter nonconst params) -> Permutation hm2 (filter nonconst params) ->
  impl_gen params self_ty hm1 ms = impl_gen params self_ty hm2 ms.
Proof. intros. rewrite (impl_gen_spec params ms hm1), (impl_gen_spec params ms hm2); auto. Qed.

(* field i of the PhantomData block is the i-th private parameter in declaration order *)
Lemma enumerate_snd : forall (A : Type) (l : list A) i, map snd (enumerate i l) = l.
Proof. induction l; intro i; simpl; [reflexivity|]. rewrite IHl. reflexivity. Qed.
Lemma enumerate_fst : forall (A : Type) (l : list A) i, map fst (enumerate i l) = seq i (List.length l).
Proof. induction l; intro i; simpl; [reflexivity|]. rewrite IHl. reflexivity. Qed.

Theorem phantom_fields_in_declaration_order : forall params ms,
  let g := spec_gen params self_ty ms in
  map snd (mg_phantom g) = mg_private g /\ map fst (mg_phantom g) = seq 0 (List.length (mg_private g)) /\
  (full ms = false -> mg_private g = map gp_name (filter (fun p => mem_name (gp_name p) (unused params self_ty ms)) params)).
Proof.
  intros params ms. unfold spec_gen, get_mod_gen. destruct (full ms); simpl.
  - repeat split; auto. discriminate.
  - rewrite enumerate_snd, enumerate_fst. repeat split; auto.
Qed.

(* `Self` in the signature of a selected reference method (without generics of its own) counts as a use of every
   parameter the impl's self type names: such a parameter is never private, it is a parameter of the Script enum *)
Lemma includes_subst_self : forall sig n, In "Self"%string sig -> In n self_ty ->
  existsb (String.eqb n) (subst_self self_ty sig) = true.
Proof.
  intros sig n Hs Hn. apply existsb_exists. exists n. split; [|apply String.eqb_refl].
  unfold subst_self. apply in_flat_map. exists "Self"%string. split; [exact Hs|]. rewrite String.eqb_refl. exact Hn.
Qed.

Theorem self_counts_as_use : forall params ms m p,
  In m ms -> m_kind m = MRef -> m_localgen m = false -> In "Self"%string (m_sig m) -> In (gp_name p) self_ty -> full ms = false ->
  ~ In (gp_name p) (mg_private (spec_gen params self_ty ms)) /\
  (In p params -> In (gp_name p) (mg_script (spec_gen params self_ty ms))).
Proof.
  intros params ms m p Hm Hk Hl Hs Hn Hf.
  assert (forall q, gp_name q = gp_name p -> used_by self_ty ms q = true) as U.
  { intros q E. unfold used_by. apply existsb_exists. exists m. split; [exact Hm|]. rewrite Hk, Hl. simpl.
    unfold includes. rewrite E. apply includes_subst_self; assumption. }
  assert (mem_name (gp_name p) (unused params self_ty ms) = false) as M.
  { destruct (mem_name (gp_name p) (unused params self_ty ms)) eqn:E; [|reflexivity]. exfalso.
    unfold mem_name in E. apply existsb_exists in E. destruct E as [q [Hq Eq]]. apply String.eqb_eq in Eq.
    unfold unused in Hq. apply filter_In in Hq. destruct Hq as [_ Hq]. apply andb_prop in Hq. destruct Hq as [_ Hq].
    rewrite (U q Eq) in Hq. discriminate. }
  unfold spec_gen, get_mod_gen. rewrite Hf. simpl. split.
  - intro Hin. apply in_map_iff in Hin. destruct Hin as [q [Eq Hq]]. apply filter_In in Hq. destruct Hq as [_ Hq].
    rewrite Eq, M in Hq. discriminate.
  - intro Hp. apply in_map_iff. exists p. split; [reflexivity|]. apply filter_In. split; [exact Hp|]. rewrite M. reflexivity.
Qed.

(* where-predicates: the split refines the declaration-order spec (so it is independent of the map order), no predicate is lost,
   and a predicate lands on direct / play exactly when it mentions a private parameter *)
Lemma mentions_private_ext : forall h1 h2 wp, (forall q, In q h1 <-> In q h2) -> mentions_private h1 wp = mentions_private h2 wp.
Proof.
  intros h1 h2 wp H. unfold mentions_private. apply eq_true_iff_eq. rewrite !existsb_exists.
  split; intros [q [Hi He]]; exists q; split; auto; apply H; auto.
Qed.

Lemma retained_is_unused : forall params ms hm0 q, Permutation hm0 (filter nonconst params) ->
  (In q (fold_left (step_retain self_ty) ms hm0) <-> In q (unused params self_ty ms)).
Proof.
  intros params ms hm0 q P. rewrite fold_retain_In. unfold unused. rewrite filter_In, andb_true_iff, negb_true_iff.
  assert (In q hm0 <-> In q (filter nonconst params)) as E
    by (split; intro H; [eapply Permutation_in; eauto | eapply Permutation_in; [apply Permutation_sym; eauto | auto]]).
  rewrite E, filter_In. tauto.
Qed.

Theorem where_preds_spec : forall params ms hm0 preds, Permutation hm0 (filter nonconst params) ->
  impl_private_preds params self_ty hm0 ms preds = spec_private_preds params self_ty ms preds /\
  impl_script_preds params self_ty hm0 ms preds = spec_script_preds params self_ty ms preds.
Proof.
  intros params ms hm0 preds P. unfold impl_private_preds, impl_script_preds, spec_private_preds, spec_script_preds.
  destruct (full ms); [split; reflexivity|].
  assert (forall wp, mentions_private (fold_left (step_retain self_ty) ms hm0) wp = mentions_private (unused params self_ty ms) wp) as E
    by (intro wp; apply mentions_private_ext; intro q; apply retained_is_unused; exact P).
  split; apply filter_ext; intro wp; rewrite E; reflexivity.
Qed.

Theorem where_preds_none_lost : forall params ms preds wp, In wp preds ->
  (In wp (spec_private_preds params self_ty ms preds) /\ ~ In wp (spec_script_preds params self_ty ms preds)) \/
  (In wp (spec_script_preds params self_ty ms preds) /\ ~ In wp (spec_private_preds params self_ty ms preds)).
Proof.
  intros params ms preds wp H. unfold spec_private_preds, spec_script_preds. destruct (full ms).
  - right. split; [exact H | intros []].
  - rewrite !filter_In. destruct (mentions_private (unused params self_ty ms) wp); simpl.
    + left. split; [tauto | intros [_ K]; discriminate].
    + right. split; [tauto | intros [_ K]; discriminate].
Qed.

Theorem where_pred_private_iff : forall params ms preds wp, full ms = false ->
  (In wp (spec_private_preds params self_ty ms preds) <->
   In wp preds /\ exists p, In p (unused params self_ty ms) /\ includes wp p = true).
Proof.
  intros params ms preds wp F. unfold spec_private_preds. rewrite F, filter_In. unfold mentions_private. rewrite existsb_exists. tauto.
Qed.

End WithSelfTy.

(* the code before fix fdc5b8f did depend on the iteration order (defect F2) *)
Theorem impl_gen_old_order_dependent : exists params ms hm1 hm2,
  Permutation hm1 (filter nonconst params) /\ Permutation hm2 (filter nonconst params) /\
  impl_gen_old params [] hm1 ms <> impl_gen_old params [] hm2 ms.
Proof.
  pose (X := {| gp_kind := KType; gp_name := "X"%string |}). pose (Y := {| gp_kind := KType; gp_name := "Y"%string |}).
  exists [X; Y], [], [X; Y], [Y; X]. repeat split.
  - apply Permutation_refl.
  - simpl. apply perm_swap.
  - vm_compute. discriminate.
Qed.

(* the hypotheses are satisfiable in a non-trivial way: 5 parameters, one used, one const, reversed map order *)
Example impl_gen_example :
  let p k n := {| gp_kind := k; gp_name := n |} in
  let params := [p KLife "'a"; p KType "X"; p KType "Y"; p KConst "N"; p KType "Z"]%string in
  let ms := [ {| m_kind := MRef; m_localgen := false; m_sig := ["fn"; "inc"; "("; "&"; "mut"; "self"; ","; "y"; ":"; "Y"; ")"]%string |} ] in
  Permutation [p KType "Z"; p KType "Y"; p KType "X"; p KLife "'a"]%string (filter nonconst params) /\
  mg_phantom (impl_gen params ["A"; "<"; "'a"; ","; "X"; ","; "Y"; ","; "N"; ","; "Z"; ">"]%string [p KType "Z"; p KType "Y"; p KType "X"; p KLife "'a"]%string ms) = [(0, "'a"); (1, "X"); (2, "Z")]%string /\
  mg_script (impl_gen params ["A"; "<"; "'a"; ","; "X"; ","; "Y"; ","; "N"; ","; "Z"; ">"]%string [p KType "Z"; p KType "Y"; p KType "X"; p KLife "'a"]%string ms) = ["Y"; "N"]%string.
Proof.
  simpl. repeat split.
  change (Permutation (rev [{| gp_kind := KLife; gp_name := "'a" |}; {| gp_kind := KType; gp_name := "X" |};
                             {| gp_kind := KType; gp_name := "Y" |}; {| gp_kind := KType; gp_name := "Z" |}])
                      [{| gp_kind := KLife; gp_name := "'a" |}; {| gp_kind := KType; gp_name := "X" |};
                       {| gp_kind := KType; gp_name := "Y" |}; {| gp_kind := KType; gp_name := "Z" |}]).
  apply Permutation_sym. apply Permutation_rev.
Qed.

(* a Self-only use: impl<T, U, const N: usize> A<T, N> for a type whose third parameter is fixed elsewhere is not needed --
   the plain case impl<T, U> A<T> { fn snapshot(&self) -> Self } shows it: T is a Script parameter although no signature spells it,
   U (not named by the self type here) stays private *)
Example self_only_example :
  let p k n := {| gp_kind := k; gp_name := n |} in
  let params := [p KType "T"; p KType "U"]%string in
  let ms := [ {| m_kind := MRef; m_localgen := false; m_sig := ["fn"; "snapshot"; "("; "&"; "self"; ")"; "-"; ">"; "Self"]%string |} ] in
  mg_script (impl_gen params ["A"; "<"; "T"; ">"]%string [p KType "U"; p KType "T"]%string ms) = ["T"]%string /\
  mg_phantom (impl_gen params ["A"; "<"; "T"; ">"]%string [p KType "U"; p KType "T"]%string ms) = [(0, "U")]%string.
Proof. split; reflexivity. Qed.

(* retaining BEFORE the Self substitution (a reordering of process_met) computes a different partition: T would become private
   while the variant field still has type A<T> *)
Theorem retain_before_substitution_differs : exists params self_ty ms hm,
  Permutation hm (filter nonconst params) /\ impl_gen_retain_first params hm ms <> impl_gen params self_ty hm ms.
Proof.
  exists [{| gp_kind := KType; gp_name := "T"%string |}], ["A"; "<"; "T"; ">"]%string,
         [ {| m_kind := MRef; m_localgen := false; m_sig := ["fn"; "absorb"; "("; "&"; "mut"; "self"; ","; "other"; ":"; "Self"; ")"]%string |} ],
         [{| gp_kind := KType; gp_name := "T"%string |}].
  split; [apply Permutation_refl | vm_compute; discriminate].
Qed.

(* impl<T, U> A<T, U> where U: Default, T: From<U>, T: Clone { fn get(&self, t: T) }: U is private; both predicates that mention U
   follow it onto direct / play, `T: Clone` stays on the Script impl *)
Example where_preds_example :
  let p k n := {| gp_kind := k; gp_name := n |} in
  let params := [p KType "T"; p KType "U"]%string in
  let ms := [ {| m_kind := MRef; m_localgen := false; m_sig := ["fn"; "get"; "("; "&"; "self"; ","; "t"; ":"; "T"; ")"]%string |} ] in
  let preds := [["U"; ":"; "Default"]; ["T"; ":"; "From"; "<"; "U"; ">"]; ["T"; ":"; "Clone"]]%string in
  impl_private_preds params ["A"; "<"; "T"; ","; "U"; ">"]%string [p KType "U"; p KType "T"]%string ms preds
    = [["U"; ":"; "Default"]; ["T"; ":"; "From"; "<"; "U"; ">"]]%string /\
  impl_script_preds params ["A"; "<"; "T"; ","; "U"; ">"]%string [p KType "U"; p KType "T"]%string ms preds = [["T"; ":"; "Clone"]]%string.
Proof. split; reflexivity. Qed.
