//! The probe actor, stamped out once per (lib, channel) configuration, plus
//! the scenario runners burst / mixed / lifecycle / fault / consume.
//!
//! Everything that differs between the runtimes is hidden behind the small
//! lib-dispatched macros below; the impl block and the runners exist once.

// ------------------------------------------------------------ lib dispatch

/// Perform a handle call on the orchestrator (main) thread.
macro_rules! sync_call {
    (std, $e:expr) => { $e };
    (tokio, $e:expr) => { $crate::support::tokio_rt().block_on(async { $e.await }) };
    (async_std, $e:expr) => { async_std::task::block_on(async { $e.await }) };
    (smol, $e:expr) => { smol::block_on(async { $e.await }) };
}

/// Same, with a panic turned into `Err(message)`.
macro_rules! main_call {
    ($lib:ident, $e:expr) => { $crate::support::catch(|| sync_call!($lib, $e)) };
}

/// Start a client: an OS thread (std) or a task (async libs). The body is
/// wrapped so that a panic ends up in the slot, never in the process.
macro_rules! spawn_client {
    (std, $slot:expr, $($body:tt)*) => { $crate::support::spawn_std($slot, move || { $($body)* }) };
    (tokio, $slot:expr, $($body:tt)*) => { $crate::support::spawn_tokio($slot, async move { $($body)* }) };
    (async_std, $slot:expr, $($body:tt)*) => { $crate::support::spawn_async_std($slot, async move { $($body)* }) };
    (smol, $slot:expr, $($body:tt)*) => { $crate::support::spawn_smol($slot, async move { $($body)* }) };
}

/// Orchestrator call executed by a throw-away client that owns a clone of the
/// handle, so that it can be abandoned after a timeout. `$h` is rebound to the
/// clone inside `$call`.
macro_rules! timed_call {
    ($lib:ident, [$($aw:tt)*], $h:ident, $call:expr, $t:expr) => {{
        let (tx, rx) = std::sync::mpsc::channel();
        let slot = $crate::support::Slot::new();
        #[allow(unused_mut)]
        let mut $h = $h.clone();
        spawn_client!($lib, slot.clone(), { let v = $call $($aw)*; let _ = tx.send(v); });
        match rx.recv_timeout($t) {
            Ok(v) => $crate::support::Timed::Ok(v),
            Err(_) => {
                // sender dropped (panic) or timeout: give the slot a moment to settle
                $crate::support::wait_until(|| slot.finished(), std::time::Duration::from_millis(300));
                match slot.outcome() {
                    $crate::support::Outcome::Panicked(m) => $crate::support::Timed::Panicked(m),
                    _ => $crate::support::Timed::Hung,
                }
            }
        }
    }};
}

/// `a.link(forwarder calling b.add)`: only a blocking (std) handle can be used from inside a plain method
macro_rules! chain_link {
    (std, $a:ident, $b:ident) => {{ let mut b2 = $b.clone(); $a.link(Box::new(move |x| b2.add(7, 0, x))); }};
    ($lib:ident, $a:ident, $b:ident) => {{ let _ = (&$a, &$b); return Err("chain needs lib=std".to_string()); }};
}

/// Number of call kinds available to `mixed` (asy exists only for async libs).
macro_rules! nkinds {
    (std) => { 5u32 };
    ($other:ident) => { 6u32 };
}

macro_rules! call_nap {
    (std, $h:ident, $ms:expr) => {{ let _ = (&$h, $ms); return Err("napdrop needs an async lib".to_string()); }};
    ($lib:ident, $h:ident, $ms:expr) => { main_call!($lib, $h.nap(0, 0, $ms)).map_err(|e| format!("nap() panicked: {e}"))? };
}

macro_rules! call_asy {
    (std, [$($aw:tt)*], $h:ident, $c:expr, $s:expr, $x:expr) => {{ let _ = (&$h, $c, $s, $x); unreachable!("asy does not exist for lib=std") }};
    ($lib:ident, [$($aw:tt)*], $h:ident, $c:expr, $s:expr, $x:expr) => { $h.asy($c, $s, $x) $($aw)* };
}

// ------------------------------------------------------------ the actor

macro_rules! stamp_actor {
    (
        mod $m:ident; kind $kind:ident; lib $lib:ident $libs:tt; chan $chan:tt; aw [$($aw:tt)*];
        attr [$($ax:tt)*]; asy [$($asy:tt)?]; fin [$($fin:tt)?]
    ) => {
        #[allow(dead_code, unused_variables, unused_mut, unused_imports, unreachable_code)]
        pub mod $m {
            use std::sync::atomic::Ordering::SeqCst;
            use std::sync::Arc;
            use std::time::Duration;
            use $crate::support::*;

            pub struct Probe {
                rec: Arc<Rec>,
                acc: i64,
                // what `relay` forwards to (another actor of the same type, see scenario `chain`)
                next: Option<Box<dyn FnMut(i64) -> i64 + Send>>,
            }

            impl Drop for Probe {
                fn drop(&mut self) {
                    self.rec.drops.fetch_add(1, SeqCst);
                    self.rec.push("drop".to_string());
                }
            }

            #[interthread::actor(lib = $libs, channel = $chan $($ax)*)]
            impl Probe {
                pub fn new(rec: Arc<Rec>) -> Self {
                    rec.ctor_runs.fetch_add(1, SeqCst);
                    Self { rec, acc: 0, next: None }
                }

                pub fn tick(&mut self, caller: u32, seq: u32) {
                    let _g = self.rec.enter();
                    self.acc = self.acc.wrapping_mul(31).wrapping_add(caller as i64 * 1000 + seq as i64);
                    self.rec.push(format!("tick:{caller}:{seq}"));
                }

                pub fn put(&mut self, (a, b): (u32, u32), c: u32) {
                    let _g = self.rec.enter();
                    self.acc = self.acc.wrapping_mul(31).wrapping_add(a as i64 * 100 + b as i64 * 10 + c as i64);
                    self.rec.push(format!("put:{a}:{b}:{c}"));
                }

                pub fn get(&self) -> i64 {
                    let _g = self.rec.enter();
                    self.rec.push(format!("get:{}", self.acc));
                    self.acc
                }

                pub fn add(&mut self, caller: u32, seq: u32, x: i64) -> i64 {
                    let _g = self.rec.enter();
                    self.acc = self.acc.wrapping_add(x);
                    self.rec.push(format!("add:{caller}:{seq}:{x}:{}", self.acc));
                    self.acc
                }

                pub fn gen<T: Into<i64> + Send + 'static>(&mut self, caller: u32, seq: u32, t: T) -> i64 {
                    let _g = self.rec.enter();
                    self.acc = self.acc.wrapping_add(t.into());
                    self.rec.push(format!("gen:{caller}:{seq}:{}", self.acc));
                    self.acc
                }

                pub fn hold(&mut self) {
                    let _g = self.rec.enter();
                    self.rec.push("hold".to_string());
                    self.rec.wait_gate();
                }

                pub fn boom(&mut self) {
                    let _g = self.rec.enter();
                    self.rec.push("boom".to_string());
                    panic!("probe boom");
                }

                pub fn log(&self) -> Vec<String> {
                    let _g = self.rec.enter();
                    self.rec.snapshot()
                }

                // `link` installs a forwarder, `relay` calls it from inside the actor (one actor using the handle of another)
                pub fn link(&mut self, f: Box<dyn FnMut(i64) -> i64 + Send>) {
                    self.next = Some(f);
                }

                pub fn relay(&mut self, caller: u32, seq: u32, x: i64) -> i64 {
                    let _g = self.rec.enter();
                    let v = match self.next.as_mut() { Some(f) => f(x), None => x };
                    self.acc = self.acc.wrapping_add(v);
                    self.rec.push(format!("relay:{caller}:{seq}:{v}"));
                    v
                }

                // a value-returning call whose value is the unit type, with the return type spelled out
                pub fn unit(&mut self, caller: u32, seq: u32) -> () {
                    let _g = self.rec.enter();
                    self.rec.push(format!("unit:{caller}:{seq}"));
                }

                // Optional methods. They are written here (not passed in) so that
                // their `self` tokens share the hygiene context of the attribute;
                // the caller only passes the `pub` token that switches them on.

                // only where legal (lib != std)
                $(
                    $asy async fn asy(&mut self, caller: u32, seq: u32, x: i64) -> i64 {
                        let _g = self.rec.enter();
                        self.acc = self.acc.wrapping_add(x);
                        self.rec.push(format!("asy:{caller}:{seq}:{x}:{}", self.acc));
                        self.acc
                    }

                    // a reply-less call that is suspended at an await point for `ms` milliseconds (scenario `napdrop`)
                    $asy async fn nap(&mut self, caller: u32, seq: u32, ms: u64) {
                        let _g = self.rec.enter();
                        self.rec.push(format!("nap:start:{caller}:{seq}"));
                        pause_for(ms).await;
                        self.rec.push(format!("nap:end:{caller}:{seq}"));
                    }
                )?

                // only in the `debut` modules (consume scenario)
                $(
                    // the parameter carries a name generated code is fond of: the value must still be the caller's
                    $fin fn fin(self, count: usize) -> Option<i64> {
                        let _g = self.rec.enter();
                        let x = count as i64;
                        self.rec.push(format!("fin:{x}:{}", self.acc.wrapping_add(x)));
                        Some(self.acc.wrapping_add(x))
                    }
                )?
            }

            pub const LIB: &str = $libs;
            pub const CHAN: usize = $chan;

            runners!($kind, $lib, [$($aw)*]);
        }
    };
}

// ------------------------------------------------------------ the runners

macro_rules! runners {
    // ------------------------------------------------ burst/mixed/lifecycle/fault
    (full, $lib:ident, [$($aw:tt)*]) => {
        pub fn run(p: &Params) -> Result<String, String> {
            match p.scenario.as_str() {
                "burst" => burst(p),
                "mixed" => mixed(p),
                "lifecycle" => lifecycle(p),
                "fault" => fault(p),
                "slowreply" => slowreply(p),
                "nothread" => nothread(p),
                "chain" => chain(p),
                "napdrop" => napdrop(p),
                other => Err(format!("scenario {other} is not available in this module")),
            }
        }

        // ---- 1. burst
        pub fn burst(p: &Params) -> Result<String, String> {
            let k = p.num("k", 5)? as u32;
            let rec = Rec::new();
            phase("burst: create");
            let mut h = ProbeLive::new(rec.clone());
            phase("burst: hold");
            main_call!($lib, h.hold()).map_err(|e| format!("hold() panicked: {e}"))?;
            if !wait_until(|| rec.log_contains("hold"), Duration::from_secs(3)) {
                return Err("actor never entered hold()".to_string());
            }

            phase("burst: clients");
            let slots: Vec<Arc<Slot>> = (0..k).map(|_| Slot::new()).collect();
            for i in 0..k {
                let hc = h.clone();
                spawn_client!($lib, slots[i as usize].clone(), {
                    let mut hc = hc;
                    hc.tick(i, 0) $($aw)*;
                });
            }
            settle(&|| all_finished(&slots), Duration::from_secs(5));
            let returned_before_release = count_returned(&slots);
            let applied_before_release = rec.count_prefix("tick:");

            phase("burst: release");
            rec.open_gate();
            wait_until(|| all_finished(&slots), Duration::from_secs(5));
            let (completed, panicked, hung) = summarize(&slots);

            phase("burst: log()");
            let log = timed_call!($lib, [$($aw)*], h, h.log(), Duration::from_secs(3));
            let mut o = Obj::new(p)
                .n("k", k as i64)
                .n("returned_before_release", returned_before_release as i64)
                .n("applied_before_release", applied_before_release as i64)
                .n("completed", completed as i64)
                .n("hung", hung as i64)
                .strs("panicked", &panicked);
            match log {
                Timed::Ok(l) => {
                    let ticks: Vec<String> = l.into_iter().filter(|e| e.starts_with("tick:")).collect();
                    o = o.strs("applied", &ticks);
                }
                other => {
                    o = o.raw("applied", "null".to_string()).s("log_error", &other.describe());
                }
            }
            Ok(o.done())
        }

        // ---- 2. mixed
        pub fn mixed(p: &Params) -> Result<String, String> {
            let c = p.num("clients", 3)? as u32;
            let m = p.num("calls", 20)? as u32;
            let seed = p.num("seed", 1)?;
            if c == 0 {
                return Err("clients must be >= 1".to_string());
            }
            let rec = Rec::new();
            phase("mixed: create");
            let original = ProbeLive::new(rec.clone());
            let main_h = original.clone();
            let mut handles = Vec::new();
            for _ in 1..c {
                handles.push(original.clone());
            }
            handles.insert(0, original); // client 0 owns the original

            phase("mixed: clients");
            let slots: Vec<Arc<Slot>> = (0..c).map(|_| Slot::new()).collect();
            for (i, hc) in handles.into_iter().enumerate() {
                let i = i as u32;
                let slot = slots[i as usize].clone();
                spawn_client!($lib, slots[i as usize].clone(), {
                    let mut hc = hc;
                    let mut rng = Lcg::new(seed, i);
                    for seq in 0..m {
                        match rng.below(nkinds!($lib)) {
                            0 => {
                                hc.tick(i, seq) $($aw)*;
                            }
                            1 => {
                                let (a, b, cc) = (rng.below(10), rng.below(10), rng.below(10));
                                hc.put((a, b), cc) $($aw)*;
                            }
                            2 => {
                                let v = hc.get() $($aw)*;
                                slot.ret("get", i, seq, v);
                            }
                            3 => {
                                let x = rng.below(21) as i64 - 10;
                                let v = hc.add(i, seq, x) $($aw)*;
                                slot.ret("add", i, seq, v);
                            }
                            4 => {
                                let v = match rng.below(3) {
                                    0 => hc.gen(i, seq, rng.below(200) as u8) $($aw)*,
                                    1 => hc.gen(i, seq, -(rng.below(1000) as i32)) $($aw)*,
                                    _ => hc.gen(i, seq, rng.below(100000)) $($aw)*,
                                };
                                slot.ret("gen", i, seq, v);
                            }
                            _ => {
                                let x = rng.below(21) as i64 - 10;
                                let v: i64 = call_asy!($lib, [$($aw)*], hc, i, seq, x);
                                slot.ret("asy", i, seq, v);
                            }
                        }
                        slot.call_done();
                    }
                });
            }
            settle(&|| all_finished(&slots), Duration::from_secs(10));
            let (_, panicked, hung) = summarize(&slots);

            phase("mixed: get()/log()");
            let fin = timed_call!($lib, [$($aw)*], main_h, main_h.get(), Duration::from_secs(3));
            let log = timed_call!($lib, [$($aw)*], main_h, main_h.log(), Duration::from_secs(3));

            let mut returns: Vec<(String, u32, u32, i64)> = Vec::new();
            for s in &slots {
                returns.extend(lock(&s.returns).iter().cloned());
            }
            let calls_done: Vec<String> = slots.iter().map(|s| s.calls_done.load(SeqCst).to_string()).collect();
            let returns_json: Vec<String> = returns
                .iter()
                .map(|(k, c, s, v)| format!("[{},{},{},{}]", jstr(k), c, s, v))
                .collect();

            let mut o = Obj::new(p)
                .n("clients", c as i64)
                .n("calls", m as i64)
                .n("seed", seed as i64);
            let log_vec = match log {
                Timed::Ok(l) => Some(l),
                other => {
                    o = o.s("log_error", &other.describe());
                    None
                }
            };
            let final_v = match fin {
                Timed::Ok(v) => Some(v),
                other => {
                    o = o.s("final_error", &other.describe());
                    None
                }
            };
            // when log() failed fall back to the recorder, and say so
            let (log_used, log_source) = match log_vec {
                Some(l) => (l, "handle"),
                None => (rec.snapshot(), "recorder"),
            };
            let overlap = log_used.iter().any(|e| e == "overlap");
            let checks = check_mixed(&log_used, &returns, final_v, c);
            o = o
                .strs("log", &log_used)
                .s("log_source", log_source)
                .raw("returns", format!("[{}]", returns_json.join(",")))
                .raw("final", jopt_num(final_v))
                .b("overlap", overlap)
                .strs("panicked", &panicked)
                .n("hung", hung as i64)
                .raw("calls_done", format!("[{}]", calls_done.join(",")))
                .raw("checks", checks);
            Ok(o.done())
        }

        // ---- 3. lifecycle
        pub fn lifecycle(p: &Params) -> Result<String, String> {
            let q = p.num("queued", 0)? as u32;
            if CHAN > 0 && q as usize > CHAN {
                return Err(format!("queued={q} exceeds channel capacity {CHAN}; the single client would block"));
            }
            let rec = Rec::new();
            let ctor_before = rec.ctor_runs.load(SeqCst);
            let drops_before = rec.drops.load(SeqCst);
            phase("lifecycle: create");
            let mut h = ProbeLive::new(rec.clone());
            phase("lifecycle: hold");
            main_call!($lib, h.hold()).map_err(|e| format!("hold() panicked: {e}"))?;
            if !wait_until(|| rec.log_contains("hold"), Duration::from_secs(3)) {
                return Err("actor never entered hold()".to_string());
            }
            phase("lifecycle: queue ticks");
            for i in 0..q {
                main_call!($lib, h.tick(0, i)).map_err(|e| format!("tick(0,{i}) panicked: {e}"))?;
            }
            let c1 = h.clone();
            let c2 = h.clone();
            phase("lifecycle: drop handles");
            drop(h);
            drop(c1);
            drop(c2);
            settle(&|| false, Duration::from_secs(2));
            let before_release = rec.snapshot();
            let only_hold_before_release = before_release == vec!["hold".to_string()];
            let drops_before_release = rec.drops.load(SeqCst);

            phase("lifecycle: release");
            rec.open_gate();
            let dropped_in_time = wait_until(|| rec.drops.load(SeqCst) == 1, Duration::from_secs(5));
            // let a possible second drop / late entries show up
            settle(&|| false, Duration::from_secs(1));
            Ok(Obj::new(p)
                .n("queued", q as i64)
                .n("ctor_runs_before", ctor_before as i64)
                .n("drops_before", drops_before as i64)
                .strs("log_before_release", &before_release)
                .b("only_hold_before_release", only_hold_before_release)
                .n("drops_before_release", drops_before_release as i64)
                .n("ctor_runs", rec.ctor_runs.load(SeqCst) as i64)
                .n("drops", rec.drops.load(SeqCst) as i64)
                .strs("log", &rec.snapshot())
                .b("dropped_in_time", dropped_in_time)
                .done())
        }

        // ---- 3a. napdrop: the last handle is dropped while a reply-less call is suspended at an await point inside the user's
        //          async method and further reply-less calls are queued behind it: all of them were accepted, all of them must run
        //          to completion before the actor is dropped (once)
        pub fn napdrop(p: &Params) -> Result<String, String> {
            let ms = p.num("ms", 300)? as u64;
            let q = p.num("queued", 2)? as u32;
            if CHAN > 0 && q as usize > CHAN {
                return Err(format!("queued={q} exceeds channel capacity {CHAN}; the single client would block"));
            }
            let rec = Rec::new();
            phase("napdrop: create");
            let mut h = ProbeLive::new(rec.clone());
            phase("napdrop: nap");
            call_nap!($lib, h, ms);
            if !wait_until(|| rec.log_contains("nap:start:0:0"), Duration::from_secs(3)) {
                return Err("actor never entered nap()".to_string());
            }
            phase("napdrop: queue ticks");
            for i in 0..q {
                main_call!($lib, h.tick(0, i)).map_err(|e| format!("tick(0,{i}) panicked: {e}"))?;
            }
            let at_drop = rec.snapshot();
            phase("napdrop: drop the last handle");
            drop(h);
            let dropped_in_time = wait_until(|| rec.drops.load(SeqCst) >= 1, Duration::from_millis(ms + 4000));
            settle(&|| false, Duration::from_millis(ms + 700));
            Ok(Obj::new(p)
                .n("queued", q as i64)
                .n("ms", ms as i64)
                .strs("log_at_drop", &at_drop)
                .strs("log", &rec.snapshot())
                .n("drops", rec.drops.load(SeqCst) as i64)
                .n("ctor_runs", rec.ctor_runs.load(SeqCst) as i64)
                .b("dropped_in_time", dropped_in_time)
                .done())
        }

        // ---- 3b. slowreply: a value-returning call whose reply takes `ms` milliseconds because the actor is busy with an
        //          earlier call; the caller must simply wait and then get its value
        pub fn slowreply(p: &Params) -> Result<String, String> {
            let ms = p.num("ms", 1000)? as u64;
            let rec = Rec::new();
            phase("slowreply: create");
            let mut h = ProbeLive::new(rec.clone());
            main_call!($lib, h.hold()).map_err(|e| format!("hold() panicked: {e}"))?;
            if !wait_until(|| rec.log_contains("hold"), Duration::from_secs(3)) {
                return Err("actor never entered hold()".to_string());
            }
            phase("slowreply: waiting caller");
            let slot = Slot::new();
            {
                let hc = h.clone();
                let s2 = slot.clone();
                // kind=unit: the waiting call is one of a method declared `-> ()` (it completes when the method has run)
                if p.text("kind", "add") == "unit" {
                    spawn_client!($lib, slot.clone(), {
                        let mut hc = hc;
                        let _u: () = hc.unit(0, 0) $($aw)*;
                        s2.set_value(1);
                    });
                } else {
                    spawn_client!($lib, slot.clone(), {
                        let mut hc = hc;
                        let v = hc.add(0, 0, 1) $($aw)*;
                        s2.set_value(v);
                    });
                }
            }
            std::thread::sleep(Duration::from_millis(ms));
            let finished_early = slot.finished();
            phase("slowreply: release");
            rec.open_gate();
            settle(&|| slot.finished(), Duration::from_secs(4));
            let (outcome, msg) = match slot.outcome() {
                Outcome::Returned => ("returned", None),
                Outcome::Panicked(m) => ("panicked", Some(m)),
                Outcome::Running => ("hung", None),
            };
            // the actor must still be usable afterwards
            let after = timed_call!($lib, [$($aw)*], h, h.get(), Duration::from_secs(3));
            Ok(Obj::new(p)
                .n("ms", ms as i64)
                .b("finished_before_release", finished_early)
                .s("outcome", outcome)
                .raw("msg", jopt_str(msg.as_deref()))
                .raw("value", jopt_num(slot.get_value()))
                .s("get_after", &after.describe())
                .strs("log", &rec.snapshot())
                .n("drops", rec.drops.load(SeqCst) as i64)
                .done())
        }

        // ---- 3d. chain (lib = std): a method of one actor calls a value-returning method of another actor of the same type
        pub fn chain(p: &Params) -> Result<String, String> {
            let rec_a = Rec::new();
            let rec_b = Rec::new();
            let mut a = ProbeLive::new(rec_a.clone());
            let b = ProbeLive::new(rec_b.clone());
            chain_link!($lib, a, b);
            let r = timed_call!($lib, [$($aw)*], a, a.relay(0, 0, 5), Duration::from_secs(3));
            let (outcome, value) = match &r { Timed::Ok(v) => ("returned".to_string(), Some(*v)), other => (other.describe(), None) };
            let ga = timed_call!($lib, [$($aw)*], a, a.get(), Duration::from_secs(3));
            let gb = timed_call!($lib, [$($aw)*], b, b.get(), Duration::from_secs(3));
            Ok(Obj::new(p)
                .s("outcome", &outcome)
                .raw("value", jopt_num(value))
                .s("a_after", &ga.describe())
                .s("b_after", &gb.describe())
                .strs("log_a", &rec_a.snapshot())
                .strs("log_b", &rec_b.snapshot())
                .done())
        }

        // ---- 3c. nothread: the constructor is called at a moment when the OS refuses a new thread (meaningful for lib = std):
        //          either it fails loudly, or the handle it returns is served by an actor
        pub fn nothread(p: &Params) -> Result<String, String> {
            let rec = Rec::new();
            let r2 = rec.clone();
            let res = with_no_threads(move || std::panic::catch_unwind(std::panic::AssertUnwindSafe(|| ProbeLive::new(r2))));
            let (injected, outcome, served, drops_with_handle) = match res {
                None => (false, "none", false, 0),
                Some(Err(_)) => (true, "constructor_panicked", false, 0),
                Some(Ok(h)) => {
                    let drops = rec.drops.load(SeqCst);
                    let g = timed_call!($lib, [$($aw)*], h, h.get(), Duration::from_secs(3));
                    let ok = matches!(g, Timed::Ok(_));
                    (true, "handle", ok, drops)
                }
            };
            Ok(Obj::new(p)
                .b("injected", injected)
                .s("outcome", outcome)
                .b("served", served)
                .n("drops_while_handle_exists", drops_with_handle as i64)
                .n("ctor_runs", rec.ctor_runs.load(SeqCst) as i64)
                .done())
        }

        // ---- 4. fault
        pub fn fault(p: &Params) -> Result<String, String> {
            let wn = p.num("waiting", 2)? as u32;
            let l = p.num("later", 4)? as u32;
            let order = p.text("order", "boom_first");
            if order != "boom_first" && order != "adds_first" {
                return Err(format!("order must be boom_first or adds_first, got {order}"));
            }
            let rec = Rec::new();
            phase("fault: create");
            let mut h = ProbeLive::new(rec.clone());
            phase("fault: hold");
            main_call!($lib, h.hold()).map_err(|e| format!("hold() panicked: {e}"))?;
            if !wait_until(|| rec.log_contains("hold"), Duration::from_secs(3)) {
                return Err("actor never entered hold()".to_string());
            }

            // (who, kind, phase, slot)
            let mut calls: Vec<(u32, &'static str, &'static str, Arc<Slot>)> = Vec::new();

            phase("fault: in-flight clients");
            let boom_slot = Slot::new();
            let un = p.num("units", 0)? as u32;
            let unit_slots: Vec<Arc<Slot>> = (0..un).map(|_| Slot::new()).collect();
            let add_slots: Vec<Arc<Slot>> = (0..wn).map(|_| Slot::new()).collect();
            for step in 0..2 {
                let boom_now = (step == 0) == (order == "boom_first");
                if boom_now {
                    let hc = h.clone();
                    spawn_client!($lib, boom_slot.clone(), {
                        let mut hc = hc;
                        hc.boom() $($aw)*;
                    });
                    settle(&|| boom_slot.finished(), Duration::from_secs(3));
                } else {
                    for i in 0..wn {
                        let hc = h.clone();
                        let slot = add_slots[i as usize].clone();
                        spawn_client!($lib, add_slots[i as usize].clone(), {
                            let mut hc = hc;
                            let v = hc.add(i, 0, 1) $($aw)*;
                            slot.set_value(v);
                        });
                    }
                    settle(&|| all_finished(&add_slots), Duration::from_secs(3));
                    for i in 0..un {
                        let hc = h.clone();
                        spawn_client!($lib, unit_slots[i as usize].clone(), {
                            let mut hc = hc;
                            let _v: () = hc.unit(100 + i, 0) $($aw)*;
                        });
                    }
                    if un > 0 {
                        settle(&|| all_finished(&unit_slots), Duration::from_secs(2));
                    }
                }
            }
            for i in 0..wn {
                calls.push((i, "add", "inflight", add_slots[i as usize].clone()));
            }
            for i in 0..un {
                calls.push((100 + i, "unit", "inflight", unit_slots[i as usize].clone()));
            }
            calls.push((wn, "boom", "inflight", boom_slot.clone()));

            phase("fault: release");
            rec.open_gate();
            let actor_reached_boom = wait_until(|| rec.log_contains("boom"), Duration::from_secs(3));
            std::thread::sleep(Duration::from_millis(200));
            let inflight: Vec<Arc<Slot>> = calls.iter().map(|c| c.3.clone()).collect();
            settle(&|| all_finished(&inflight), Duration::from_secs(3));

            phase("fault: later clients");
            let later_slots: Vec<Arc<Slot>> = (0..l).map(|_| Slot::new()).collect();
            for j in 0..l {
                let hc = h.clone();
                let slot = later_slots[j as usize].clone();
                if j % 2 == 0 {
                    spawn_client!($lib, later_slots[j as usize].clone(), {
                        let mut hc = hc;
                        hc.tick(j, 1) $($aw)*;
                    });
                    calls.push((j, "tick", "later", slot));
                } else {
                    spawn_client!($lib, later_slots[j as usize].clone(), {
                        let mut hc = hc;
                        let v = hc.get() $($aw)*;
                        slot.set_value(v);
                    });
                    calls.push((j, "get", "later", later_slots[j as usize].clone()));
                }
            }
            settle(&|| all_finished(&later_slots), Duration::from_secs(3));
            // in-flight callers get one more chance to finish
            settle(&|| all_finished(&inflight), Duration::from_secs(1));

            let items: Vec<String> = calls
                .iter()
                .map(|(who, kind, ph, slot)| {
                    let (outcome, msg) = match slot.outcome() {
                        Outcome::Returned => ("returned", None),
                        Outcome::Panicked(m) => ("panicked", Some(m)),
                        Outcome::Running => ("hung", None),
                    };
                    Obj::bare()
                        .n("who", *who as i64)
                        .s("kind", kind)
                        .s("phase", ph)
                        .s("outcome", outcome)
                        .raw("value", jopt_num(slot.get_value()))
                        .raw("msg", jopt_str(msg.as_deref()))
                        .done()
                })
                .collect();
            Ok(Obj::new(p)
                .n("waiting", wn as i64)
                .n("later", l as i64)
                .s("order", &order)
                .b("actor_reached_boom", actor_reached_boom)
                .raw("calls", format!("[{}]", items.join(",")))
                .strs("log", &rec.snapshot())
                .n("drops", rec.drops.load(SeqCst) as i64)
                .done())
        }
    };

    // ------------------------------------------------ consume (debut modules)
    (debut, $lib:ident, [$($aw:tt)*]) => {
        pub fn run(p: &Params) -> Result<String, String> {
            match p.scenario.as_str() {
                "consume" => consume(p),
                other => Err(format!("scenario {other} is not available in this module")),
            }
        }

        // ---- 5. consume
        pub fn consume(p: &Params) -> Result<String, String> {
            let hn = p.num("handles", 1)? as u32;
            if hn == 0 {
                return Err("handles must be >= 1".to_string());
            }
            let rec = Rec::new();
            phase("consume: create");
            let mut h = ProbeLive::new(rec.clone());
            phase("consume: warm-up calls");
            main_call!($lib, h.tick(0, 0)).map_err(|e| format!("tick(0,0) panicked: {e}"))?;
            main_call!($lib, h.tick(0, 1)).map_err(|e| format!("tick(0,1) panicked: {e}"))?;
            let add_value = main_call!($lib, h.add(0, 2, 5)).map_err(|e| format!("add(0,2,5) panicked: {e}"))?;
            // dead=1: the actor dies in a panicking method before the consuming call is issued
            let dead = p.num("dead", 0)? != 0;
            if dead {
                phase("consume: boom");
                main_call!($lib, h.boom()).map_err(|e| format!("boom() panicked in the caller: {e}"))?;
                if !wait_until(|| rec.log_contains("boom") && rec.drops.load(SeqCst) >= 1, Duration::from_secs(3)) {
                    return Err("actor did not die in boom()".to_string());
                }
                std::thread::sleep(Duration::from_millis(300));
            }
            let clones: Vec<ProbeLive> = (1..hn).map(|_| h.clone()).collect();
            // pending=k: the actor is parked in hold() and k fire-and-forget calls of a clone (dropped again) are queued
            // before the consuming call is issued, so the stop message is not the only message in the queue
            let pend = p.num("pending", 0)? as u32;
            if pend > 0 {
                if CHAN > 0 && pend as usize > CHAN {
                    return Err(format!("pending={pend} exceeds channel capacity {CHAN}; the single client would block"));
                }
                phase("consume: hold");
                main_call!($lib, h.hold()).map_err(|e| format!("hold() panicked: {e}"))?;
                if !wait_until(|| rec.log_contains("hold"), Duration::from_secs(3)) {
                    return Err("actor never entered hold()".to_string());
                }
                let mut c = h.clone();
                for i in 0..pend {
                    main_call!($lib, c.tick(9, i)).map_err(|e| format!("tick(9,{i}) panicked: {e}"))?;
                }
                drop(c);
            }
            let count_before_fin = h.inter_get_count();

            // nofin=1: the consuming method is never called: every handle is simply dropped, the actor of a model WITH a consuming method
            // must end and be dropped like any other
            if p.num("nofin", 0)? != 0 {
                phase("consume: drop every handle");
                if pend > 0 { rec.open_gate(); }
                drop(clones);
                drop(h);
                let dropped_in_time = wait_until(|| rec.drops.load(SeqCst) >= 1, Duration::from_secs(4));
                settle(&|| false, Duration::from_millis(700));
                return Ok(Obj::new(p)
                    .n("handles", hn as i64)
                    .n("pending", pend as i64)
                    .b("nofin", true)
                    .b("dropped_in_time", dropped_in_time)
                    .n("drops", rec.drops.load(SeqCst) as i64)
                    .strs("log_after", &rec.snapshot())
                    .done());
            }

            phase("consume: fin(7)");
            let fin_slot = Slot::new();
            {
                let slot = fin_slot.clone();
                spawn_client!($lib, fin_slot.clone(), {
                    let r: Option<i64> = h.fin(7) $($aw)*;
                    if let Some(v) = r {
                        slot.set_value(v);
                    }
                });
            }
            if pend > 0 {
                // let the consuming call reach its blocking point behind the queued calls, then release the actor
                settle(&|| fin_slot.finished(), Duration::from_millis(600));
                // holdms: the earlier calls keep the actor busy that long before the hand-over can happen
                std::thread::sleep(Duration::from_millis(p.num("holdms", 0)? as u64));
                rec.open_gate();
            }
            settle(&|| fin_slot.finished(), Duration::from_secs(3));
            let (fin_outcome, fin_msg) = match fin_slot.outcome() {
                Outcome::Returned => ("returned", None),
                Outcome::Panicked(m) => ("panicked", Some(m)),
                Outcome::Running => ("hung", None),
            };
            settle(&|| false, Duration::from_secs(1));
            let log_after = rec.snapshot();
            let drops_after_fin = rec.drops.load(SeqCst);

            let mut o = Obj::new(p)
                .n("handles", hn as i64)
                .n("pending", pend as i64)
                .b("dead", dead)
                .n("add_value", add_value)
                .n("count_before_fin", count_before_fin as i64)
                .s("fin_outcome", fin_outcome)
                .raw("fin_msg", jopt_str(fin_msg.as_deref()))
                .raw("result", jopt_num(fin_slot.get_value()))
                .strs("log_after", &log_after)
                .n("drops_after_fin", drops_after_fin as i64);

            if hn > 1 {
                phase("consume: get() through a remaining clone");
                let c0 = &clones[0];
                let g = timed_call!($lib, [$($aw)*], c0, c0.get(), Duration::from_secs(3));
                let (alive, value) = match &g {
                    Timed::Ok(v) => (true, Some(*v)),
                    _ => (false, None),
                };
                o = o
                    .b("still_alive", alive)
                    .s("get_outcome", &g.describe())
                    .raw("get_value", jopt_num(value));
            }
            Ok(o.done())
        }
    };
}

// ------------------------------------------------------------ stamping

macro_rules! stamp_std {
    ($m:ident, $md:ident, $chan:tt) => {
        stamp_actor! { mod $m; kind full; lib std "std"; chan $chan; aw []; attr []; asy []; fin [] }
        stamp_actor! { mod $md; kind debut; lib std "std"; chan $chan; aw []; attr [, debut]; asy []; fin [pub] }
    };
}

macro_rules! stamp_async {
    ($m:ident, $md:ident, $lib:ident, $libs:tt, $chan:tt) => {
        stamp_actor! { mod $m; kind full; lib $lib $libs; chan $chan; aw [.await]; attr []; asy [pub]; fin [] }
        stamp_actor! { mod $md; kind debut; lib $lib $libs; chan $chan; aw [.await]; attr [, debut]; asy [pub]; fin [pub] }
    };
}

stamp_std!(std_0, std_0_debut, 0);
stamp_std!(std_1, std_1_debut, 1);
stamp_std!(std_2, std_2_debut, 2);
stamp_std!(std_3, std_3_debut, 3);

stamp_async!(tokio_0, tokio_0_debut, tokio, "tokio", 0);
stamp_async!(tokio_1, tokio_1_debut, tokio, "tokio", 1);
stamp_async!(tokio_2, tokio_2_debut, tokio, "tokio", 2);
stamp_async!(tokio_3, tokio_3_debut, tokio, "tokio", 3);

stamp_async!(async_std_0, async_std_0_debut, async_std, "async_std", 0);
stamp_async!(async_std_1, async_std_1_debut, async_std, "async_std", 1);
stamp_async!(async_std_2, async_std_2_debut, async_std, "async_std", 2);
stamp_async!(async_std_3, async_std_3_debut, async_std, "async_std", 3);

stamp_async!(smol_0, smol_0_debut, smol, "smol", 0);
stamp_async!(smol_1, smol_1_debut, smol, "smol", 1);
stamp_async!(smol_2, smol_2_debut, smol, "smol", 2);
stamp_async!(smol_3, smol_3_debut, smol, "smol", 3);

/// Dispatch to the module compiled for (lib, chan). `debut` selects the
/// `..._debut` family used by the consume scenario.
pub fn dispatch(p: &crate::support::Params, debut: bool) -> Result<String, String> {
    macro_rules! table {
        ($( $lib:literal $chan:literal $m:ident $md:ident; )*) => {
            match (p.lib.as_str(), p.chan, debut) {
                $( ($lib, $chan, false) => $m::run(p), ($lib, $chan, true) => $md::run(p), )*
                (l, c, _) => Err(format!("no actor compiled for lib={l} chan={c} (lib: std|tokio|async_std|smol, chan: 0..=3)")),
            }
        };
    }
    table! {
        "std" 0 std_0 std_0_debut; "std" 1 std_1 std_1_debut; "std" 2 std_2 std_2_debut; "std" 3 std_3 std_3_debut;
        "tokio" 0 tokio_0 tokio_0_debut; "tokio" 1 tokio_1 tokio_1_debut; "tokio" 2 tokio_2 tokio_2_debut; "tokio" 3 tokio_3 tokio_3_debut;
        "async_std" 0 async_std_0 async_std_0_debut; "async_std" 1 async_std_1 async_std_1_debut; "async_std" 2 async_std_2 async_std_2_debut; "async_std" 3 async_std_3 async_std_3_debut;
        "smol" 0 smol_0 smol_0_debut; "smol" 1 smol_1 smol_1_debut; "smol" 2 smol_2 smol_2_debut; "smol" 3 smol_3 smol_3_debut;
    }
}
