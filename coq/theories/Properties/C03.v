(* C03 -- each accepted call runs exactly once and its caller gets its own reply.  Statements only. *)
From Coq Require Import List Arith Bool.
Import ListNotations.
From IT Require Import Sdpl.IR Sdpl.Elab Sdpl.Wf Runtime.Actor Runtime.Lists Runtime.ActorInv Runtime.InvDefs Runtime.Combined Runtime.InvUnblock.

Section C03.
Context {A V : Type} (sem : nat -> A -> list V -> option (A * V)) (sem_slf : nat -> A -> list V -> V) (dv : V).
Notation run := (run sem sem_slf dv).

(* while the actor is alive (nothing discarded, no self-consuming stop) every call the channel accepted is - exactly once -
   executed, in progress, or still queued: none lost, none duplicated *)
Theorem C03_exactly_once : forall (m : model), wf_C03 m = true ->
  forall a0 progs sched, let s := run (elab m) a0 progs sched in
  dropped s = [] -> moved s = 0 ->
  NoDup (enq s) /\ enq s = applied_ids s ++ busy_id s ++ qids s /\ (alive s = true -> lost s = []).
Proof.
  intros m W a0 progs sched s D M.
  destruct (exactly_once sem sem_slf dv (elab m) a0 progs sched D M) as [N E]. repeat split; auto.
  unfold wf_C03, wf_C02 in W. apply andb_prop in W. destruct W as [_ B].
  exact (no_loss_reachable sem sem_slf dv (elab m) a0 progs sched B).
Qed.

(* each execution is the execution of an issued call with exactly the argument values supplied, by position *)
Theorem C03_same_arguments : forall (m : model), wf_C03 m = true ->
  forall a0 progs sched, let s := run (elab m) a0 progs sched in
  forall c callee args r, In (c, callee, args, r) (applied s) ->
  exists k vs rm, In (c, k, vs) (issued s) /\ meth (elab m) k = Some rm /\ callee = k /\ (length vs = length (rm_args rm) -> args = vs).
Proof.
  intros m W a0 progs sched. apply executed_as_issued.
  unfold wf_C03, wf_C02, wf_C01 in W. repeat (apply andb_prop in W; destruct W as [W ?]). assumption.
Qed.

(* a value-returning call returns precisely the value produced by the execution of that very call; no caller ever
   receives the reply to a different call *)
Theorem C03_own_reply : forall (m : model), wf_C03 m = true ->
  forall a0 progs sched, let s := run (elab m) a0 progs sched in
  forall t cl c v, nth_error (clients s) t = Some cl -> In (c, Returned v) (c_rets cl) ->
  fst c = t /\ exists callee args, In (c, callee, args, v) (applied s).
Proof.
  intros m W a0 progs sched. apply own_reply.
  unfold wf_C03, wf_C02, wf_C01 in W. apply andb_prop in W. destruct W as [W _]. apply andb_prop in W. exact (proj2 W).
Qed.

(* call ids are unique, so "the execution of that call" is well defined *)
Theorem C03_ids_unique : forall (m : model) a0 progs sched, let s := run (elab m) a0 progs sched in
  NoDup (map (fun e => fst (fst e)) (issued s)).
Proof. intros m a0 progs sched. destruct (Inv_reachable sem sem_slf dv (elab m) a0 progs sched) as (I & _). apply I. Qed.
(* progress of the reply: when the actor finishes the call it is executing (the user method returns r), r lands in that call's own
   oneshot and the waiting caller's next step returns exactly r - the execution is recorded once, the actor is idle again *)
Theorem C03_reply_reaches_waiter : forall (m : model), wf_C03 m = true ->
  forall s cid k fs rm a a' r t c,
  alive s = true -> busy s = Some (Msg cid k fs) -> meth (elab m) k = Some rm -> actor s = Some a ->
  sem (rm_callee rm) a (route dv (rm_args rm) fs) = Some (a', r) ->
  rm_reply rm = true -> slot_get (slots s) cid = Some SEmpty ->
  nth_error (clients s) t = Some c -> c_pc c = Waiting cid k ->
  exists s1 s2 cl, step sem sem_slf dv (elab m) s Ac = Some s1 /\ actor s1 = Some a' /\ busy s1 = None
    /\ applied s1 = applied s ++ [(cid, rm_callee rm, route dv (rm_args rm) fs, r)]
    /\ step sem sem_slf dv (elab m) s1 (Cl t) = Some s2 /\ nth_error (clients s2) t = Some cl /\ c_pc cl = Ready
    /\ c_rets cl = c_rets c ++ [(cid, Returned r)].
Proof.
  intros m W s cid k fs rm a a' r t c Al B Hm Ha Hs Rr Sl Hc Hpc.
  apply (reply_releases_waiter sem sem_slf dv (elab m) s cid k fs rm a a' r t c); auto.
  unfold wf_C03, wf_C02, wf_C01 in W. apply andb_prop in W. destruct W as [W _]. apply andb_prop in W. destruct W as [W _].
  apply andb_prop in W. destruct W as [_ O]. unfold replies_own in O. rewrite forallb_forall in O.
  unfold meth in Hm. specialize (O rm (nth_error_In _ _ Hm)). rewrite Rr in O. exact O.
Qed.
End C03.

Print Assumptions C03_exactly_once.
Print Assumptions C03_same_arguments.
Print Assumptions C03_own_reply.
Print Assumptions C03_ids_unique.
Print Assumptions C03_reply_reaches_waiter.
