(* C09: the hand-over of the actor value to a self-consuming method, the sender count, the guard. *)
From Coq Require Import List Arith Bool Lia.
Import ListNotations.
From IT Require Import Runtime.Actor Runtime.Lists Runtime.ActorInv Runtime.InvDefs Runtime.InvSeq Runtime.InvFault Runtime.InvDefs2.

Section Stop.
Context {A V : Type}.
Variable sem : nat -> A -> list V -> option (A * V).
Variable sem_slf : nat -> A -> list V -> V.
Variable dv : V.
Notation st := (@st A V).
Notation step := (step sem sem_slf dv).
Notation step' := (step' sem sem_slf dv).
Notation run_from := (run_from sem sem_slf dv).
Notation run := (run sem sem_slf dv).

Ltac step_cases H :=
  unfold Actor.step, step_client, step_actor in H;
  repeat match type of H with
  | context [match ?x with _ => _ end] => destruct x eqn:?; try discriminate H
  end;
  try (injection H as <-).

(* ---- slot lemmas: where an SActor entry can come from ---- *)
Lemma sactor_set (l : list (callid * @slot A V)) c x c' a :
  slot_get (slot_set l c x) c' = Some (SActor a) -> (c = c' /\ x = SActor a) \/ slot_get l c' = Some (SActor a).
Proof.
  intros H. destruct (callid_eqb c c') eqn:E.
  - apply callid_eqb_eq in E. subst c'. rewrite slot_get_set_same in H. injection H as ->. left. split; reflexivity.
  - right. rewrite slot_get_set_other in H; [exact H|]. intros ->. rewrite callid_eqb_refl in E. discriminate.
Qed.

Lemma sactor_drop (l : list (callid * @slot A V)) cs c a :
  slot_get (drop_tx l cs) c = Some (SActor a) -> slot_get l c = Some (SActor a).
Proof.
  revert l. unfold drop_tx. induction cs as [|c0 cs IH]; intros l H; cbn in H; [exact H|].
  apply IH in H. destruct (slot_get l c0) as [[]|] eqn:E; try exact H.
  apply sactor_set in H. destruct H as [[_ D]|H]; [discriminate D|exact H].
Qed.

(* ---- hand-over ---- *)
Lemma handover_init (a0 : A) (progs : list (list (@op V) * nat)) : handover_ok sem a0 (Actor.init a0 progs).
Proof. intros c a H. cbn in H. discriminate H. Qed.

Lemma handover_step (a0 : A) m (s : st) ch s' :
  seq_ok sem a0 s -> handover_ok sem a0 s -> step m s ch = Some s' -> handover_ok sem a0 s'.
Proof.
  unfold handover_ok. intros SQ I H. destruct ch as [t|]; cbn [Actor.step] in H.
  - step_cases H; intros cx bx G; cbn -[drop_tx slot_get slot_set] in *;
      repeat first [ apply sactor_drop in G
                   | apply sactor_set in G; destruct G as [[E D]|G]; [try discriminate D|]
                   | match type of G with context [match ?x with _ => _ end] => destruct x end ];
      try exact (I _ _ G).
  - step_cases H; intros cx bx G; cbn -[drop_tx slot_get slot_set] in *;
      repeat first [ apply sactor_drop in G
                   | apply sactor_set in G; destruct G as [[E D]|G]; [try discriminate D|]
                   | match type of G with context [match ?x with _ => _ end] => destruct x end ];
      try (destruct (I _ _ G) as [_ X]; congruence).
    (* the stop-first branch, once per value of [r_drain m] *)
    all: injection D as <-; split; [|reflexivity];
      unfold seq_ok in SQ;
      match goal with Q : actor _ = Some _ |- _ => rewrite Q in SQ end; exact SQ.
Qed.

(* ---- sender count ---- *)
Lemma sum_upd (l : list (@client V)) t c c' : nth_error l t = Some c ->
  list_sum (map c_nh (upd l t c')) + c_nh c = list_sum (map c_nh l) + c_nh c'.
Proof.
  revert t. induction l as [|h l IH]; intros [|t] H; cbn in *; try discriminate H.
  - injection H as ->. lia.
  - specialize (IH _ H). unfold list_sum in *. lia.
Qed.

Lemma senders_init (a0 : A) (progs : list (list (@op V) * nat)) : senders_ok (Actor.init a0 progs).
Proof.
  unfold senders_ok. cbn. induction progs as [|p progs IH]; cbn; [reflexivity|]. rewrite IH. reflexivity.
Qed.

(* a client inside a self-consuming call still holds the handle it is consuming *)
Definition stop_holds (s : st) := forall t cl, nth_error (clients s) t = Some cl ->
  match c_pc cl with StopSend _ _ _ | StopWait _ _ _ => 0 < c_nh cl | _ => True end.

Lemma stop_holds_init (a0 : A) (progs : list (list (@op V) * nat)) : stop_holds (Actor.init a0 progs).
Proof.
  intros t cl H. cbn in H. rewrite nth_error_map in H. destruct (nth_error progs t); [|discriminate H].
  injection H as <-. exact I.
Qed.

Lemma stop_holds_step m (s : st) ch s' : stop_holds s -> step m s ch = Some s' -> stop_holds s'.
Proof.
  unfold stop_holds. intros I H. destruct ch as [t|]; cbn [Actor.step] in H.
  - step_cases H; intros tx clx G; cbn in G; apply upd_nth in G;
      (destruct G as [(<- & -> & _)|(N & G)]; [|exact (I _ _ G)]); cbn; try exact Logic.I.
    + apply Nat.ltb_lt. assumption.
    + match goal with Q : nth_error (clients s) t = Some ?c, P : c_pc ?c = StopSend _ _ _ |- _ =>
        specialize (I _ _ Q); rewrite P in I; exact I end.
  - step_cases H; cbn; exact I.
Qed.

Lemma senders_step_strong m (s : st) ch s' : stop_holds s -> senders_ok s -> step m s ch = Some s' -> senders_ok s'.
Proof.
  unfold senders_ok. intros SH I H. destruct ch as [t|]; cbn [Actor.step] in H.
  - step_cases H; cbn -[Nat.ltb list_sum] in *;
      match goal with Q : nth_error (clients s) t = Some ?c |- _ =>
        pose proof (SH _ _ Q) as SHc;
        match goal with |- context [upd (clients s) t ?c'] => pose proof (sum_upd (clients s) t c c' Q) as P end
      end; cbn -[Nat.ltb list_sum] in P;
      repeat match goal with
      | Q : (0 <? _) = true |- _ => apply Nat.ltb_lt in Q
      | Q : c_pc _ = _ |- _ => rewrite Q in SHc
      end; lia.
  - step_cases H; cbn in *; exact I.
Qed.

(* [senders_ok] alone is NOT preserved by an arbitrary step: a (non-reachable) state in which a client
   that holds no handle sits in StopWait on a slot containing the actor decrements [senders] below the sum.
   This is why [senders_step_strong] carries the extra hypothesis [stop_holds]. *)
Lemma senders_ok_not_inductive (a : A) :
  exists m (s : st) ch s', senders_ok s /\ step m s ch = Some s' /\ ~ senders_ok s'.
Proof.
  exists {| r_cap := None; r_meths := []; r_clonable := false; r_guard := false; r_stop_first := true; r_drain := true |}.
  exists {| actor := None; busy := None; exited := Some Stopped; queue := []; senders := 1;
            slots := [((0, 0), SActor a)];
            clients := [mk_client (StopWait (0, 0) 0 []) [] 0 1 []; mk_client Ready [] 1 0 []];
            issued := []; enq := []; deq := []; lost := []; applied := []; dropped := []; hist := [];
            ctor_runs := 1; spawns := 1; drops := 0; moved := 1 |}.
  exists (Cl 0). eexists. split; [reflexivity|]. split; [reflexivity|].
  unfold senders_ok. cbn. discriminate.
Qed.

Definition senders_inv (s : st) := senders_ok s /\ stop_holds s.

Lemma senders_inv_init (a0 : A) (progs : list (list (@op V) * nat)) : senders_inv (Actor.init a0 progs).
Proof. split; [apply senders_init|apply stop_holds_init]. Qed.

Lemma senders_inv_step m (s : st) ch s' : senders_inv s -> step m s ch = Some s' -> senders_inv s'.
Proof.
  intros [I1 I2] H. split; [eapply senders_step_strong; eassumption|eapply stop_holds_step; eassumption].
Qed.

Theorem senders_reachable m (a0 : A) progs sched : senders_ok (run m a0 progs sched).
Proof.
  unfold Actor.run.
  apply (inv_run sem sem_slf dv senders_inv m (senders_inv_step m) sched (Actor.init a0 progs) (senders_inv_init a0 progs)).
Qed.

(* ---- the guard of a self-consuming method ---- *)
Theorem refused_is_harmless m (s : st) t cl k vs rest :
  nth_error (clients s) t = Some cl -> c_pc cl = Ready -> c_prog cl = Consume k vs :: rest ->
  0 < c_nh cl -> r_guard m = true -> 1 < senders s ->
  exists s', step m s (Cl t) = Some s' /\ actor s' = actor s /\ queue s' = queue s /\ busy s' = busy s /\ exited s' = exited s
             /\ enq s' = enq s /\ applied s' = applied s /\ slots s' = slots s /\ senders s' = pred (senders s)
             /\ new_outcome s s' t (t, c_seq cl) Refused.
Proof.
  intros Hc Hpc Hpr Hn Hg Hs. cbn [Actor.step]. unfold step_client. rewrite Hc, Hpc, Hpr, Hg.
  apply Nat.ltb_lt in Hn. apply Nat.ltb_lt in Hs. rewrite Hn, Hs. cbn [andb].
  eexists. split; [reflexivity|]. cbn. repeat (split; [reflexivity|]).
  exists cl. eexists. split; [exact Hc|]. split; [apply upd_same; eapply nth_error_lt; exact Hc|]. reflexivity.
Qed.

Theorem sole_owner_sends_stop m (s : st) t cl k vs rest :
  nth_error (clients s) t = Some cl -> c_pc cl = Ready -> c_prog cl = Consume k vs :: rest ->
  0 < c_nh cl -> (r_guard m = false \/ senders s <= 1) ->
  exists s', step m s (Cl t) = Some s' /\ exists cl', nth_error (clients s') t = Some cl' /\ c_pc cl' = StopSend (t, c_seq cl) k vs.
Proof.
  intros Hc Hpc Hpr Hn Hg. cbn [Actor.step]. unfold step_client. rewrite Hc, Hpc, Hpr.
  apply Nat.ltb_lt in Hn. rewrite Hn.
  assert (G : r_guard m && (1 <? senders s) = false).
  { destruct Hg as [->|L]; [reflexivity|]. apply Nat.ltb_ge in L. rewrite L. apply andb_false_r. }
  rewrite G. eexists. split; [reflexivity|]. cbn.
  eexists. split; [apply upd_same; eapply nth_error_lt; exact Hc|]. reflexivity.
Qed.

End Stop.
