"""C07: seeded grammar of method signatures (patterns / names / types / kinds), pattern transliteration
(Rust text -> Gen/Flatten.v `pat` terms), the declarative oracle and the known-finding classes."""
import re, itertools
import rs
from coqgen import s as cs

# identifiers the generated code uses internally (method/cont.rs, vars.rs ConstVars) - every one is used as a parameter name
RESERVED = ["actor", "inter_actor", "msg", "sender", "receiver", "inter_send", "inter_recv", "debut", "name", "self_", "play", "direct", "count",
            "inter_msg", "inter_play_stop", "_error", "live"]
WORDS_MSG = ("inter_send", "inter_recv")      # reserved in messaging methods that take parameters (check_send_recv, without `interact`)
WORDS_ALL = ("inter_actor",)                  # reserved in every method that takes parameters (check_inter_actor): the actor's binder
RESERVED_FLAT = ("inter_actor", "inter_send", "inter_recv")   # a FLATTENED pattern must not produce these (check_flat_ident)
PLAIN = ["a", "b", "c", "x", "y", "n", "val", "key", "item", "v", "k", "q", "w", "h", "t"]
ODD = ["a_b", "x_y", "_u", "k9", "b_c", "r#type", "r#match", "r#a", "r#b_c"]
SCALARS = ["u8", "i64", "String", "Vec<u8>", "Option<u8>", "&'static str", "bool", "(u8, i8)"]
SELF_TYPES = ["Self", "&Self", "&mut Self", "Option<Self>", "Vec<Self>", "(Self, u8)", "[Self; 2]", "Box<Self>", "<Self as Tr>::Out",
              "fn(Self) -> Self", "Box<dyn Fn(Self) -> Self + Send>", "Result<Self, String>", "&[Self]", "std::sync::Arc<Self>"]
ASSOC_TYPES = ["[u8; Self::N]", "Self::Out", "Option<Self::Out>"]     # class self-assoc-path (known finding)
RETS = [None, None, "u8", "String", "Option<u8>", "(u8, i8)", "Self", "Vec<Self>", "Option<Self>", "Result<u8, String>"]


class G(object):
    """generator state for one method: fresh binder names"""

    def __init__(self, rng, pool):
        self.rng = rng
        self.pool = list(pool)
        rng.shuffle(self.pool)

    def name(self):
        return self.pool.pop() if self.pool else "z%d" % self.rng.randint(0, 999)

    def ident(self, allow_mods=True):
        r = self.rng.random()
        nm = self.name()
        if not allow_mods or r < 0.6:
            return nm
        return self.rng.choice(["mut ", "ref ", "ref mut "]) + nm

    def elems(self, depth, lo=0, hi=3, slice_=False):
        n = self.rng.randint(lo, hi)
        out = [self.pat(depth + 1, inner=True) for _ in range(n)]
        if self.rng.random() < 0.35:
            rest = ".."
            if slice_ and self.rng.random() < 0.4:
                rest = self.rng.choice(["", "ref ", "mut "]) + self.name() + " @ .."
            out.insert(self.rng.randint(0, len(out)), rest)
        return out

    def pat(self, depth=0, inner=False):
        r = self.rng.random()
        if depth >= 2 or r < (0.45 if inner else 0.0):
            return self.ident()
        if inner and r < 0.52 and depth < 2:
            return "%s @ %s" % (self.name(), self.pat(depth + 1))
        k = self.rng.choice(["tuple", "tuple", "tstruct", "struct", "slice"])
        if k == "tuple":
            es = self.elems(depth)
            if len(es) == 1 and es[0] != "..":
                return "(%s,)" % es[0]
            return "(%s)" % ", ".join(es)
        if k == "tstruct":
            return "%s(%s)" % (self.rng.choice(["T", "m::Tup", "Wrap"]), ", ".join(self.elems(depth)))
        if k == "slice":
            return "[%s]" % ", ".join(self.elems(depth, slice_=True))
        fs = []
        for i in range(self.rng.randint(0, 3)):
            fld = "f%d" % i
            if self.rng.random() < 0.5:
                fs.append(self.rng.choice(["", "", "mut ", "ref "]) + self.name())
            else:
                fs.append("%s: %s" % (fld, self.pat(depth + 1, inner=True)))
        if self.rng.random() < 0.4 or not fs:
            fs.append("..")
        return "%s { %s }" % (self.rng.choice(["P", "m::Rec"]), ", ".join(fs))


UNSUPPORTED = ["_", "(%s, _)", "&%s", "(%s, &%s)", "[%s, _, ..]", "T(_)", "(%s | %s)"]


def gen_param(g, rng, tys, shape=None):
    """-> (pattern text, type text, kind)"""
    r = rng.random()
    if shape is None and r < 0.07:
        # `name @ pattern` at the top of a parameter: one binder for the whole value (the subpattern is not looked at by the macro)
        return "%s @ %s" % (g.name(), g.pat(0)), rng.choice(["(u8, u8)", "P", "T", "[u8; 3]", "m::Rec"]), "ident"
    if shape == "ident" or (shape is None and r < 0.55):
        return g.ident(), rng.choice(tys), "ident"
    if shape == "unsupported":
        t = rng.choice(UNSUPPORTED)
        return t.replace("%s", "{}").format(*[g.name() for _ in range(t.count("%s"))]), "u8", "unsupported"
    return g.pat(0), rng.choice(["(u8, u8)", "P", "T", "[u8; 3]", "m::Rec"]), "composite"


def gen_method(rng, name, lib, kind=None, nparams=None, pool=None, negative=None, self_types=True, generic=None, retty="?"):
    """one public method; kind in ref|mut|stat|slf|slfmut. Returns dict(text, name, kind, params[(pat,ty)], ret, async, generic)"""
    kind = kind or rng.choice(["ref", "ref", "mut", "mut", "stat", "slf", "slfmut"])
    if nparams is None:
        nparams = rng.choice([0, 1, 1, 2, 2, 3, 4, 5])
    if pool is None:
        pool = PLAIN + RESERVED + RESERVED + ODD
        pool = [p for p in pool if p not in WORDS_ALL and (p not in WORDS_MSG or kind in ("stat", "slf", "slfmut"))]
    g = G(rng, dict.fromkeys(pool).keys())
    tys = SCALARS + (SELF_TYPES if self_types else [])
    if generic is None:
        generic = rng.random() < 0.2
    gnames = []
    if generic:
        # one generic parameter, or several declared in non-alphabetical order (type and const parameters mixed)
        gnames = rng.choice([["G"], ["G"], ["Z", "G"], ["G", "B"], ["Z", "N", "G"]])
        tys = tys + ["G", "G", "Vec<G>"] + (["Z"] if "Z" in gnames else []) + (["B"] if "B" in gnames else []) + (["[u8; N]"] if "N" in gnames else [])
    params = []
    for i in range(nparams):
        params.append(gen_param(g, rng, tys, "unsupported" if (negative == "pattern" and i == nparams - 1) else None))
    # `actor: Self | &Self | &mut Self` in first position of a method without receiver IS the documented static-style receiver (the method is a
    # consuming / reference method then, C05 and C10 cover that form); this grammar keeps the parameter an ordinary one
    if kind == "stat" and params and re.sub(r"^(ref\s+)?(mut\s+)?", "", params[0][0]).strip() == "actor" and params[0][1].replace(" ", "") in ("Self", "&Self", "&mutSelf"):
        params[0] = (params[0][0], "u8", params[0][2])
    if negative == "pattern" and not params:
        params.append(gen_param(g, rng, tys, "unsupported"))
    if negative == "inter":
        words = ["inter_actor", "mut inter_actor"] + (["inter_send", "inter_recv", "mut inter_send"] if kind in ("ref", "mut") else [])
        params.insert(rng.randint(0, len(params)), (rng.choice(words), "u8", "ident"))
    if negative == "assoc":
        params.insert(rng.randint(0, len(params)), (g.name(), rng.choice(ASSOC_TYPES), "ident"))
    ret = rng.choice(RETS) if retty == "?" else retty
    if kind in ("slf", "slfmut") and ret is None:
        ret = "Option<u8>"
    is_async = lib != "std" and rng.random() < 0.3
    recv = {"ref": "&self", "mut": "&mut self", "stat": "", "slf": "self", "slfmut": "mut self"}[kind]
    plist = ["%s: %s" % (p, t) for p, t, _ in params]
    gtxt = ("<%s>" % ", ".join(("const N: usize" if x == "N" else "%s: Send + Sync + 'static" % x) for x in gnames)) if generic else ""
    sig_params = ", ".join(([recv] if recv else []) + plist)
    txt = "pub %sfn %s%s(%s)%s { todo!() }" % ("async " if is_async else "", name, gtxt, sig_params, (" -> " + ret) if ret else "")
    return {"name": name, "kind": kind, "params": [(p, t) for p, t, _ in params], "pkinds": [k for _, _, k in params], "ret": ret,
            "async": is_async, "generic": generic, "gnames": gnames, "text": txt, "negative": negative}


# ---------------------------------------------------------------------------------------------
# pattern transliteration: Rust pattern text -> tree -> Coq term of Gen/Flatten.v
# ---------------------------------------------------------------------------------------------

def parse_pat(toks):
    """token tree list of one pattern -> nested tuple tree
    ('id', by_ref, mut, name) ('tuple', [..]) ('tstruct', path, [..]) ('struct', path, fields, [..], rest) ('slice', [..]) ('rest',) ('wild',) ('other', text)"""
    if not toks:
        return ("other", "")
    i, by_ref, mut = 0, False, False
    if rs.is_id(toks[0], "ref"):
        by_ref, i = True, 1
    if i < len(toks) and rs.is_id(toks[i], "mut"):
        mut, i = True, i + 1
    rest = toks[i:]
    if rest and rest[0].k == "id" and rest[0].s != "_" and (len(rest) == 1 or rs.is_p(rest[1], "@")) and not rest[0].s[0].isupper():
        # binding (a subpattern after `@` is not inspected by the macro)
        return ("id", by_ref, mut, rest[0].s)
    if by_ref or mut:
        return ("other", rs.render(toks))
    if len(toks) == 1 and rs.is_p(toks[0], ".."):
        return ("rest",)
    if len(toks) == 1 and toks[0].k == "id" and toks[0].s == "_":
        return ("wild",)
    if len(toks) == 1 and toks[0].k == "g" and toks[0].s == "(":
        parts = rs.split_top(toks[0].sub, angle=False)
        if len(parts) == 1 and not (toks[0].sub and rs.is_p(toks[0].sub[-1], ",")) and not (len(parts[0]) == 1 and rs.is_p(parts[0][0], "..")):
            # parenthesised pattern, not a tuple
            if any(rs.is_p(t, "|") for t in parts[0]):
                return ("other", rs.render(toks))
            return ("other", rs.render(toks))
        return ("tuple", [parse_pat(p) for p in parts])
    if len(toks) == 1 and toks[0].k == "g" and toks[0].s == "[":
        return ("slice", [parse_pat(p) for p in rs.split_top(toks[0].sub, angle=False)])
    if len(toks) >= 2 and toks[-1].k == "g" and all(t.k == "id" or rs.is_p(t, "::") for t in toks[:-1]):
        path = "".join(t.s for t in toks[:-1])
        if toks[-1].s == "(":
            return ("tstruct", path, [parse_pat(p) for p in rs.split_top(toks[-1].sub, angle=False)])
        if toks[-1].s == "{":
            names, pats, has_rest = [], [], False
            for f in rs.split_top(toks[-1].sub, angle=False):
                if len(f) == 1 and rs.is_p(f[0], ".."):
                    has_rest = True
                    continue
                col = [q for q, x in enumerate(f) if rs.is_p(x, ":")]
                if col:
                    names.append(rs.render(f[:col[0]]))
                    pats.append(parse_pat(f[col[0] + 1:]))
                else:
                    p = parse_pat(f)
                    names.append(p[3] if p[0] == "id" else "?")
                    pats.append(p)
            return ("struct", path, names, pats, has_rest)
    return ("other", rs.render(toks))


def pat_of_text(text):
    return parse_pat(rs.parse(text))


def b(x):
    return "true" if x else "false"


def coq_pat(p):
    k = p[0]
    if k == "id":
        return "(PIdent %s %s %s)" % (b(p[1]), b(p[2]), cs(p[3]))
    if k == "tuple":
        return "(PTuple [%s])" % "; ".join(coq_pat(x) for x in p[1])
    if k == "tstruct":
        return "(PTupleStruct %s [%s])" % (cs(p[1]), "; ".join(coq_pat(x) for x in p[2]))
    if k == "struct":
        return "(PStruct %s [%s] [%s] %s)" % (cs(p[1]), "; ".join(cs(x) for x in p[2]), "; ".join(coq_pat(x) for x in p[3]), b(p[4]))
    if k == "slice":
        return "(PSlice [%s])" % "; ".join(coq_pat(x) for x in p[1])
    if k == "rest":
        return "PRest"
    if k == "wild":
        return "PWild"
    return "(POther %s)" % cs(p[1])


def coq_params(params):
    """[(pat text, ty text)] -> Coq list (pat * string)"""
    return "[%s]" % "; ".join("(%s, %s)" % (coq_pat(pat_of_text(p)), cs(t)) for p, t in params)


def parse_coq_names(v):
    """'Some ["a"; "b_c"]' -> ['a','b_c'];  'None' -> None"""
    v = v.strip()
    if v.startswith("None"):
        return None
    return re.findall(r'"((?:[^"]|"")*)"', v)


MODEL_EXPR = "let r := live_args (T:=string) %s in (res_class r, res_names r)"


def parse_coq_result(v):
    """'(0, Some ["a"; "b"])' -> (0, ['a','b']);  '(2, None)' -> (2, None)   class: 0 expanded, 1 unsupported pattern, 2 naming conflict"""
    m = re.match(r"^\(\s*(\d+)\s*,\s*(.*)\)\s*$", v.strip(), re.S)
    return int(m.group(1)), parse_coq_names(m.group(2))


# ---------------------------------------------------------------------------------------------
# declarative side, written from the property text (not from the code and not from the Coq model)
# ---------------------------------------------------------------------------------------------

def leaves(p):
    """binders of a pattern tree, left to right; None if the pattern is outside the documented forms"""
    k = p[0]
    if k == "id":
        return [p[3]]
    if k in ("tuple", "slice"):
        subs = p[1]
    elif k == "tstruct":
        subs = p[2]
    elif k == "struct":
        subs = p[3]
    elif k == "rest":
        return []
    else:
        return None
    out = []
    for x in subs:
        l = leaves(x)
        if l is None:
            return None
        out += l
    return out


def supported_param(p):
    return p[0] != "rest" and leaves(p) is not None


def class_names(params):
    """identifier each parameter is expected to get under the `binders joined by _` convention (classification of inputs only)"""
    out = []
    for ptxt, _ in params:
        p = pat_of_text(ptxt)

        def w(q):
            if q[0] == "id":
                return [q[3]]
            if q[0] == "rest":
                return []
            subs = q[1] if q[0] in ("tuple", "slice") else q[2] if q[0] == "tstruct" else q[3] if q[0] == "struct" else None
            if subs is None:
                return []
            ws = [y for x in subs for y in w(x)]
            return ws or ["__"]
        ws = w(p)
        # name::combined_ident: a single binder is kept as written, two or more are joined without their `r#` (spec_words)
        out.append(ws[0] if len(ws) == 1 else "_".join(x[2:] if x.startswith("r#") else x for x in ws))
    return out


def norm_ty(text):
    return " ".join(rs.flat(rs.parse(text)))


def subst_self(ty_text, actor_ty):
    """every `Self` token replaced by the actor type (token level)"""
    out = []
    a = rs.flat(rs.parse(actor_ty))
    for t in rs.flat(rs.parse(ty_text)):
        out += a if t == "Self" else [t]
    return " ".join(out)


def has_self(ty):
    return "Self" in rs.flat(rs.parse(ty))


def regression_classes(m):
    """classes of inputs on which the crate used to fail (repaired; `fixed:` lines of known_findings.txt) or still fails
    (`finding:` lines).  Only classes LISTED as `finding:` are exempt from judgement - see known_classes."""
    out = set()
    names = class_names(m["params"])
    comp = [pat_of_text(p)[0] != "id" for p, _ in m["params"]]
    if m["kind"] != "stat" and "actor" in names:
        out.add("param-named-actor")
    if len(set(names)) != len(names) or any(c and n in RESERVED_FLAT + ("actor",) for c, n in zip(comp, names)):
        out.add("flat-name-collision")
    tys = [t for _, t in m["params"]] + ([m["ret"]] if m["ret"] else [])
    if any(re.search(r"\bSelf\s*::", t) for t in tys):
        out.add("self-assoc-path")
    if any(re.search(r"\bSelf\s*;", t) for t in tys) or (any(has_self(t) for t in tys) and len(m["text"]) > 75):
        out.add("self-print-adjacent")      # `[Self; n]`, or a signature long enough for rustc's printer to wrap it
    return out


def known_classes(m, listed):
    return regression_classes(m) & set(listed)


def word_reject(m):
    """the reserved-name rules: which diagnostics the parameter texts of a method call for"""
    out = set()
    if not m["params"]:
        return out
    toks = set()
    for p, t in m["params"]:
        toks |= set(rs.flat(rs.parse(p + " : " + t)))
    if m["kind"] in ("ref", "mut") and toks & set(WORDS_MSG):
        out.add("inter")
    if toks & set(WORDS_ALL):
        out.add("inter_actor")
    return out


def py_reject(m):
    """quick prediction (used only to pack the corpus): is the method expected to be rejected"""
    pts = [pat_of_text(p) for p, _ in m["params"]]
    if not all(supported_param(pt) for pt in pts) or word_reject(m):
        return True
    names = class_names(m["params"])
    return len(set(names)) != len(names) or any(pt[0] != "id" and n in RESERVED_FLAT for pt, n in zip(pts, names))


def oracle_method(m, mdl, actor_ty, direct_param):
    """C07's oracle on the REAL recognised expansion (ir.py dict `mdl`) for one user method `m`.
    Returns a list of problems (empty = the property holds for this method as far as it can be decided statically)."""
    probs = []
    lms = [x for x in mdl["methods"] if x.get("name") == m["name"]]
    if len(lms) != 1:
        return ["handle has %d methods named %s" % (len(lms), m["name"])]
    lm = lms[0]
    P = [p for p, _ in lm.get("params", [])]
    T = [t for _, t in lm.get("params", [])]
    n = len(m["params"])
    if len(P) != n:
        return ["handle method %s declares %d parameters, the user method %d" % (m["name"], len(P), n)]
    for i, ((ptxt, ty), lt) in enumerate(zip(m["params"], T)):
        want = subst_self(ty, actor_ty)
        if norm_ty(lt) != want:
            probs.append("parameter %d of %s has type `%s`, expected `%s`" % (i, m["name"], norm_ty(lt), want))
        pt = pat_of_text(ptxt)
        if pt[0] == "id" and P[i] != pt[3]:
            probs.append("parameter %d of %s is named %s, the user's identifier is %s" % (i, m["name"], P[i], pt[3]))
        if not re.match(r"^(r#)?[A-Za-z_][A-Za-z0-9_]*$", P[i]):
            probs.append("parameter %d of %s is not one identifier: `%s`" % (i, m["name"], P[i]))
    if len(set(P)) != len(P):
        probs.append("handle method %s binds an identifier twice: %s" % (m["name"], P))
    if m["ret"] is not None or True:
        want = subst_self(m["ret"], actor_ty) if m["ret"] else ""
        if norm_ty(lm.get("ret", "")) != want and m["kind"] in ("ref", "mut", "stat"):
            probs.append("return type of %s is `%s`, expected `%s`" % (m["name"], norm_ty(lm.get("ret", "")), want))
    body = lm["body_ir"]
    k = body[0]

    def var(x):
        return x[1] if x[0] == "SVar" else None

    if m["kind"] == "stat":
        if k != "BStat":
            return probs + ["static method %s is not a direct delegate (%s)" % (m["name"], k)]
        if body[2] != m["name"] or [var(a) for a in body[3]] != P:
            probs.append("static delegate %s calls %s(%s), expected its own parameters %s in order" % (m["name"], body[2], [var(a) for a in body[3]], P))
        return probs
    def declared_generics():
        if m.get("gnames"):
            return list(m["gnames"])
        mm = re.search(r"fn\s+(?:r#)?\w+\s*<(.*?)>\s*\(", m.get("text", ""), re.S)
        if not mm:
            return []
        out, depth, cur = [], 0, ""
        for ch in mm.group(1) + ",":
            if ch == "," and depth == 0:
                cur = cur.strip()
                if cur and not cur.startswith("'"):
                    out.append(re.sub(r"^const\s+", "", cur).split(":")[0].strip())
                cur = ""
                continue
            depth += ch in "<([" 
            depth -= ch in ">)]"
            cur += ch
        return out

    def turbo_check(tb):
        want = declared_generics()
        got = [x.replace(" ", "") for x in (tb or [])]
        if got != want:
            probs.append("%s: the user method is called with the generic arguments %s, its generic parameters are declared as %s" % (m["name"], got, want))

    if m["kind"] in ("slf", "slfmut"):
        if k != "BSlf":
            return probs + ["self-consuming method %s not recognised (%s)" % (m["name"], k)]
        d = body[1]
        turbo_check(d.get("turbo"))
        call = d["call"]
        binds = d["binds"]
        if call[0] != "UMethod" or not binds:
            return probs + ["self-consuming method %s: unexpected call %s" % (m["name"], call[0])]
        a = binds[0]
        if var(call[1]) != a or a in P or a == "_":
            probs.append("self-consuming method %s: the actor binder `%s` is captured by / captures a parameter (%s), receiver `%s`" % (m["name"], a, P, var(call[1])))
        if any(x != "_" for x in binds[1:]):
            probs.append("self-consuming method %s binds further names %s" % (m["name"], binds[1:]))
        if call[2] != m["name"] or [var(x) for x in call[3]] != P:
            probs.append("self-consuming method %s passes %s, expected %s" % (m["name"], [var(x) for x in call[3]], P))
        return probs
    # messaging method
    if k != "BRef":
        return probs + ["messaging method %s not recognised (%s)" % (m["name"], k)]
    rb = body[1]
    pre_tx = [p[1] for p in rb["pre"] if p[0] == "POneshot"]
    pre_rx = [p[2] for p in rb["pre"] if p[0] == "POneshot"]
    shadow = set(pre_tx + pre_rx + [p[1] for p in rb["pre"] if p[0] == "PGetter"])
    msg = rb["msg"]
    returns = m["ret"] is not None
    if msg[0] == "MVariant":
        fields = msg[3]
        arm = None
        for a in mdl["direct"]["arms"]:
            if a[0] == "ArmStruct" and a[1] == msg[2]:
                arm = a
        if arm is None:
            return probs + ["no arm for variant %s" % msg[2]]
        binds, ab = arm[2], arm[3]
        turbo_check(ab.get("turbo"))
        call = ab["call"]
        lockb = ab["lock"]["binder"] if ab["lock"] else None
        if call[0] == "UMethod":
            r, cargs = var(call[1]), call[3]
            ok_recv = (r == direct_param and r not in binds) if lockb is None else (r == lockb and var(ab["lock"]["on"]) == direct_param and direct_param not in binds)
        elif call[0] == "UStatic":
            r, cargs = (var(call[3][0]) if call[3] else None), call[3][1:]
            ok_recv = r == direct_param and r not in binds and r != lockb
        else:
            return probs + ["arm of %s: unrecognised call" % m["name"]]
        if not ok_recv:
            probs.append("arm of %s: the receiver `%s` does not denote the actor (arm pattern binds %s)" % (m["name"], r, binds))
        if call[2] != m["name"]:
            probs.append("arm of %s invokes %s" % (m["name"], call[2]))
        fmap = {}
        for fn, fv in fields:
            fmap.setdefault(fn, []).append(fv)
        got = []
        for c in cargs:
            x = var(c)
            if x is None or x not in binds or x == lockb or len(fmap.get(x, [])) != 1:
                got.append(None)
                continue
            y = var(fmap[x][0])
            got.append(None if (y is None or y in shadow or P.count(y) != 1) else P.index(y))
        if got != list(range(n)):
            probs.append("%s: user argument positions receive handle parameters %s, expected %s" % (m["name"], got, list(range(n))))
        if returns:
            rp = ab["reply"]
            tx = var(rp[0]) if rp else None
            ok = tx is not None and tx in binds and len(fmap.get(tx, [])) == 1 and var(fmap[tx][0]) in pre_tx
            if not ok:
                probs.append("%s: the result is not sent on the call's own oneshot" % m["name"])
    elif msg[0] == "MClosure":
        cp, ab = msg[3], msg[5]
        turbo_check(ab.get("turbo"))
        call = ab["call"]
        if call[0] != "UMethod":
            return probs + ["closure of %s: unrecognised call" % m["name"]]
        if var(call[1]) != cp:
            probs.append("closure of %s: receiver `%s` is not the closure parameter" % (m["name"], var(call[1])))
        got = []
        for c in call[3]:
            x = var(c)
            got.append(None if (x is None or x == cp or x in shadow or P.count(x) != 1) else P.index(x))
        if got != list(range(n)):
            probs.append("%s: user argument positions receive handle parameters %s (closure parameter `%s`), expected %s" % (m["name"], got, cp, list(range(n))))
        if call[2] != m["name"]:
            probs.append("closure of %s invokes %s" % (m["name"], call[2]))
        if returns:
            rp = ab["reply"]
            tx = var(rp[0]) if rp else None
            if tx is None or tx == cp or tx not in pre_tx:
                probs.append("%s: the result is not sent on the call's own oneshot" % m["name"])
    else:
        probs.append("message of %s not recognised" % m["name"])
    if returns:
        t = rb.get("tail")
        if not t or t[0] != "TWait" or var(t[1]) not in pre_rx:
            probs.append("%s does not return what arrives on its own oneshot" % m["name"])
    return probs


# ---------------------------------------------------------------------------------------------
# exhaustive small scope: every pattern shape of depth <= 2 with <= 3 binders
# ---------------------------------------------------------------------------------------------

def shapes(depth, budget):
    """yield (template with %s holes, number of binders)"""
    yield "%s", 1
    yield "mut %s", 1
    yield "ref %s", 1
    if depth == 0:
        return
    for k in ("tuple", "slice", "tstruct", "struct"):
        for n in range(0, 3):
            for combo in itertools.product(list(shapes(depth - 1, budget)) + [("..", 0)], repeat=n):
                nb = sum(c[1] for c in combo)
                if nb > budget or sum(1 for c in combo if c[0] == "..") > 1:
                    continue
                parts = [c[0] for c in combo]
                if k == "tuple":
                    if n == 1 and parts[0] != "..":
                        yield "(%s,)" % parts[0], nb
                    else:
                        yield "(%s)" % ", ".join(parts), nb
                elif k == "slice":
                    yield "[%s]" % ", ".join(parts), nb
                elif k == "tstruct":
                    yield "T(%s)" % ", ".join(parts), nb
                else:
                    fs = ["f%d: %s" % (i, p) if p != ".." else ".." for i, p in enumerate(parts)]
                    if ".." in fs:
                        fs = [f for f in fs if f != ".."] + [".."]
                    yield "P { %s }" % ", ".join(fs), nb
