(* C20 (faults): wait_ok / empty_ok are invariants; after the actor dies no caller hangs and every outcome is loud or genuine. *)
From Coq Require Import List Arith Bool Lia.
Import ListNotations.
From IT Require Import Runtime.Actor Runtime.Lists Runtime.ActorInv Runtime.InvDefs Runtime.InvSeq Runtime.InvFault Runtime.InvDefs2
  Runtime.Combined.

Section Fault2.
Context {A V : Type}.
Variable sem : nat -> A -> list V -> option (A * V).
Variable sem_slf : nat -> A -> list V -> V.
Variable dv : V.
Notation st := (@st A V).
Notation step := (step sem sem_slf dv).
Notation step' := (step' sem sem_slf dv).
Notation run_from := (run_from sem sem_slf dv).
Notation run := (run sem sem_slf dv).

Ltac step_cases H :=
  unfold Actor.step, step_client, step_actor in H;
  repeat match type of H with
  | context [match ?x with _ => _ end] => destruct x eqn:?; try discriminate H
  end;
  try (injection H as <-).


(* ---- wait_ok ---- *)
Definition cl_ok (m : rmodel) (sl : list (callid * @slot A V)) (cl : @client V) :=
  (forall c k, c_pc cl = Waiting c k -> (exists rm, meth m k = Some rm) /\ slot_get sl c <> None) /\
  (forall c k vs, c_pc cl = StopWait c k vs -> slot_get sl c <> None) /\
  (forall c k vs ab, c_pc cl = Sending c k vs ab -> exists rm, meth m k = Some rm).
Definition wait_ok' (m : rmodel) (cls : list (@client V)) (sl : list (callid * @slot A V)) :=
  forall t cl, nth_error cls t = Some cl -> cl_ok m sl cl.
Definition mono (sl sl' : list (callid * @slot A V)) := forall c, slot_get sl c <> None -> slot_get sl' c <> None.

Lemma wait_ok_eq m (s : st) : wait_ok m s = wait_ok' m (clients s) (slots s).
Proof. reflexivity. Qed.

Lemma mono_refl sl : mono sl sl.
Proof. intros c H. exact H. Qed.
Lemma mono_trans a b c : mono a b -> mono b c -> mono a c.
Proof. intros H1 H2 x H. apply H2, H1, H. Qed.
Lemma mono_set sl c x : mono sl (slot_set sl c x).
Proof.
  intros c' H. destruct (callid_eqb c c') eqn:E.
  - apply callid_eqb_eq in E. subst c'. rewrite slot_get_set_same. discriminate.
  - rewrite slot_get_set_other; [exact H|]. intros ->. rewrite callid_eqb_refl in E. discriminate.
Qed.
Lemma mono_drop sl cs : mono sl (drop_tx sl cs).
Proof.
  revert sl. unfold drop_tx. induction cs as [|c0 cs IH]; intros sl; cbn; [apply mono_refl|].
  eapply mono_trans; [|apply IH]. destruct (slot_get sl c0) as [[]|]; try apply mono_refl. apply mono_set.
Qed.

Lemma cl_ok_mono m sl sl' cl : mono sl sl' -> cl_ok m sl cl -> cl_ok m sl' cl.
Proof.
  intros M (H1 & H2 & H3). repeat split.
  - apply (H1 c k H).
  - apply M. apply (H1 c k H).
  - intros c k vs E. apply M. apply (H2 c k vs E).
  - exact H3.
Qed.

Lemma wait_mono m cls sl sl' : mono sl sl' -> wait_ok' m cls sl -> wait_ok' m cls sl'.
Proof. intros M W t cl H. eapply cl_ok_mono; [exact M|]. eapply W; eauto. Qed.

Lemma wait_upd m cls sl sl' t c' : mono sl sl' -> cl_ok m sl' c' -> wait_ok' m cls sl -> wait_ok' m (upd cls t c') sl'.
Proof.
  intros M C W t0 cl H. apply upd_nth in H. destruct H as [(-> & -> & _)|(_ & H)]; [exact C|].
  eapply cl_ok_mono; [exact M|]. eapply W; eauto.
Qed.

Lemma meth_lt (m : rmodel) k : (k <? length (r_meths m)) = true -> exists rm, meth m k = Some rm.
Proof.
  intros H. apply Nat.ltb_lt in H. unfold meth. destruct (nth_error (r_meths m) k) eqn:E; [eauto|].
  apply nth_error_None in E. lia.
Qed.

Lemma wait_init m (a0 : A) (progs : list (list (@op V) * nat)) : wait_ok m (Actor.init a0 progs).
Proof.
  intros t cl H. cbn in H. apply nth_error_In in H. apply in_map_iff in H. destruct H as (p & <- & _).
  cbn. repeat split; intros; discriminate.
Qed.

Ltac mono_tac := first [apply mono_refl | apply mono_set | apply mono_drop | (eapply mono_trans; [apply mono_set|apply mono_drop]) ].

Lemma wait_step m s ch s' : wait_ok m s -> step m s ch = Some s' -> wait_ok m s'.
Proof.
  intros I H. rewrite wait_ok_eq in *. destruct ch as [t|]; cbn [Actor.step] in H.
  - step_cases H; cbn.
    all: (apply (wait_upd m (clients s) (slots s)); [mono_tac | | exact I]).
    all: unfold cl_ok; cbn; repeat split; intros; try discriminate.
    all: try (match goal with E : _ = _ |- _ => injection E as <- <- end; rewrite slot_get_set_same; discriminate).
    all: try (match goal with E : _ = _ |- _ => injection E as <- <- <- end; rewrite slot_get_set_same; discriminate).
    all: try (match goal with E : Waiting _ _ = Waiting _ _ |- _ => injection E as <- <- end; eexists; eassumption).
    all: try (match goal with E : Sending _ _ _ _ = Sending _ _ _ _ |- _ => injection E as <- <- <- <- end;
              apply andb_true_iff in Heqb; destruct Heqb as [_ Q]; apply meth_lt; exact Q).
  - step_cases H; cbn -[drop_tx]; try exact I.
    all: try (apply (wait_mono m (clients s) (slots s)); [|exact I]; mono_tac).
    destruct (slot_get (slots s) c) as [[]|]; try exact I.
    apply (wait_mono m (clients s) (slots s)); [apply mono_set|exact I].
Qed.

(* ---- empty_ok ---- *)
Lemma empty_init m (a0 : A) (progs : list (list (@op V) * nat)) : empty_ok m (Actor.init a0 progs).
Proof. intros c H. cbn in H. discriminate. Qed.

Lemma slot_set_cases (l : list (callid * @slot A V)) c x c1 y : slot_get (slot_set l c x) c1 = Some y ->
  (c = c1 /\ y = x) \/ (c <> c1 /\ slot_get l c1 = Some y).
Proof.
  intros H. destruct (callid_eqb c c1) eqn:E.
  - apply callid_eqb_eq in E. subst c1. rewrite slot_get_set_same in H. injection H as <-. left. auto.
  - assert (N : c <> c1) by (intros ->; rewrite callid_eqb_refl in E; discriminate).
    rewrite slot_get_set_other in H by exact N. right. auto.
Qed.

Lemma empty_old m (s : st) q' c1 : empty_ok m s -> slot_get (slots s) c1 = Some SEmpty ->
  (forall x, In x (queue s) -> In x q') ->
  exists x, (In x q' \/ busy s = Some x) /\ msg_id x = c1 /\ has_reply m x.
Proof.
  intros I E Q. destruct (I c1 E) as (x & [P|B] & Hid & Hr); exists x; (split; [|split; assumption]).
  - left. apply Q. exact P.
  - right. exact B.
Qed.

Lemma empty_step_cl m s t s' : empty_ok m s -> step m s (Cl t) = Some s' -> empty_ok m s'.
Proof.
  intros I H. cbn [Actor.step] in H. step_cases H; unfold empty_ok; cbn -[drop_tx]; try exact I.
  all: intros c1 E; try (apply slot_set_cases in E; destruct E as [[-> E]|[N E]]; [try discriminate E|]).
  all: try (apply (empty_old m s _ c1 I E); intros x Q; try (apply in_or_app; left); exact Q).
  all: eexists; (split; [left; apply in_or_app; right; left; reflexivity|split; [reflexivity|cbn; eauto]]).
Qed.

Lemma callid_eq_dec (a b : callid) : {a = b} + {a <> b}.
Proof. decide equality; apply Nat.eq_dec. Qed.

Lemma drop_tx_empty (l : list (callid * @slot A V)) cs c : slot_get (drop_tx l cs) c = Some SEmpty ->
  ~ In c cs /\ slot_get l c = Some SEmpty.
Proof.
  intros H. destruct (in_dec callid_eq_dec c cs) as [Y|N].
  - pose proof (drop_tx_in l cs c Y) as Q. rewrite H in Q. destruct Q.
  - split; [exact N|]. rewrite drop_tx_other in H by exact N. exact H.
Qed.

Ltac reduce_E E :=
  repeat first [ apply drop_tx_empty in E; destruct E as [? E]
               | apply slot_set_cases in E; destruct E as [[? E]|[? E]]; [discriminate E|] ].

Lemma empty_step_ac m s s' : r_drain m = true -> empty_ok m s -> step m s Ac = Some s' -> empty_ok m s'.
Proof.
  intros D I H. cbn [Actor.step] in H. unfold step_actor in H. rewrite D in H. cbv iota in H.
  step_cases H; unfold empty_ok, crash; rewrite ?D; cbn -[drop_tx]; try exact I.
  all: intros c1 E.
  all: try match type of E with context [match slot_get ?l ?c with _ => _ end] =>
         change (slot_get (drop_tx l [c]) c1 = Some SEmpty) in E end.
  all: reduce_E E; destruct (I c1 E) as (x & PB & Hid & Hr); subst c1; unfold qids in *.
  all: try match goal with Q : queue _ = _ |- _ => rewrite Q in PB end.
  all: try match goal with Q : busy _ = _ |- _ => rewrite Q in PB end.
  all: destruct PB as [P|B].
  all: try discriminate B.
  all: try (injection B as <-; cbn in * ).
  all: try congruence.
  all: try (exists x; split; [left; exact P | split; [reflexivity|exact Hr]]).
  all: try (exfalso; match goal with N : ~ In _ _ |- _ => apply N end; try right; apply in_map; exact P).
  all: try (exfalso; match goal with N : ~ (_ \/ _) |- _ => apply N; left; reflexivity end).
  all: try (destruct Hr as (rm & Q1 & Q2); congruence).
  - destruct P as [<-|P]; [exists (Msg c m1 fs); split; [right; reflexivity|split; [reflexivity|exact Hr]]
                         | exists x; split; [left; exact P|split; [reflexivity|exact Hr]]].
  - exfalso. destruct P as [<-|P]; [apply H0; reflexivity | apply H; apply in_map; exact P].
  - destruct P as [<-|P]; [exfalso; apply H; reflexivity|]. exists x; split; [left; exact P|split; [reflexivity|exact Hr]].
Qed.

Lemma empty_step m s ch s' : r_drain m = true -> NoDup (busy_id s ++ qids s) -> empty_ok m s -> step m s ch = Some s' -> empty_ok m s'.
Proof.
  intros D _ I H. destruct ch as [t|]; [eapply empty_step_cl | eapply empty_step_ac]; eassumption.
Qed.

(* ---- after the actor died ---- *)
Lemma dead_no_empty m (s : st) c : alive s = false -> life_ok s -> empty_ok m s -> slot_get (slots s) c <> Some SEmpty.
Proof.
  intros D L I E. destruct L as (_ & _ & _ & _ & L5 & _).
  assert (X : exited s <> None). { unfold alive in D. destruct (exited s); [discriminate|discriminate D]. }
  destruct (L5 X) as (_ & Q & B). destruct (I c E) as (x & [P|P] & _).
  - rewrite Q in P. destruct P.
  - rewrite B in P. discriminate.
Qed.

Theorem dead_no_hang m s t cl : alive s = false -> life_ok s -> wait_ok m s -> empty_ok m s ->
  nth_error (clients s) t = Some cl -> in_call (c_pc cl) -> step m s (Cl t) <> None.
Proof.
  intros D L W I Hn C. pose proof (dead_no_empty m s) as NE. specialize (fun c => NE c D L I).
  destruct (W t cl Hn) as (W1 & W2 & W3).
  cbn [Actor.step]. unfold step_client. rewrite Hn.
  destruct (c_pc cl) as [|c k vs ab|c k|c k vs|c k vs|] eqn:P; cbn in C; try contradiction.
  - destruct (W3 c k vs ab eq_refl) as (rm & ->). rewrite D. cbn. destruct (rm_loud_send rm); discriminate.
  - destruct (W1 c k eq_refl) as ((rm & ->) & S). specialize (NE c).
    destruct (slot_get (slots s) c) as [[]|]; try congruence; destruct (rm_loud_wait rm); discriminate.
  - rewrite D. cbn. discriminate.
  - pose proof (W2 c k vs eq_refl) as S. specialize (NE c).
    destruct (slot_get (slots s) c) as [[]|]; try congruence; discriminate.
Qed.

Lemma loud_meth m k rm : loud m = true -> meth m k = Some rm -> rm_loud_send rm = true /\ rm_loud_wait rm = true.
Proof.
  unfold loud, meth. intros H E. apply nth_error_In in E. rewrite forallb_forall in H.
  specialize (H _ E). apply andb_true_iff in H. exact H.
Qed.

Lemma app_snoc_neq {X} (l : list X) x : l <> l ++ [x].
Proof. intros E. apply (f_equal (@length X)) in E. rewrite app_length in E. cbn in E. lia. Qed.

Theorem dead_loud m s t s' c o : alive s = false -> loud m = true -> step m s (Cl t) = Some s' -> new_outcome s s' t c o ->
  o = Panicked \/ o = Refused \/ (exists v, o = Returned v /\ slot_get (slots s) c = Some (SFull v))
  \/ (exists a k vs, o = Consumed (sem_slf k a vs) /\ slot_get (slots s) c = Some (SActor a)).
Proof.
  intros D Ld H (cl & cl' & Hc & Hc' & R). cbn [Actor.step] in H. step_cases H; cbn in Hc'.
  all: injection Hc as <-.
  all: rewrite upd_same in Hc' by (eapply nth_error_lt; eassumption); injection Hc' as <-.
  all: cbn in R.
  all: try (exfalso; exact (app_snoc_neq _ _ R)).
  all: try (rewrite D in *; discriminate).
  all: apply app_inv_head in R; injection R as <- <-.
  all: try (left; reflexivity).
  all: try (right; left; reflexivity).
  all: try (match goal with Q : meth _ _ = Some _ |- _ => destruct (loud_meth _ _ _ Ld Q) as [L1 L2] end; congruence).
  all: try (right; right; left; eexists; split; [reflexivity|eassumption]).
  all: try (right; right; right; do 3 eexists; split; [reflexivity|eassumption]).
Qed.

(* ---- every reachable state ---- *)
Theorem empty_reachable m a0 progs sched : r_drain m = true -> empty_ok m (Actor.run sem sem_slf dv m a0 progs sched).
Proof.
  intros D. unfold Actor.run.
  apply (inv_run sem sem_slf dv (fun s => empty_ok m s /\ Inv sem dv a0 m s) m).
  - intros s ch s' (E & I) H. split; [|exact (Inv_step sem sem_slf dv a0 m s ch s' I H)].
    destruct I as (I1 & _ & I3 & I4 & _).
    exact (empty_step m s ch s' D (nodup_pending s I1 I3 I4) E H).
  - split; [apply empty_init|apply Inv_init].
Qed.

Theorem wait_reachable m a0 progs sched : wait_ok m (Actor.run sem sem_slf dv m a0 progs sched).
Proof.
  unfold Actor.run. apply (inv_run sem sem_slf dv (wait_ok m) m (wait_step m)). apply wait_init.
Qed.

Theorem no_hang_reachable m a0 progs sched : r_drain m = true -> let s := Actor.run sem sem_slf dv m a0 progs sched in
  alive s = false -> forall t cl, nth_error (clients s) t = Some cl -> in_call (c_pc cl) -> step m s (Cl t) <> None.
Proof.
  intros D s Dd t cl Hn C.
  destruct (Inv_reachable sem sem_slf dv m a0 progs sched) as (_ & _ & _ & _ & _ & _ & _ & L). fold s in L.
  exact (dead_no_hang m s t cl Dd L (wait_reachable m a0 progs sched) (empty_reachable m a0 progs sched D) Hn C).
Qed.
End Fault2.
