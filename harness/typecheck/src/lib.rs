// placeholder: the generated programs are compiled separately against this project's dependency artifacts
