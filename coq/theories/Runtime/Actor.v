(* Runtime LTS of one generated actor model: clients driving handles, the mpsc
   queue, per-call oneshot slots and the play loop.  Definitions only (no proofs),
   so the model still runs when a proof breaks.

   Modelled, not verified (the interface to std / tokio / async-channel / oneshot):
   the mpsc channel is a FIFO queue with capacity [r_cap], a blocking send waits
   while it is full, the receiver observes "closed" when every sender is gone and
   the queue is empty, a send fails once the receiver is gone; a oneshot delivers
   at most one value and reports a dropped peer. *)
From Coq Require Import List Arith Bool Lia.
Import ListNotations.

Section Actor.
Context {A V : Type}.
(* the user's type: method k applied to the state and arguments; None = the method panics *)
Variable sem : nat -> A -> list V -> option (A * V).
(* self-consuming methods: take the actor by value *)
Variable sem_slf : nat -> A -> list V -> V.
Variable dv : V.

Definition callid := (nat * nat)%type.
Definition callid_eqb (a b : callid) := Nat.eqb (fst a) (fst b) && Nat.eqb (snd a) (snd b).

(* ---- what the generated code does for one handle method (resolved form) ---- *)
Inductive sendk := SBlocking | STry.
Record rmeth := {
  rm_reply : bool;             (* a oneshot is created, travels in the message and is awaited *)
  rm_send : sendk;
  rm_loud_send : bool;         (* send on a closed channel panics (vs. error ignored) *)
  rm_loud_wait : bool;         (* waiting on a dropped oneshot panics (vs. a default value) *)
  rm_fields : list nat;        (* message field j := supplied argument (nth j) *)
  rm_args : list nat;          (* user-method argument j := message field (nth j) *)
  rm_callee : nat;             (* the user method the arm invokes *)
  rm_reply_own : bool;         (* the arm sends the result on the message's own oneshot *)
  rm_loud_reply : bool }.      (* actor-side reply on a dropped oneshot panics *)

Record rmodel := {
  r_cap : option nat;
  r_meths : list rmeth;
  r_clonable : bool;           (* #[derive(Clone)] present *)
  r_guard : bool;              (* self-consuming methods check inter_get_count() <= 1 *)
  r_stop_first : bool }.       (* play intercepts the stop message before dispatch and returns *)

Definition route (ix : list nat) (vs : list V) : list V := map (fun i => nth i vs dv) ix.

(* ---- state ---- *)
Inductive msg := Msg (c : callid) (m : nat) (fs : list V) | MStop (c : callid).
Definition msg_id (x : msg) := match x with Msg c _ _ => c | MStop c => c end.

Inductive slot := SEmpty | SFull (v : V) | SActor (a : A) | STxDropped | SRxDropped.
Inductive outcome := Returned (v : V) | RetUnit | Panicked | Refused | Consumed (v : V) | Abandoned.
Inductive reason := ChannelClosed | Stopped | PanickedIn (c : callid) | ReplyFailed (c : callid).

Inductive op := Call (m : nat) (vs : list V) | CallAbandon (m : nat) (vs : list V)
              | CloneH | DropH | Consume (m : nat) (vs : list V).
Inductive pc := Ready | Sending (c : callid) (m : nat) (vs : list V) (ab : bool)
              | Waiting (c : callid) (m : nat)
              | StopSend (c : callid) (m : nat) (vs : list V) | StopWait (c : callid) (m : nat) (vs : list V)
              | Dead.
Record client := { c_pc : pc; c_prog : list op; c_nh : nat; c_seq : nat; c_rets : list (callid * outcome) }.

Inductive event := EInv (c : callid) | ERet (c : callid).

Record st := {
  actor : option A; busy : option msg; exited : option reason; queue : list msg;
  senders : nat; slots : list (callid * slot); clients : list client;
  (* ghost history *)
  issued : list (callid * nat * list V);        (* call, method, supplied arguments *)
  enq : list callid;                            (* accepted by the channel, in order *)
  lost : list callid;                           (* discarded by the handle side (try_send on full / ignored error) *)
  applied : list (callid * nat * list V * V);   (* executed: call, user method, arguments, result *)
  dropped : list callid;                        (* accepted but discarded when the actor died *)
  hist : list event;
  ctor_runs : nat; spawns : nat; drops : nat; moved : nat }.

Definition set_clients s cl := {| actor := actor s; busy := busy s; exited := exited s; queue := queue s; senders := senders s;
  slots := slots s; clients := cl; issued := issued s; enq := enq s; lost := lost s; applied := applied s; dropped := dropped s;
  hist := hist s; ctor_runs := ctor_runs s; spawns := spawns s; drops := drops s; moved := moved s |}.

Fixpoint upd {X} (l : list X) (i : nat) (x : X) : list X :=
  match l, i with
  | [], _ => []
  | _ :: t, 0 => x :: t
  | h :: t, S k => h :: upd t k x
  end.

Fixpoint slot_get (l : list (callid * slot)) (c : callid) : option slot :=
  match l with [] => None | (c', x) :: t => if callid_eqb c' c then Some x else slot_get t c end.
Fixpoint slot_set (l : list (callid * slot)) (c : callid) (x : slot) : list (callid * slot) :=
  match l with [] => [(c, x)] | (c', y) :: t => if callid_eqb c' c then (c', x) :: t else (c', y) :: slot_set t c x end.
Definition drop_tx (l : list (callid * slot)) (cs : list callid) :=
  fold_left (fun l c => match slot_get l c with Some SEmpty => slot_set l c STxDropped | _ => l end) cs l.

Definition room (cap : option nat) (q : list msg) := match cap with None => true | Some n => length q <? n end.
Definition alive (s : st) := match exited s with None => true | Some _ => false end.
Definition meth (m : rmodel) (k : nat) := nth_error (r_meths m) k.

Definition mk_client p prog nh sq rets := {| c_pc := p; c_prog := prog; c_nh := nh; c_seq := sq; c_rets := rets |}.

(* a client thread that panics dies and drops every handle it owns *)
Definition die (c : client) (cid : callid) := mk_client Dead [] 0 (c_seq c) (c_rets c ++ [(cid, Panicked)]).

Definition step_client (m : rmodel) (s : st) (t : nat) : option st :=
  match nth_error (clients s) t with
  | None => None
  | Some c =>
    let put c' := upd (clients s) t c' in
    match c_pc c with
    | Dead => None
    | Ready =>
      match c_prog c with
      | [] => None
      | Call k vs :: rest | CallAbandon k vs :: rest =>
        let ab := match c_prog c with CallAbandon _ _ :: _ => true | _ => false end in
        if (0 <? c_nh c) && (k <? length (r_meths m)) then
          let cid := (t, c_seq c) in
          Some {| actor := actor s; busy := busy s; exited := exited s; queue := queue s; senders := senders s; slots := slots s;
                  clients := put (mk_client (Sending cid k vs ab) rest (c_nh c) (S (c_seq c)) (c_rets c));
                  issued := issued s ++ [(cid, k, vs)]; enq := enq s; lost := lost s; applied := applied s; dropped := dropped s;
                  hist := hist s ++ [EInv cid]; ctor_runs := ctor_runs s; spawns := spawns s; drops := drops s; moved := moved s |}
        else Some (set_clients s (put (mk_client Ready rest (c_nh c) (c_seq c) (c_rets c))))
      | CloneH :: rest =>
        if (0 <? c_nh c) && r_clonable m then
          Some {| actor := actor s; busy := busy s; exited := exited s; queue := queue s; senders := S (senders s); slots := slots s;
                  clients := put (mk_client Ready rest (S (c_nh c)) (c_seq c) (c_rets c));
                  issued := issued s; enq := enq s; lost := lost s; applied := applied s; dropped := dropped s;
                  hist := hist s; ctor_runs := ctor_runs s; spawns := spawns s; drops := drops s; moved := moved s |}
        else Some (set_clients s (put (mk_client Ready rest (c_nh c) (c_seq c) (c_rets c))))
      | DropH :: rest =>
        if 0 <? c_nh c then
          Some {| actor := actor s; busy := busy s; exited := exited s; queue := queue s; senders := pred (senders s); slots := slots s;
                  clients := put (mk_client Ready rest (pred (c_nh c)) (c_seq c) (c_rets c));
                  issued := issued s; enq := enq s; lost := lost s; applied := applied s; dropped := dropped s;
                  hist := hist s; ctor_runs := ctor_runs s; spawns := spawns s; drops := drops s; moved := moved s |}
        else Some (set_clients s (put (mk_client Ready rest (c_nh c) (c_seq c) (c_rets c))))
      | Consume k vs :: rest =>
        if 0 <? c_nh c then
          let cid := (t, c_seq c) in
          if r_guard m && (1 <? senders s) then
            (* another clone exists: the None/Err value; `self` is dropped *)
            Some {| actor := actor s; busy := busy s; exited := exited s; queue := queue s; senders := pred (senders s); slots := slots s;
                    clients := put (mk_client Ready rest (pred (c_nh c)) (S (c_seq c)) (c_rets c ++ [(cid, Refused)]));
                    issued := issued s; enq := enq s; lost := lost s; applied := applied s; dropped := dropped s;
                    hist := hist s ++ [EInv cid; ERet cid]; ctor_runs := ctor_runs s; spawns := spawns s; drops := drops s; moved := moved s |}
          else
            Some {| actor := actor s; busy := busy s; exited := exited s; queue := queue s; senders := senders s; slots := slots s;
                    clients := put (mk_client (StopSend cid k vs) rest (c_nh c) (S (c_seq c)) (c_rets c));
                    issued := issued s; enq := enq s; lost := lost s; applied := applied s; dropped := dropped s;
                    hist := hist s ++ [EInv cid]; ctor_runs := ctor_runs s; spawns := spawns s; drops := drops s; moved := moved s |}
        else Some (set_clients s (put (mk_client Ready rest (c_nh c) (c_seq c) (c_rets c))))
      end
    | Sending cid k vs ab =>
      match meth m k with
      | None => None
      | Some rm =>
        let after_accept (acc : bool) :=
          (* the message was handed to the channel (acc) or silently discarded (~acc) *)
          let sl := if rm_reply rm then slot_set (slots s) cid (if acc then (if ab then SRxDropped else SEmpty) else STxDropped) else slots s in
          let c' := if rm_reply rm && negb ab then mk_client (Waiting cid k) (c_prog c) (c_nh c) (c_seq c) (c_rets c)
                    else mk_client Ready (c_prog c) (c_nh c) (c_seq c) (c_rets c ++ [(cid, if ab then Abandoned else RetUnit)]) in
          let h := if rm_reply rm && negb ab then hist s else hist s ++ [ERet cid] in
          {| actor := actor s; busy := busy s; exited := exited s;
             queue := if acc then queue s ++ [Msg cid k (route (rm_fields rm) vs)] else queue s;
             senders := senders s; slots := sl; clients := put c';
             issued := issued s; enq := if acc then enq s ++ [cid] else enq s; lost := if acc then lost s else lost s ++ [cid];
             applied := applied s; dropped := dropped s; hist := h;
             ctor_runs := ctor_runs s; spawns := spawns s; drops := drops s; moved := moved s |} in
        if negb (alive s) then
          if rm_loud_send rm then
            Some {| actor := actor s; busy := busy s; exited := exited s; queue := queue s; senders := senders s - c_nh c; slots := slots s;
                    clients := put (die c cid); issued := issued s; enq := enq s; lost := lost s ++ [cid]; applied := applied s; dropped := dropped s;
                    hist := hist s ++ [ERet cid]; ctor_runs := ctor_runs s; spawns := spawns s; drops := drops s; moved := moved s |}
          else Some (after_accept false)
        else if room (r_cap m) (queue s) then Some (after_accept true)
        else match rm_send rm with SBlocking => None | STry => Some (after_accept false) end
      end
    | Waiting cid k =>
      match meth m k, slot_get (slots s) cid with
      | Some rm, Some (SFull v) =>
        Some {| actor := actor s; busy := busy s; exited := exited s; queue := queue s; senders := senders s; slots := slots s;
                clients := put (mk_client Ready (c_prog c) (c_nh c) (c_seq c) (c_rets c ++ [(cid, Returned v)]));
                issued := issued s; enq := enq s; lost := lost s; applied := applied s; dropped := dropped s;
                hist := hist s ++ [ERet cid]; ctor_runs := ctor_runs s; spawns := spawns s; drops := drops s; moved := moved s |}
      | Some rm, Some STxDropped =>
        if rm_loud_wait rm then
          Some {| actor := actor s; busy := busy s; exited := exited s; queue := queue s; senders := senders s - c_nh c; slots := slots s;
                  clients := put (die c cid); issued := issued s; enq := enq s; lost := lost s; applied := applied s; dropped := dropped s;
                  hist := hist s ++ [ERet cid]; ctor_runs := ctor_runs s; spawns := spawns s; drops := drops s; moved := moved s |}
        else
          Some {| actor := actor s; busy := busy s; exited := exited s; queue := queue s; senders := senders s; slots := slots s;
                  clients := put (mk_client Ready (c_prog c) (c_nh c) (c_seq c) (c_rets c ++ [(cid, Returned dv)]));
                  issued := issued s; enq := enq s; lost := lost s; applied := applied s; dropped := dropped s;
                  hist := hist s ++ [ERet cid]; ctor_runs := ctor_runs s; spawns := spawns s; drops := drops s; moved := moved s |}
      | _, _ => None
      end
    | StopSend cid k vs =>
      if negb (alive s) then
        Some {| actor := actor s; busy := busy s; exited := exited s; queue := queue s; senders := senders s - c_nh c; slots := slots s;
                clients := put (die c cid); issued := issued s; enq := enq s; lost := lost s ++ [cid]; applied := applied s; dropped := dropped s;
                hist := hist s ++ [ERet cid]; ctor_runs := ctor_runs s; spawns := spawns s; drops := drops s; moved := moved s |}
      else if room (r_cap m) (queue s) then
        Some {| actor := actor s; busy := busy s; exited := exited s; queue := queue s ++ [MStop cid]; senders := senders s;
                slots := slot_set (slots s) cid SEmpty; clients := put (mk_client (StopWait cid k vs) (c_prog c) (c_nh c) (c_seq c) (c_rets c));
                issued := issued s; enq := enq s ++ [cid]; lost := lost s; applied := applied s; dropped := dropped s;
                hist := hist s; ctor_runs := ctor_runs s; spawns := spawns s; drops := drops s; moved := moved s |}
      else None
    | StopWait cid k vs =>
      match slot_get (slots s) cid with
      | Some (SActor a) =>
        Some {| actor := actor s; busy := busy s; exited := exited s; queue := queue s; senders := pred (senders s); slots := slots s;
                clients := put (mk_client Ready (c_prog c) (pred (c_nh c)) (c_seq c) (c_rets c ++ [(cid, Consumed (sem_slf k a vs))]));
                issued := issued s; enq := enq s; lost := lost s; applied := applied s; dropped := dropped s;
                hist := hist s ++ [ERet cid]; ctor_runs := ctor_runs s; spawns := spawns s; drops := drops s; moved := moved s |}
      | Some STxDropped =>
        Some {| actor := actor s; busy := busy s; exited := exited s; queue := queue s; senders := senders s - c_nh c; slots := slots s;
                clients := put (die c cid); issued := issued s; enq := enq s; lost := lost s; applied := applied s; dropped := dropped s;
                hist := hist s ++ [ERet cid]; ctor_runs := ctor_runs s; spawns := spawns s; drops := drops s; moved := moved s |}
      | _ => None
      end
    end
  end.

(* the actor dies: the receiver and every queued message (with the oneshot senders inside) are dropped *)
Definition crash (s : st) (why : reason) (extra : list callid) : st :=
  let gone := extra ++ map msg_id (queue s) in
  {| actor := None; busy := None; exited := Some why; queue := []; senders := senders s;
     slots := drop_tx (slots s) gone; clients := clients s;
     issued := issued s; enq := enq s; lost := lost s; applied := applied s; dropped := dropped s ++ gone;
     hist := hist s; ctor_runs := ctor_runs s; spawns := spawns s; drops := S (drops s); moved := moved s |}.

Definition step_actor (m : rmodel) (s : st) : option st :=
  match exited s with
  | Some _ => None
  | None =>
    match busy s with
    | None =>
      match queue s with
      | [] =>
        if senders s =? 0 then
          Some {| actor := None; busy := None; exited := Some ChannelClosed; queue := []; senders := senders s; slots := slots s; clients := clients s;
                  issued := issued s; enq := enq s; lost := lost s; applied := applied s; dropped := dropped s;
                  hist := hist s; ctor_runs := ctor_runs s; spawns := spawns s; drops := S (drops s); moved := moved s |}
        else None
      | MStop cid :: q =>
        match actor s with
        | Some a =>
          if r_stop_first m then
            (* reply (actor, receiver) and return: the actor value moves to the caller *)
            Some {| actor := None; busy := None; exited := Some Stopped; queue := q; senders := senders s;
                    slots := slot_set (slots s) cid (SActor a); clients := clients s;
                    issued := issued s; enq := enq s; lost := lost s; applied := applied s; dropped := dropped s ++ map msg_id q;
                    hist := hist s; ctor_runs := ctor_runs s; spawns := spawns s; drops := drops s; moved := S (moved s) |}
          else
            (* dispatched like any message: the `=> ()` arm ignores it and its oneshot sender is dropped *)
            Some {| actor := actor s; busy := None; exited := None; queue := q; senders := senders s;
                    slots := slot_set (slots s) cid STxDropped; clients := clients s;
                    issued := issued s; enq := enq s; lost := lost s; applied := applied s; dropped := dropped s ++ [cid];
                    hist := hist s; ctor_runs := ctor_runs s; spawns := spawns s; drops := drops s; moved := moved s |}
        | None => None
        end
      | x :: q =>
        Some {| actor := actor s; busy := Some x; exited := None; queue := q; senders := senders s; slots := slots s; clients := clients s;
                issued := issued s; enq := enq s; lost := lost s; applied := applied s; dropped := dropped s;
                hist := hist s; ctor_runs := ctor_runs s; spawns := spawns s; drops := drops s; moved := moved s |}
      end
    | Some (MStop _) => None
    | Some (Msg cid k fs) =>
      match meth m k, actor s with
      | Some rm, Some a =>
        let args := route (rm_args rm) fs in
        match sem (rm_callee rm) a args with
        | None => Some (crash s (PanickedIn cid) [cid])
        | Some (a', r) =>
          let s1 := {| actor := Some a'; busy := None; exited := None; queue := queue s; senders := senders s;
                       slots := if rm_reply rm && rm_reply_own rm then slot_set (slots s) cid (SFull r) else
                                if rm_reply rm then slot_set (slots s) cid STxDropped else slots s;
                       clients := clients s; issued := issued s; enq := enq s; lost := lost s;
                       applied := applied s ++ [(cid, rm_callee rm, args, r)]; dropped := dropped s;
                       hist := hist s; ctor_runs := ctor_runs s; spawns := spawns s; drops := drops s; moved := moved s |} in
          if rm_reply rm && rm_reply_own rm then
            match slot_get (slots s) cid with
            | Some SRxDropped =>
              (* the caller abandoned the pending call: the reply fails *)
              if rm_loud_reply rm then
                Some (crash {| actor := Some a'; busy := None; exited := None; queue := queue s; senders := senders s; slots := slots s;
                               clients := clients s; issued := issued s; enq := enq s; lost := lost s;
                               applied := applied s ++ [(cid, rm_callee rm, args, r)]; dropped := dropped s;
                               hist := hist s; ctor_runs := ctor_runs s; spawns := spawns s; drops := drops s; moved := moved s |}
                            (ReplyFailed cid) [])
              else Some {| actor := Some a'; busy := None; exited := None; queue := queue s; senders := senders s; slots := slots s;
                           clients := clients s; issued := issued s; enq := enq s; lost := lost s;
                           applied := applied s ++ [(cid, rm_callee rm, args, r)]; dropped := dropped s;
                           hist := hist s; ctor_runs := ctor_runs s; spawns := spawns s; drops := drops s; moved := moved s |}
            | _ => Some s1
            end
          else Some s1
        end
      | _, _ => None
      end
    end
  end.

Inductive choice := Cl (t : nat) | Ac.
Definition step (m : rmodel) (s : st) (ch : choice) : option st :=
  match ch with Cl t => step_client m s t | Ac => step_actor m s end.
(* a disabled choice is a no-op, so every list of choices is a schedule *)
Definition step' (m : rmodel) (s : st) (ch : choice) : st := match step m s ch with Some s' => s' | None => s end.
Definition run_from (m : rmodel) (s : st) (sched : list choice) : st := fold_left (step' m) sched s.

(* state right after `Live::new(..)` succeeded: one constructor run, one channel, one spawn;
   client 0 owns the handle, the other clients own none (they receive clones by CloneH/handles given at start) *)
Definition init (a0 : A) (progs : list (list op * nat)) : st :=
  {| actor := Some a0; busy := None; exited := None; queue := []; senders := fold_right (fun p n => snd p + n) 0 progs;
     slots := []; clients := map (fun p => mk_client Ready (fst p) (snd p) 0 []) progs;
     issued := []; enq := []; lost := []; applied := []; dropped := []; hist := [];
     ctor_runs := 1; spawns := 1; drops := 0; moved := 0 |}.
Definition run (m : rmodel) (a0 : A) (progs : list (list op * nat)) (sched : list choice) : st := run_from m (init a0 progs) sched.

End Actor.
