(* Gen/EditC15.v -- corollaries that combine the parser theorems (EditParseThm) with the split theorems (EditSplitThm),
   the family and member statements (F7 repaired) with the former finding witnesses as accepted Examples. *)
From Coq Require Import List String Bool Permutation Arith.
Import ListNotations.
From IT Require Import Gen.Edit Gen.EditSplitThm Gen.EditParseThm.
Open Scope string_scope.

Lemma forget_some : forall A (r : res A) a, forget r = Some a -> r = Ok a.
Proof. intros A [x|d] a H; simpl in H; inversion H; reflexivity. Qed.

(* a legal specification goes through the real pipeline exactly as its declarative meaning does *)
Theorem pipeline_legal : forall (A : Type) (e : edit_ast) (s l : part A),
  nonempty e = true -> legal e = true ->
  (e' <- edit_parse (render e) ;; actor_code_edit e' s l) = actor_code_edit (denote e) s l.
Proof.
  intros A e s l Hn Hl. assert (H := parse_grammar e). rewrite Hn, Hl in H.
  apply forget_some in H. rewrite H. reflexivity.
Qed.

(* whatever was accepted by the parser is then accepted by the splitter iff its names exist: no false rejection *)
Theorem accepted_names_known : forall (A : Type) (m : meta) (e : edit_actor) (p : part A) (sol : bool),
  edit_parse m = Ok e ->
  let '(_, i, r) := get_t sol e in
  (forall n, In n (listed i) -> In n (names A (p_mets p))) -> (forall n, In n (listed r) -> In n (names A (p_trts p))) ->
  exists x, split_edit (get_t sol e) p = Ok x.
Proof.
  intros A m e p sol H. destruct (parse_names_nodup m e H) as [Hs Hl].
  assert (K : names_ok (get_t sol e)) by (destruct sol; assumption).
  destruct (get_t sol e) as [[d i] r] eqn:E. intros Hi Hr.
  unfold names_ok in K. destruct K as [K1 K2].
  exact (split_edit_known_accepted A (d, i, r) p K1 K2 Hi Hr).
Qed.

(* family level (F7 repaired): a list of any length is parsed per the documented grammar edit(def, imp(..), trt(..)) *)
Theorem family_parse_full : forall e : fam_ast,
  forget (edit_parse_family (render_fam e)) = if nonempty_fam e && legal_fam e then Some (denote_fam e) else None.
Proof. exact parse_family_grammar. Qed.

(* former witness of the family-edit-multi finding, now accepted with its declarative meaning *)
Example family_edit_multi_accepted :
  let e := FList [SSect SDef; SSect (SImp None)] in
  nonempty_fam e = true /\ legal_fam e = true /\ edit_parse_family (render_fam e) = Ok (denote_fam e)
  /\ ea_live (denote_fam e) = ((true, false), (Some [], false), (None, false)).
Proof. repeat split. Qed.

Example family_example :
  let e := FList [SFileS [SDef; SImp (Some [NName "new"])]; SSect (STrt None)] in
  nonempty_fam e = true /\ legal_fam e = true /\ edit_parse_family (render_fam e) = Ok (denote_fam e).
Proof. repeat split. Qed.

(* two legal sections are accepted whatever they are, in either order and with any file wrapping: no length test is left *)
Theorem family_edit_any_length : forall l : list sitem, ne l = true -> forallb nonempty_sitem l = true ->
  legal_sects (flatS false l) = true ->
  edit_parse_family (render_fam (FList l)) = Ok (denote_fam (FList l)).
Proof.
  intros l H1 H2 H3. apply forget_some.
  assert (K := parse_family_grammar (FList l)). simpl nonempty_fam in K. simpl legal_fam in K.
  rewrite H1, H2, H3 in K. exact K.
Qed.

(* family members (F7 repaired): a member's edit(..) is parsed with the actor grammar *)
Theorem member_parse_grammar : forall e : edit_ast,
  forget (edit_parse_member (render e)) = if nonempty e && legal e then Some (denote e) else None.
Proof. exact parse_grammar. Qed.

(* a bare member `edit` means edit(script, live); `edit(file)` additionally writes everything and removes the macro *)
Theorem member_bare_edit :
  edit_parse_member (render EBare) = Ok (denote (EList [EPart (PSol true None); EPart (PSol false None)]))
  /\ edit_parse_member (render EBare) = edit_parse_member (render (EList [EPart (PSol true None); EPart (PSol false None)]))
  /\ edit_parse_member (render EFileBare) = Ok {| ea_remove := true; ea_script := all_tuples true; ea_live := all_tuples true |}.
Proof. repeat split. Qed.

(* former witnesses of the member-edit finding *)
Example member_edit_accepted :
  let e := EList [EPart (PSol true (Some [SSect (SImp (Some [NName "play"]))]))] in
  nonempty e = true /\ legal e = true /\ edit_parse_member (render e) = Ok (denote e)
  /\ ea_script (denote e) = ((false, false), (Some [("play", false)], false), (None, false)).
Proof. repeat split. Qed.

(* hypotheses of the split theorems are satisfiable on a non-trivial struct *)
Example split_example :
  let p := mk_part true ["new"; "inc"; "get"] ["PartialEq"; "Eq"] in
  let t : tuples := ((true, false), (Some [("get", true); ("new", false)], false), (Some [], true)) in
  part_nodup unit p /\
  split_edit t p = Ok (mk_part false ["inc"] [], mk_part true ["get"; "new"] ["PartialEq"; "Eq"], mk_part false ["get"] ["PartialEq"; "Eq"]).
Proof.
  split.
  - split; simpl; repeat constructor; simpl; intuition discriminate.
  - reflexivity.
Qed.

Example grammar_example :
  let e := EList [EPart (PSol true (Some [SSect SDef; SFileS [SImp None]])); EFile [PSol false (Some [SSect (SImp (Some [NName "a"; NName "b"]))])]] in
  nonempty e = true /\ legal e = true /\ edit_parse (render e) = Ok (denote e).
Proof. repeat split. Qed.

(* the forms that used to be accepted silently (C19 / F10 territory) are rejected now; hypotheses of the rule theorems are satisfiable *)
Example empty_and_nonbare_rejected :
  is_diag (edit_parse (MList "edit" [])) = true
  /\ is_diag (edit_parse (MList "edit" [MList "script" []])) = true
  /\ is_diag (edit_parse (MList "edit" [MList "live" [MList "imp" []]])) = true
  /\ is_diag (edit_parse (MList "edit" [MList "live" [MList "def" [MPath "x"]]])) = true
  /\ is_diag (edit_parse (MList "edit" [MList "live" [MNV "def"]])) = true
  /\ is_diag (edit_parse (MList "edit" [MList "live" [MList "imp" [MList "foo" [MPath "bar"]]]])) = true
  /\ is_diag (edit_parse (MList "edit" [MList "live" [MList "imp" [MNV "inc"]]])) = true
  /\ is_diag (edit_parse (MList "edit" [MList "live" [MList "imp" [MList "file" [MList "file" [MPath "a"]]]]])) = true
  /\ is_diag (edit_parse_family (MList "edit" [MPath "def"; MList "imp" []])) = true
  /\ edit_parse (MList "edit" [MList "live" [MPath "def"; MList "imp" [MPath "inc"]]])
     = Ok {| ea_remove := false; ea_script := empty_t; ea_live := ((true, false), (Some [("inc", false)], false), (None, false)) |}.
Proof. repeat split. Qed.
