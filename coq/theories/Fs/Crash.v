(* Fs/Crash.v -- filesystem crash / fault model for "rewrite the user's source file" (C17).
   Definitions only (no proofs): they still run when a proof breaks.

   World model (definitions, see DESIGN.md section 6): a disk maps paths to contents; open(O_TRUNC) empties a
   file in one step; write(2) appends and may stop after ANY number of bytes (process killed, EFBIG, ENOSPC,
   EIO); rename(2) replaces the destination in one step; every operation may also fail without effect.
   A writer is a small PROGRAM (tree): each operation has a success continuation and an error continuation,
   so the error paths of the real code (`?`, `if result.is_err() { remove_file }`) are part of the model. *)
From Coq Require Import List String Ascii NArith Bool Arith.
Import ListNotations.

Definition path := string.
Definition byte := N.
Definition content := list byte.
Definition disk := path -> option content.

Definition upd (d : disk) (p : path) (v : option content) : disk :=
  fun q => if String.eqb q p then v else d q.

Inductive fs_op :=
| OpenTrunc (p : path)                 (* open(write, truncate): needs an existing file, empties it *)
| OpenCreateTrunc (p : path)           (* open(write, truncate, create) *)
| Write (p : path) (bytes : content)   (* write through the descriptor opened before: appends *)
| Fsync (p : path)
| Stat (p : path)
| SetPerm (p : path)
| Rename (src dst : path)
| Remove (p : path)
| Copy (src dst : path).               (* std::fs::copy: open-trunc(create) dst, then write src's bytes *)

Definition exists_at (d : disk) (p : path) : bool := match d p with Some _ => true | None => false end.

(* can the operation succeed at all on this disk (ENOENT otherwise) *)
Definition enabled (o : fs_op) (d : disk) : bool :=
  match o with
  | OpenTrunc p | Write p _ | Fsync p | Stat p | SetPerm p | Remove p => exists_at d p
  | OpenCreateTrunc _ => true
  | Rename s _ | Copy s _ => exists_at d s
  end.

Definition append_at (d : disk) (p : path) (bs : content) : disk :=
  match d p with Some c => upd d p (Some (c ++ bs)) | None => d end.

(* the whole effect of a successful operation *)
Definition full_effect (o : fs_op) (d : disk) : disk :=
  match o with
  | OpenTrunc p => match d p with Some _ => upd d p (Some []) | None => d end
  | OpenCreateTrunc p => upd d p (Some [])
  | Write p bs => append_at d p bs
  | Fsync _ | Stat _ | SetPerm _ => d
  | Rename s t => match d s with
                  | Some c => if String.eqb s t then d else upd (upd d t (Some c)) s None
                  | None => d end
  | Remove p => upd d p None
  | Copy s t => match d s with Some c => upd d t (Some c) | None => d end
  end.

(* what is on disk when the operation is cut short after k "units": for Write the first k bytes;
   for Copy 0 = nothing, k+1 = destination truncated and k bytes copied; every other operation is
   one indivisible step (not yet happened) *)
Definition partial_effect (o : fs_op) (k : nat) (d : disk) : disk :=
  match o with
  | Write p bs => append_at d p (firstn k bs)
  | Copy s t => match k with
                | O => d
                | S k' => match d s with Some c => upd d t (Some (firstn k' c)) | None => d end
                end
  | _ => d
  end.

(* what the environment does to one operation *)
Inductive fault :=
| FOk                  (* succeeds (if it can succeed at all, otherwise fails without effect) *)
| FErr (k : nat)       (* fails with an error return after partial effect k *)
| FCrash (k : nat)     (* the process dies after partial effect k (k = 0: before the operation) *)
| FOkCrash.            (* the process dies right after the operation took effect *)

(* ------------------------------------------------------------------------------------------ *)
(* writer programs over symbolic paths                                                         *)
(* ------------------------------------------------------------------------------------------ *)
Inductive which := Target | Tmp.

Inductive wop :=
| SOpenTrunc (w : which) | SOpenCreateTrunc (w : which) | SWrite (w : which) | SFsync (w : which)
| SStat (w : which) | SSetPerm (w : which) | SRename (a b : which) | SRemove (w : which) | SCopy (a b : which).

Inductive wprog :=
| WDone                                   (* return Ok(()) *)
| WFail                                   (* return Err(e) *)
| WUnknown                                (* code the translator does not recognise *)
| WOp (o : wop) (ok err : wprog).         (* perform o; continue with ok on success, err on failure *)

Record env := mkenv { e_target : path; e_tmp : path; e_new : content }.

Definition pth (e : env) (w : which) : path := match w with Target => e_target e | Tmp => e_tmp e end.

Definition inst_op (e : env) (o : wop) : fs_op :=
  match o with
  | SOpenTrunc w => OpenTrunc (pth e w)
  | SOpenCreateTrunc w => OpenCreateTrunc (pth e w)
  | SWrite w => Write (pth e w) (e_new e)
  | SFsync w => Fsync (pth e w)
  | SStat w => Stat (pth e w)
  | SSetPerm w => SetPerm (pth e w)
  | SRename a b => Rename (pth e a) (pth e b)
  | SRemove w => Remove (pth e w)
  | SCopy a b => Copy (pth e a) (pth e b)
  end.

Inductive status := Crashed | RetOk | RetErr | Stuck.

Record result := mkres { r_disk : disk; r_status : status; r_trace : list (fs_op * fault) }.

Definition cons_tr (x : fs_op * fault) (r : result) : result :=
  mkres (r_disk r) (r_status r) (x :: r_trace r).

(* execution against an arbitrary environment: a state-passing oracle that decides the fate of every operation *)
Section Exec.
  Variable St : Type.
  Variable orc : St -> fs_op -> fault * St.

  Fixpoint exec (e : env) (w : wprog) (s : St) (d : disk) : result :=
    match w with
    | WDone => mkres d RetOk []
    | WFail => mkres d RetErr []
    | WUnknown => mkres d Stuck []
    | WOp o ok err =>
        let op := inst_op e o in
        let f := fst (orc s op) in
        let s' := snd (orc s op) in
        match f with
        | FOk => if enabled op d then cons_tr (op, f) (exec e ok s' (full_effect op d))
                 else cons_tr (op, f) (exec e err s' d)
        | FErr k => cons_tr (op, f) (exec e err s' (partial_effect op k d))
        | FCrash k => mkres (partial_effect op k d) Crashed [(op, f)]
        | FOkCrash => mkres (if enabled op d then full_effect op d else d) Crashed [(op, f)]
        end
    end.
End Exec.

(* fault SEQUENCES: one entry per executed operation; when the list is exhausted the process is killed
   right there (so the length of the list is the crash point, and every byte offset of every Write is
   reachable with FCrash k / FErr k) *)
Definition list_orc (fs : list fault) (_ : fs_op) : fault * list fault :=
  match fs with [] => (FCrash 0, []) | f :: r => (f, r) end.

Definition run (e : env) (w : wprog) (fs : list fault) (d : disk) : result :=
  exec (list fault) list_orc e w fs d.

(* ------------------------------------------------------------------------------------------ *)
(* flat operation lists with a crash prefix (DESIGN.md 4.5)                                     *)
(* ------------------------------------------------------------------------------------------ *)
Fixpoint apply_prefix (ops : list fs_op) (cut : nat * nat) (d : disk) : disk :=
  match ops with
  | [] => d
  | o :: r => match fst cut with
              | O => partial_effect o (snd cut) d
              | S i => apply_prefix r (i, snd cut) (full_effect o d)
              end
  end.

(* operations along the all-success path of a writer *)
Fixpoint spine (e : env) (w : wprog) : list fs_op :=
  match w with WOp o ok _ => inst_op e o :: spine e ok | _ => [] end.

(* ------------------------------------------------------------------------------------------ *)
(* the writers                                                                                  *)
(* ------------------------------------------------------------------------------------------ *)
(* error continuation of the closure in src/write.rs::write:  if result.is_err() { let _ = remove_file(tmp) }; result *)
Definition cleanup : wprog := WOp (SRemove Tmp) WFail WFail.

(* what src/write.rs::write is NOW (fix 2e11fe5):
     open(write,truncate,create) tmp ?; write!(tmp, new) ?; sync_all ?;
     if let Ok(meta) = metadata(target) { let _ = set_permissions(tmp, ..) }; rename(tmp, target) *)
Definition writer_tmp_rename : wprog :=
  WOp (SOpenCreateTrunc Tmp)
    (WOp (SWrite Tmp)
       (WOp (SFsync Tmp)
          (WOp (SStat Target)
             (WOp (SSetPerm Tmp) (WOp (SRename Tmp Target) WDone cleanup) (WOp (SRename Tmp Target) WDone cleanup))
             (WOp (SRename Tmp Target) WDone cleanup))
          cleanup)
       cleanup)
    cleanup.

(* the pre-fix writer: open(write,truncate,create) target ?; write!(target, new) ?; Ok(()) *)
Definition writer_direct : wprog :=
  WOp (SOpenCreateTrunc Target) (WOp (SWrite Target) WDone WFail) WFail.

(* temp file + rename, but a failed rename falls back to copying over the target *)
Definition rename_or (fallback : wprog) : wprog :=
  WOp (SOpenCreateTrunc Tmp)
    (WOp (SWrite Tmp) (WOp (SFsync Tmp) (WOp (SRename Tmp Target) WDone fallback) cleanup) cleanup)
    cleanup.
Definition writer_fallback_copy : wprog := rename_or (WOp (SCopy Tmp Target) cleanup cleanup).

(* tmp name: the target's file name with a non-empty suffix appended, in the same directory *)
Definition tmp_of (p sfx : path) : path := (p ++ sfx)%string.
Definition real_suffix (pid : string) : string := (".inter_tmp_" ++ pid)%string.

(* ------------------------------------------------------------------------------------------ *)
(* decidable premises (abstract interpretation of the writer tree)                              *)
(* ------------------------------------------------------------------------------------------ *)
Inductive tst := TUnk | TEmpty | TFull.      (* what is known about the temp file: nothing / exists and is empty / holds exactly the new content *)
Inductive pst := POld | PNew.                (* the target holds the old / the new content *)

Definition is_full (t : tst) : bool := match t with TFull => true | _ => false end.

(* abstract states on the success and on the error continuation; None = operation not allowed *)
Definition xfer (ts : tst) (ps : pst) (o : wop) : option ((tst * pst) * (tst * pst)) :=
  match o with
  | SOpenTrunc Tmp | SOpenCreateTrunc Tmp => Some ((TEmpty, ps), (TUnk, ps))
  | SWrite Tmp => Some ((match ts with TEmpty => TFull | _ => TUnk end, ps), (TUnk, ps))
  | SFsync _ | SStat _ | SSetPerm _ => Some ((ts, ps), (ts, ps))
  | SRename Tmp Target => if is_full ts then Some ((TUnk, PNew), (ts, ps)) else None
  | SRemove Tmp => Some ((TUnk, ps), (ts, ps))
  | SCopy Target Tmp => Some ((TUnk, ps), (TUnk, ps))
  | _ => None       (* anything that opens, writes, removes, renames away or copies over the target *)
  end.

Definition pst_eqb (a b : pst) : bool := match a, b with POld, POld | PNew, PNew => true | _, _ => false end.

(* strict = false: premise of atomicity.  strict = true: additionally Ok is only returned with the new
   content in place and Err only with the old content in place *)
Fixpoint wf_gen (strict : bool) (ts : tst) (ps : pst) (w : wprog) : bool :=
  match w with
  | WDone => if strict then pst_eqb ps PNew else true
  | WFail => if strict then pst_eqb ps POld else true
  | WUnknown => false
  | WOp o ok err =>
      match xfer ts ps o with
      | None => false
      | Some ((t1, p1), (t2, p2)) => wf_gen strict t1 p1 ok && wf_gen strict t2 p2 err
      end
  end.

Definition wf_writer (w : wprog) : bool := wf_gen false TUnk POld w.
Definition wf_outcome (w : wprog) : bool := wf_gen true TUnk POld w.

(* no stray temp file after a return (Ok or Err): `absent` = the temp file is known not to exist *)
Definition xfer_clean (absent : bool) (o : wop) : option (bool * bool) :=
  match o with
  | SOpenTrunc Tmp | SOpenCreateTrunc Tmp => Some (false, absent)
  | SWrite Tmp | SFsync _ | SStat _ | SSetPerm _ => Some (absent, absent)
  | SRename Tmp Target => Some (true, absent)
  | SRemove Tmp => Some (true, true)      (* error branch: under "no fault on Remove" it is ENOENT *)
  | SCopy Target Tmp => Some (false, false)
  | _ => None
  end.

Fixpoint wf_clean (absent : bool) (w : wprog) : bool :=
  match w with
  | WDone | WFail => absent
  | WUnknown => false
  | WOp o ok err =>
      match xfer_clean absent o with
      | None => false
      | Some (a1, a2) => wf_clean a1 ok && wf_clean a2 err
      end
  end.

Definition is_remove (o : fs_op) : bool := match o with Remove _ => true | _ => false end.
Definition fault_is_ok (f : fault) : bool := match f with FOk => true | _ => false end.
Definition no_remove_fault (tr : list (fs_op * fault)) : bool :=
  forallb (fun x => negb (is_remove (fst x)) || fault_is_ok (snd x)) tr.

(* operations that destroy the target's content in place *)
Definition clobbers (o : wop) : bool :=
  match o with
  | SOpenTrunc Target | SOpenCreateTrunc Target | SRemove Target | SCopy _ Target | SRename Target Tmp => true
  | _ => false
  end.

(* such an operation is the first one, or is reached through error continuations only
   (always feasible: every operation may fail) *)
Fixpoint reach_err_clobber (w : wprog) : bool :=
  match w with WOp o _ err => clobbers o || reach_err_clobber err | _ => false end.

(* ------------------------------------------------------------------------------------------ *)
(* fault policies of the LD_PRELOAD shim harness/cut/libcut.c (correspondence runs)             *)
(* ------------------------------------------------------------------------------------------ *)
Record pol := mkpol {
  cut_open : nat;            (* die right after the n-th O_TRUNC open (0 = never) *)
  fail_open : nat;           (* the n-th open for writing fails *)
  budget : option nat;       (* bytes that may still be written *)
  kill : bool;               (* budget exhausted: die (true) / short write then ENOSPC (false) *)
  fail_fsync : nat; cut_fsync : nat;
  fail_rename : nat; cut_rename_before : bool; cut_rename_after : bool;
  fail_unlink : nat; cut_unlink : nat;
  fail_chmod : nat }.

Record pstate := mkps { n_open : nat; n_trunc : nat; left : option nat; n_fsync : nat; n_rename : nat; n_unlink : nat; n_chmod : nat }.

Definition ps0 (p : pol) : pstate := mkps 0 0 (budget p) 0 0 0 0.

Definition hit (n cnt : nat) : bool := negb (Nat.eqb n 0) && Nat.eqb n cnt.

Definition pol_orc (p : pol) (s : pstate) (o : fs_op) : fault * pstate :=
  match o with
  | OpenTrunc _ | OpenCreateTrunc _ =>
      let no := S (n_open s) in
      if hit (fail_open p) no then (FErr 0, mkps no (n_trunc s) (left s) (n_fsync s) (n_rename s) (n_unlink s) (n_chmod s))
      else let nt := S (n_trunc s) in
           (if hit (cut_open p) nt then FOkCrash else FOk, mkps no nt (left s) (n_fsync s) (n_rename s) (n_unlink s) (n_chmod s))
  | Copy _ _ =>
      let no := S (n_open s) in
      if hit (fail_open p) no then (FErr 0, mkps no (n_trunc s) (left s) (n_fsync s) (n_rename s) (n_unlink s) (n_chmod s))
      else let nt := S (n_trunc s) in
           (if hit (cut_open p) nt then FCrash 1 else FOk, mkps no nt (left s) (n_fsync s) (n_rename s) (n_unlink s) (n_chmod s))
  | Write _ bs =>
      let L := List.length bs in
      match left s with
      | None => (FOk, s)
      | Some b =>
          if Nat.eqb L 0 then (FOk, s)                          (* no write(2) call for an empty buffer *)
          else if kill p then
            (if Nat.leb b L then FCrash b else FOk, mkps (n_open s) (n_trunc s) (Some (b - L)) (n_fsync s) (n_rename s) (n_unlink s) (n_chmod s))
          else
            (if Nat.ltb b L then FErr b else FOk, mkps (n_open s) (n_trunc s) (Some (b - L)) (n_fsync s) (n_rename s) (n_unlink s) (n_chmod s))
      end
  | Fsync _ =>
      let n := S (n_fsync s) in
      (if hit (cut_fsync p) n then FCrash 0 else if hit (fail_fsync p) n then FErr 0 else FOk,
       mkps (n_open s) (n_trunc s) (left s) n (n_rename s) (n_unlink s) (n_chmod s))
  | Stat _ => (FOk, s)
  | SetPerm _ =>
      let n := S (n_chmod s) in
      (if hit (fail_chmod p) n then FErr 0 else FOk, mkps (n_open s) (n_trunc s) (left s) (n_fsync s) (n_rename s) (n_unlink s) n)
  | Rename _ _ =>
      let n := S (n_rename s) in
      (if Nat.eqb n 1 && cut_rename_before p then FCrash 0
       else if hit (fail_rename p) n then FErr 0
       else if Nat.eqb n 1 && cut_rename_after p then FOkCrash else FOk,
       mkps (n_open s) (n_trunc s) (left s) (n_fsync s) n (n_unlink s) (n_chmod s))
  | Remove _ =>
      let n := S (n_unlink s) in
      (if hit (cut_unlink p) n then FCrash 0 else if hit (fail_unlink p) n then FErr 0 else FOk,
       mkps (n_open s) (n_trunc s) (left s) (n_fsync s) (n_rename s) n (n_chmod s))
  end.

Definition run_pol (e : env) (w : wprog) (p : pol) (d : disk) : result :=
  exec pstate (pol_orc p) e w (ps0 p) d.

(* projection compared with the real run: class and length of target / temp file, and how the call ended.
   class: 0 absent, 1 = old content, 2 = new content, 3 anything else *)
Fixpoint content_eqb (a b : content) : bool :=
  match a, b with
  | [], [] => true
  | x :: a', y :: b' => N.eqb x y && content_eqb a' b'
  | _, _ => false
  end.

Definition classify (old new : content) (c : option content) : N * N :=
  match c with
  | None => (0, 0)%N
  | Some x => ((if content_eqb x old then 1 else if content_eqb x new then 2 else 3)%N, N.of_nat (List.length x))
  end.

Definition status_code (s : status) : N := match s with Crashed => 0 | RetOk => 1 | RetErr => 2 | Stuck => 3 end%N.

Definition project (old new : content) (e : env) (r : result) : (N * N) * (N * N) * N :=
  (classify old new (r_disk r (e_target e)), classify old new (r_disk r (e_tmp e)), status_code (r_status r)).

Definition disk0 (p : path) (old : content) : disk := upd (fun _ => None) p (Some old).

(* ------------------------------------------------------------------------------------------ *)
(* helpers of the per-run generated files                                                       *)
(* ------------------------------------------------------------------------------------------ *)
Definition bytes_of_string (s : string) : content := map N_of_ascii (list_ascii_of_string s).

Definition which_eqb (a b : which) : bool := match a, b with Target, Target | Tmp, Tmp => true | _, _ => false end.

Definition wop_eqb (a b : wop) : bool :=
  match a, b with
  | SOpenTrunc x, SOpenTrunc y | SOpenCreateTrunc x, SOpenCreateTrunc y | SWrite x, SWrite y | SFsync x, SFsync y
  | SStat x, SStat y | SSetPerm x, SSetPerm y | SRemove x, SRemove y => which_eqb x y
  | SRename x1 x2, SRename y1 y2 | SCopy x1 x2, SCopy y1 y2 => which_eqb x1 y1 && which_eqb x2 y2
  | _, _ => false
  end.

Fixpoint wprog_eqb (a b : wprog) : bool :=
  match a, b with
  | WDone, WDone | WFail, WFail | WUnknown, WUnknown => true
  | WOp o1 k1 e1, WOp o2 k2 e2 => wop_eqb o1 o2 && wprog_eqb k1 k2 && wprog_eqb e1 e2
  | _, _ => false
  end.

(* the operations a run attempted, as the shim logs them: kind * 100 + path codes (1 target, 2 temp, 3 other);
   stat is not intercepted, an empty buffer causes no write(2) *)
Definition wcode (e : env) (p : path) : N :=
  if String.eqb p (e_target e) then 1%N else if String.eqb p (e_tmp e) then 2%N else 3%N.

Definition op_code (e : env) (o : fs_op) : list N :=
  match o with
  | OpenTrunc p => [100 + 10 * wcode e p]
  | OpenCreateTrunc p => [200 + 10 * wcode e p]
  | Write p bs => match bs with [] => [] | _ => [300 + 10 * wcode e p] end
  | Fsync p => [400 + 10 * wcode e p]
  | Stat _ => []
  | SetPerm p => [600 + 10 * wcode e p]
  | Rename a b => [700 + 10 * wcode e a + wcode e b]
  | Remove p => [800 + 10 * wcode e p]
  | Copy a b => [900 + 10 * wcode e a + wcode e b]
  end%N.

Definition observe (old new : content) (e : env) (r : result) : list N :=
  let '(tc, tl) := classify old new (r_disk r (e_target e)) in
  let '(mc, ml) := classify old new (r_disk r (e_tmp e)) in
  [tc; tl; mc; ml; status_code (r_status r)] ++ flat_map (fun x => op_code e (fst x)) (r_trace r).

Definition nat_pol (co fo : N) (bud : option N) (kl : bool) (ff cf fr : N) (crb cra : bool) (fu cu fc : N) : pol :=
  mkpol (N.to_nat co) (N.to_nat fo) (option_map N.to_nat bud) kl (N.to_nat ff) (N.to_nat cf) (N.to_nat fr) crb cra
        (N.to_nat fu) (N.to_nat cu) (N.to_nat fc).

(* one correspondence case: the writer on a disk holding `old` at the target, under a shim policy *)
Definition observe_pol (w : wprog) (old new : content) (pl : pol) : list N :=
  let e := mkenv "t"%string (tmp_of "t"%string (real_suffix "1"%string)) new in
  observe old new e (run_pol e w pl (disk0 "t"%string old)).
