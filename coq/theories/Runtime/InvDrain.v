(* C04 (draining shutdown): once the last handle is gone, the actor's own steps execute every
   accepted call in order and then the loop ends, dropping the actor value once. *)
From Coq Require Import List Arith Bool Lia.
Import ListNotations.
From IT Require Import Runtime.Actor Runtime.Lists Runtime.ActorInv Runtime.InvDefs Runtime.InvSeq Runtime.InvDefs2.

Section Inv.
Context {A V : Type}.
Variable sem : nat -> A -> list V -> option (A * V).
Variable sem_slf : nat -> A -> list V -> V.
Variable dv : V.
Notation st := (@st A V).
Notation step := (step sem sem_slf dv).
Notation step' := (step' sem sem_slf dv).
Notation step_actor := (step_actor sem dv).
Notation run_from := (run_from sem sem_slf dv).
Notation run := (run sem sem_slf dv).

(* ---- (1) after the exit the actor's steps are no-ops ---- *)
Lemma step_exited m (s : st) : exited s <> None -> step' m s Ac = s.
Proof.
  intros H. unfold Actor.step', Actor.step, Actor.step_actor.
  destruct (exited s); [reflexivity|congruence].
Qed.

Lemma run_exited m (s : st) n : exited s <> None -> run_from m s (repeat Ac n) = s.
Proof.
  intros H. induction n as [|n IH]; cbn; [reflexivity|].
  unfold Actor.run_from in IH. rewrite (step_exited m s H). exact IH.
Qed.

(* ---- (2) splitting the fuel ---- *)
Lemma run_split m (s : st) a b :
  run_from m s (repeat Ac (a + b)) = run_from m (run_from m s (repeat Ac a)) (repeat Ac b).
Proof. unfold Actor.run_from. rewrite repeat_app, fold_left_app. reflexivity. Qed.

Lemma run_S m (s : st) n : run_from m s (repeat Ac (S n)) = run_from m (step' m s Ac) (repeat Ac n).
Proof. reflexivity. Qed.

Lemma step'_some m (s s1 : st) : step_actor m s = Some s1 -> step' m s Ac = s1.
Proof. intros H. unfold Actor.step', Actor.step. rewrite H. reflexivity. Qed.

(* ---- what one actor step does in the three situations ---- *)

(* the queue is drained and every handle is gone: the loop ends *)
Lemma step_close m (s : st) :
  exited s = None -> busy s = None -> queue s = [] -> senders s = 0 ->
  exists s1, step_actor m s = Some s1 /\
    exited s1 = Some ChannelClosed /\ applied s1 = applied s /\ drops s1 = S (drops s) /\ actor s1 = None /\
    dropped s1 = dropped s /\ queue s1 = [] /\ busy s1 = None.
Proof.
  intros He Hb Hq Hs. unfold Actor.step_actor. rewrite He, Hb, Hq, Hs. cbn.
  eexists. split; [reflexivity|]. cbn. repeat split; assumption.
Qed.

(* a queued call is received *)
Lemma step_take m (s : st) c k fs q :
  exited s = None -> busy s = None -> queue s = Msg c k fs :: q ->
  exists s1, step_actor m s = Some s1 /\
    exited s1 = None /\ busy s1 = Some (Msg c k fs) /\ queue s1 = q /\ actor s1 = actor s /\ senders s1 = senders s /\
    applied s1 = applied s /\ drops s1 = drops s /\ dropped s1 = dropped s.
Proof.
  intros He Hb Hq. unfold Actor.step_actor. rewrite He, Hb, Hq.
  eexists. split; [reflexivity|]. cbn. repeat split; assumption.
Qed.

(* the received call is executed: the thread crashes (panic / failed reply) or goes on with the next message *)
Lemma step_exec m (s : st) c k fs rm :
  exited s = None -> busy s = Some (Msg c k fs) -> actor s <> None -> meth m k = Some rm ->
  exists s1, step_actor m s = Some s1 /\
    ((exists r, exited s1 = Some r /\ r <> ChannelClosed) \/
     (exited s1 = None /\ busy s1 = None /\ queue s1 = queue s /\ actor s1 <> None /\ senders s1 = senders s /\
      applied_ids s1 = applied_ids s ++ [c] /\ drops s1 = drops s /\ dropped s1 = dropped s)).
Proof.
  intros He Hb Ha Hm. unfold Actor.step_actor. rewrite He, Hb, Hm.
  destruct (actor s) as [a|] eqn:Ea; [|congruence].
  assert (G : forall s1 : st, exited s1 = None -> busy s1 = None -> queue s1 = queue s -> actor s1 <> None ->
     senders s1 = senders s -> applied_ids s1 = applied_ids s ++ [c] -> drops s1 = drops s -> dropped s1 = dropped s ->
     exists s2, Some s1 = Some s2 /\
       ((exists r, exited s2 = Some r /\ r <> ChannelClosed) \/
        (exited s2 = None /\ busy s2 = None /\ queue s2 = queue s /\ actor s2 <> None /\ senders s2 = senders s /\
         applied_ids s2 = applied_ids s ++ [c] /\ drops s2 = drops s /\ dropped s2 = dropped s))).
  { intros s1 H1 H2 H3 H4 H5 H6 H7 H8. exists s1. split; [reflexivity|]. right. repeat split; assumption. }
  assert (C : forall (s1 : st) r l, r <> ChannelClosed ->
     exists s2, Some (crash m s1 r l) = Some s2 /\
       ((exists r, exited s2 = Some r /\ r <> ChannelClosed) \/
        (exited s2 = None /\ busy s2 = None /\ queue s2 = queue s /\ actor s2 <> None /\ senders s2 = senders s /\
         applied_ids s2 = applied_ids s ++ [c] /\ drops s2 = drops s /\ dropped s2 = dropped s))).
  { intros s1 r l Hr. eexists. split; [reflexivity|]. left. exists r. split; [reflexivity|exact Hr]. }
  assert (Eids : forall k' args r,
     map (fun e : callid * nat * list V * V => fst (fst (fst e))) (applied s ++ [(c, k', args, r)]) = applied_ids s ++ [c]).
  { intros. unfold applied_ids. rewrite map_app. reflexivity. }
  destruct (sem (rm_callee rm) a (route dv (rm_args rm) fs)) as [[a' r]|].
  2:{ apply C. discriminate. }
  destruct (rm_reply rm).
  2:{ apply G; cbn; auto; try discriminate; try apply Eids. }
  destruct (rm_reply_own rm).
  2:{ apply G; cbn; auto; try discriminate; try apply Eids. }
  destruct (slot_get (slots s) c) as [[| | | |]|];
    try (apply G; cbn; auto; try discriminate; try apply Eids).
  destruct (rm_loud_reply rm).
  - apply C. discriminate.
  - apply G; cbn; auto; try discriminate; try apply Eids.
Qed.

(* ---- the conclusion, relative to the start state ---- *)
Definition drained (s0 : st) (l : list (@msg V)) (s' : st) :=
  exited s' <> None /\
  (exited s' = Some ChannelClosed ->
     applied_ids s' = applied_ids s0 ++ map msg_id l /\ drops s' = S (drops s0) /\ actor s' = None
     /\ dropped s' = dropped s0 /\ queue s' = [] /\ busy s' = None).

Lemma drained_crash (s0 : st) l (s' : st) r : exited s' = Some r -> r <> ChannelClosed -> drained s0 l s'.
Proof. intros E N. split; [congruence|]. intros E'. congruence. Qed.

(* nothing in progress: induction on the queue *)
Lemma drain_idle m q : forall (s : st) n,
  queue s = q -> busy s = None -> exited s = None -> actor s <> None -> senders s = 0 -> only_calls q ->
  (forall c k fs, In (Msg c k fs) q -> exists rm, meth m k = Some rm) ->
  2 * length q + 1 <= n ->
  drained s q (run_from m s (repeat Ac n)).
Proof.
  induction q as [|x q IH]; intros s n Hq Hb He Ha Hs Hoc Hm Hn.
  - destruct n as [|n]; [cbn in Hn; lia|]. rewrite run_S.
    destruct (step_close m s He Hb Hq Hs) as (s1 & St & E1 & Ap & Dr & Ac1 & Dd & Q1 & B1).
    rewrite (step'_some _ _ _ St). rewrite run_exited by congruence.
    split; [congruence|]. intros _. cbn [map]. rewrite app_nil_r. unfold applied_ids. rewrite Ap.
    repeat split; assumption.
  - destruct (Hoc x (or_introl eq_refl)) as (c & k & fs & ->).
    destruct n as [|[|n]]; [cbn in Hn; lia|cbn in Hn; lia|].
    rewrite run_S.
    destruct (step_take m s c k fs q He Hb Hq) as (s1 & St & E1 & B1 & Q1 & A1 & S1 & Ap1 & Dr1 & Dd1).
    rewrite (step'_some _ _ _ St). rewrite run_S.
    destruct (Hm c k fs (or_introl eq_refl)) as (rm & Hrm).
    assert (Ha1 : actor s1 <> None) by (rewrite A1; exact Ha).
    destruct (step_exec m s1 c k fs rm E1 B1 Ha1 Hrm) as (s2 & St2 & [(r & Er & Nr)|(E2 & B2 & Q2 & A2 & S2 & Ap2 & Dr2 & Dd2)]).
    + rewrite (step'_some _ _ _ St2). rewrite run_exited by congruence.
      eapply drained_crash; eassumption.
    + rewrite (step'_some _ _ _ St2).
      assert (I : drained s2 q (run_from m s2 (repeat Ac n))).
      { apply IH; auto; try congruence.
        - intros y Hy. apply Hoc. right. exact Hy.
        - intros c' k' fs' Hy. apply (Hm c' k' fs'). right. exact Hy.
        - cbn [length] in Hn. lia. }
      destruct I as (I1 & I2). split; [exact I1|]. intros Ecc. destruct (I2 Ecc) as (J1 & J2 & J3 & J4 & J5 & J6).
      repeat split; auto.
      * rewrite J1, Ap2. unfold applied_ids. rewrite Ap1. cbn [map msg_id]. rewrite <- app_assoc. reflexivity.
      * congruence.
      * congruence.
Qed.

(* any fuel above the bound *)
Lemma drain_gen m (s : st) n :
  exited s = None -> actor s <> None -> senders s = 0 -> only_calls (pending s) ->
  (forall c k fs, In (Msg c k fs) (pending s) -> exists rm, meth m k = Some rm) ->
  2 * length (pending s) + 1 <= n ->
  drained s (pending s) (run_from m s (repeat Ac n)).
Proof.
  intros He Ha Hs Hoc Hm Hn. unfold pending in *. destruct (busy s) as [x|] eqn:Hb.
  - destruct (Hoc x (or_introl eq_refl)) as (c & k & fs & ->).
    cbn [app length] in Hn. destruct n as [|n]; [lia|]. rewrite run_S.
    destruct (Hm c k fs (or_introl eq_refl)) as (rm & Hrm).
    destruct (step_exec m s c k fs rm He Hb Ha Hrm) as (s2 & St2 & [(r & Er & Nr)|(E2 & B2 & Q2 & A2 & S2 & Ap2 & Dr2 & Dd2)]).
    + rewrite (step'_some _ _ _ St2). rewrite run_exited by congruence.
      eapply drained_crash; eassumption.
    + rewrite (step'_some _ _ _ St2).
      assert (I : drained s2 (queue s) (run_from m s2 (repeat Ac n))).
      { apply drain_idle; auto; try congruence.
        - intros y Hy. apply Hoc. right. exact Hy.
        - intros c' k' fs' Hy. apply (Hm c' k' fs'). right. exact Hy.
        - lia. }
      destruct I as (I1 & I2). split; [exact I1|]. intros Ecc. destruct (I2 Ecc) as (J1 & J2 & J3 & J4 & J5 & J6).
      repeat split; auto.
      * rewrite J1, Ap2. cbn [app map msg_id]. rewrite <- app_assoc. reflexivity.
      * congruence.
      * congruence.
  - cbn [app] in *. apply drain_idle; auto.
Qed.

Theorem drain m (s : st) :
  exited s = None -> actor s <> None -> senders s = 0 -> only_calls (pending s) ->
  (forall c k fs, In (Msg c k fs) (pending s) -> exists rm, meth m k = Some rm) ->
  let s' := run_from m s (repeat Ac (2 * length (pending s) + 1)) in
  exited s' <> None /\
  (exited s' = Some ChannelClosed ->
     applied_ids s' = applied_ids s ++ map msg_id (pending s) /\ drops s' = S (drops s) /\ actor s' = None
     /\ dropped s' = dropped s /\ queue s' = [] /\ busy s' = None).
Proof.
  intros He Ha Hs Hoc Hm. exact (drain_gen m s _ He Ha Hs Hoc Hm (le_n _)).
Qed.

End Inv.
