(* Gen/GenericsThm.v -- the generics partition / PhantomData model refines a spec written in declaration
   order only; hence the result does not depend on the HashMap iteration order. *)
From Coq Require Import List String Bool Permutation.
Import ListNotations.
From IT Require Import Gen.GenPartition.

Lemma mem_name_ext : forall x a b, (forall q, In q a <-> In q b) -> mem_name x a = mem_name x b.
Proof.
  intros x a b H. unfold mem_name. apply eq_true_iff_eq. rewrite !existsb_exists.
  split; intros [q [Hi He]]; exists q; split; auto; apply H; auto.
Qed.

Lemma get_mod_gen_ext : forall params h1 h2 f, (forall q, In q h1 <-> In q h2) ->
  get_mod_gen params h1 f = get_mod_gen params h2 f.
Proof.
  intros params h1 h2 f H. unfold get_mod_gen. destruct f; [reflexivity|].
  assert (forall p, mem_name (gp_name p) h1 = mem_name (gp_name p) h2) as E by (intro p; apply mem_name_ext; exact H).
  rewrite (filter_ext _ _ E).
  rewrite (filter_ext (fun p => negb (mem_name (gp_name p) h1)) (fun p => negb (mem_name (gp_name p) h2))) by (intro p; rewrite E; reflexivity).
  reflexivity.
Qed.

Definition contributes (m : meth) (q : gparam) : bool :=
  match m_kind m with MRef => negb (m_localgen m) && includes (m_sig m) q | _ => false end.

Lemma step_retain_In : forall hm m q, In q (step_retain hm m) <-> In q hm /\ contributes m q = false.
Proof.
  intros hm m q. unfold step_retain, contributes. destruct (m_kind m); try tauto.
  destruct (m_localgen m); simpl; [tauto|]. unfold retain. rewrite filter_In, negb_true_iff. tauto.
Qed.

Lemma fold_retain_In : forall ms hm q, In q (fold_left step_retain ms hm) <-> In q hm /\ used_by ms q = false.
Proof.
  induction ms as [|m ms IH]; intros hm q; simpl.
  - unfold used_by. simpl. tauto.
  - rewrite IH, step_retain_In. unfold used_by. simpl. fold (contributes m q). fold (used_by ms q).
    rewrite orb_false_iff. tauto.
Qed.

(* refinement: whatever the iteration order of the map, the result is the declaration-order spec *)
Theorem impl_gen_spec : forall params ms hm0, Permutation hm0 (filter nonconst params) ->
  impl_gen params hm0 ms = spec_gen params ms.
Proof.
  intros params ms hm0 P. unfold impl_gen, spec_gen. apply get_mod_gen_ext. intro q.
  rewrite fold_retain_In. unfold unused. rewrite filter_In, andb_true_iff, negb_true_iff.
  assert (In q hm0 <-> In q (filter nonconst params)) as E
    by (split; intro H; [eapply Permutation_in; eauto | eapply Permutation_in; [apply Permutation_sym; eauto | auto]]).
  rewrite E, filter_In. tauto.
Qed.

Theorem impl_gen_deterministic : forall params ms hm1 hm2,
  Permutation hm1 (filter nonconst params) -> Permutation hm2 (filter nonconst params) ->
  impl_gen params hm1 ms = impl_gen params hm2 ms.
Proof. intros. rewrite (impl_gen_spec params ms hm1), (impl_gen_spec params ms hm2); auto. Qed.

(* field i of the PhantomData block is the i-th private parameter in declaration order *)
Lemma enumerate_snd : forall (A : Type) (l : list A) i, map snd (enumerate i l) = l.
Proof. induction l; intro i; simpl; [reflexivity|]. rewrite IHl. reflexivity. Qed.
Lemma enumerate_fst : forall (A : Type) (l : list A) i, map fst (enumerate i l) = seq i (List.length l).
Proof. induction l; intro i; simpl; [reflexivity|]. rewrite IHl. reflexivity. Qed.

Theorem phantom_fields_in_declaration_order : forall params ms,
  let g := spec_gen params ms in
  map snd (mg_phantom g) = mg_private g /\ map fst (mg_phantom g) = seq 0 (List.length (mg_private g)) /\
  (full ms = false -> mg_private g = map gp_name (filter (fun p => mem_name (gp_name p) (unused params ms)) params)).
Proof.
  intros params ms. unfold spec_gen, get_mod_gen. destruct (full ms); simpl.
  - repeat split; auto. discriminate.
  - rewrite enumerate_snd, enumerate_fst. repeat split; auto.
Qed.

(* the code before fix fdc5b8f did depend on the iteration order (defect F2) *)
Theorem impl_gen_old_order_dependent : exists params ms hm1 hm2,
  Permutation hm1 (filter nonconst params) /\ Permutation hm2 (filter nonconst params) /\
  impl_gen_old params hm1 ms <> impl_gen_old params hm2 ms.
Proof.
  pose (X := {| gp_kind := KType; gp_name := "X"%string |}). pose (Y := {| gp_kind := KType; gp_name := "Y"%string |}).
  exists [X; Y], [], [X; Y], [Y; X]. repeat split.
  - apply Permutation_refl.
  - simpl. apply perm_swap.
  - vm_compute. discriminate.
Qed.

(* the hypotheses are satisfiable in a non-trivial way: 5 parameters, one used, one const, reversed map order *)
Example impl_gen_example :
  let p k n := {| gp_kind := k; gp_name := n |} in
  let params := [p KLife "'a"; p KType "X"; p KType "Y"; p KConst "N"; p KType "Z"]%string in
  let ms := [ {| m_kind := MRef; m_localgen := false; m_sig := ["fn"; "inc"; "("; "&"; "mut"; "self"; ","; "y"; ":"; "Y"; ")"]%string |} ] in
  Permutation [p KType "Z"; p KType "Y"; p KType "X"; p KLife "'a"]%string (filter nonconst params) /\
  mg_phantom (impl_gen params [p KType "Z"; p KType "Y"; p KType "X"; p KLife "'a"]%string ms) = [(0, "'a"); (1, "X"); (2, "Z")]%string /\
  mg_script (impl_gen params [p KType "Z"; p KType "Y"; p KType "X"; p KLife "'a"]%string ms) = ["Y"; "N"]%string.
Proof.
  simpl. repeat split.
  change (Permutation (rev [{| gp_kind := KLife; gp_name := "'a" |}; {| gp_kind := KType; gp_name := "X" |};
                             {| gp_kind := KType; gp_name := "Y" |}; {| gp_kind := KType; gp_name := "Z" |}])
                      [{| gp_kind := KLife; gp_name := "'a" |}; {| gp_kind := KType; gp_name := "X" |};
                       {| gp_kind := KType; gp_name := "Y" |}; {| gp_kind := KType; gp_name := "Z" |}]).
  apply Permutation_sym. apply Permutation_rev.
Qed.
