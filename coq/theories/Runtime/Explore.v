(* Executable scenarios over the runtime LTS with a concrete user type, used only for
   failing-input search on instances whose wf premise no longer checks (never in place of a theorem). *)
From Coq Require Import List Arith Bool.
Import ListNotations.
From IT Require Import Runtime.Actor.

(* the probe actor: state = log hash, every method returns the state it saw; argument 999 makes it panic *)
Definition sem0 (k : nat) (a : nat) (vs : list nat) : option (nat * nat) :=
  if existsb (Nat.eqb 999) vs then None else Some (a * 31 + k * 7 + fold_right plus 0 vs + 1, a).
Definition sem_slf0 (k : nat) (a : nat) (vs : list nat) : nat := a.
Definition run0 := @run nat nat sem0 sem_slf0 0.
Definition st0 := @st nat nat.

Fixpoint round_robin (n : nat) (k : nat) : list choice :=   (* k rounds over clients 0..n-1 *)
  match k with 0 => [] | S k' => map Cl (seq 0 n) ++ round_robin n k' end.

(* n callers, each owning one handle, each issuing one call of method k with a distinct argument; the actor is never scheduled *)
Definition burst (m : rmodel) (k n : nat) : st0 :=
  run0 m 0 (map (fun i => ([Call k [i + 1]], 1)) (seq 0 n)) (round_robin n 3).

Definition returned_count (s : st0) : nat :=
  length (filter (fun c => match c_rets c with [] => false | _ => true end) (clients s)).
Definition is_void (m : rmodel) (k : nat) : bool := match nth_error (r_meths m) k with Some rm => negb (rm_reply rm) | None => false end.
Definition callee_ok (m : rmodel) (k : nat) : bool := match nth_error (r_meths m) k with Some rm => rm_callee rm <? 999 | None => false end.
Definition messaging (m : rmodel) : list nat := filter (callee_ok m) (seq 0 (length (r_meths m))).

(* C08 monitor against the capacity the *option* asks for: returns the offending method and observation *)
Definition c08_search (m : rmodel) (want : option nat) : list (nat * nat * nat * nat) :=
  flat_map (fun k =>
    let n := match want with Some n => n | None => 6 end in
    let s := burst m k (n + 3) in
    let bad := match want with
               | Some n => (n <? length (queue s)) || negb (Nat.eqb (length (lost s)) 0)
               | None => negb (Nat.eqb (length (queue s)) (n + 3)) || negb (Nat.eqb (length (lost s)) 0) end in
    if bad then [(k, length (queue s), length (lost s), returned_count s)] else []) (messaging m).
