From Coq Require Import List Arith Bool Lia.
Import ListNotations.
From IT Require Import Runtime.Actor Runtime.Lists Runtime.ActorInv Runtime.InvDefs.

Section Inv.
Context {A V : Type}.
Variable sem : nat -> A -> list V -> option (A * V).
Variable sem_slf : nat -> A -> list V -> V.
Variable dv : V.
Notation st := (@st A V).
Notation step := (step sem sem_slf dv).
Notation step' := (step' sem sem_slf dv).
Notation run_from := (run_from sem sem_slf dv).
Notation run := (run sem sem_slf dv).

Ltac step_cases H :=
  unfold Actor.step, step_client, step_actor in H;
  repeat match type of H with
  | context [match ?x with _ => _ end] => destruct x eqn:?; try discriminate H
  end;
  try (injection H as <-).

Lemma issued_grows m s ch s' : step m s ch = Some s' -> exists l, issued s' = issued s ++ l.
Proof.
  intros H. destruct ch as [t|]; cbn [Actor.step] in H.
  - step_cases H; cbn; try (exists []; rewrite app_nil_r; reflexivity); eexists; reflexivity.
  - step_cases H; cbn; try (exists []; rewrite app_nil_r; reflexivity); eexists; reflexivity.
Qed.

Lemma msg_ok_mono m (s s' : st) l x : issued s' = issued s ++ l -> msg_ok dv m s x -> msg_ok dv m s' x.
Proof.
  intros E. destruct x as [c k fs|c]; cbn; [|auto].
  intros (vs & rm & I & M & F). exists vs, rm. rewrite E, in_app_iff. auto.
Qed.

Lemma args_step m s ch s' : args_ok dv m s -> step m s ch = Some s' -> args_ok dv m s'.
Proof.
  intros (I1 & I2 & I3 & I4) H. pose proof (issued_grows _ _ _ _ H) as (l & G).
  pose proof (fun x => msg_ok_mono m s s' l x G) as Mono. clear G.
  destruct ch as [t|]; cbn [Actor.step] in H.
  - step_cases H; unfold args_ok; cbn in *; refine (conj _ (conj _ (conj _ _))).
    all: try (intros x Hx; apply Mono, I2, Hx).
    all: try (intros x Hx; apply Mono, I1, Hx).
    all: try (intros c1 callee args r1 Hx; destruct (I4 _ _ _ _ Hx) as (k1 & vs1 & rm1 & J1 & J2);
              exists k1, vs1, rm1; split; [try (apply in_or_app; left); exact J1 | exact J2]).
    all: try (intros t0 cl c1 k1 vs1 ab1 Hn Hp; apply upd_nth in Hn; destruct Hn as [(<- & -> & _)|(N & Hn)];
              [ cbn in Hp; try discriminate Hp | try (apply in_or_app; left); eapply I3; eassumption ]).
    all: try (injection Hp as <- <- <- <-; apply in_or_app; right; left; reflexivity).
    all: intros x Hx; apply in_app_iff in Hx; destruct Hx as [Hx|[<-|[]]]; [apply Mono, I1, Hx|]; cbn; try exact I.
    all: match goal with Hc : nth_error (clients _) _ = Some ?c, Hpc : c_pc ?c = Sending _ _ ?vs _, Hm : meth _ _ = Some ?rm |- _ =>
           exists vs, rm; split; [exact (I3 _ _ _ _ _ _ Hc Hpc)|split; [exact Hm|reflexivity]] end.
  - step_cases H; unfold args_ok; cbn in *; refine (conj _ (conj _ (conj _ _))).
    all: try exact I3.
    all: try exact I4.
    all: try (match goal with |- forall x, False -> _ => intros x [] end).
    all: try (intros x Hx; discriminate Hx).
    all: try (intros x Hx; apply Mono, I1;
              first [exact Hx | right; exact Hx | match goal with E : queue _ = _ |- _ => rewrite E in Hx; exact Hx end]).
    all: try (intros x Hx; apply Mono, I2;
              first [exact Hx | match goal with E : busy _ = _ |- _ => rewrite E in Hx; exact Hx end]).
    all: try (intros x Hx; injection Hx as <-; apply Mono, I1; left; reflexivity).
    all: intros c0 callee args r0 Hx; apply in_app_iff in Hx; destruct Hx as [Hx|[Hx|[]]]; [exact (I4 _ _ _ _ Hx)|];
         injection Hx as <- <- <- <-;
         match goal with Hm : meth _ ?k = Some ?rm |- _ =>
           pose proof (I2 _ eq_refl) as J; cbn in J; destruct J as (vs1 & rm1 & J1 & J2 & J3);
           rewrite Hm in J2; injection J2 as <-; exists k, vs1, rm; subst; auto end.
Qed.

Lemma args_init m (a0 : A) progs : args_ok dv m (Actor.init a0 progs).
Proof.
  unfold args_ok; cbn. refine (conj _ (conj _ (conj _ _))).
  - intros x [].
  - intros x Hx; discriminate Hx.
  - intros t cl c k vs ab Hn Hp. apply nth_error_In in Hn. apply in_map_iff in Hn.
    destruct Hn as (p & <- & _). cbn in Hp. discriminate Hp.
  - intros c callee args r [].
Qed.

Theorem args_reachable m a0 progs sched : args_ok dv m (Actor.run sem sem_slf dv m a0 progs sched).
Proof.
  unfold Actor.run. apply (inv_run sem sem_slf dv (args_ok dv m) m (args_step m)). apply args_init.
Qed.
End Inv.
