"""harness/typecheck driver: rustc (cargo check) as the oracle for "expansion type-checks next to the user's code".
Exploration level (not proof): used by C06 for the type-check sub-claim and for the failing-input search."""
import os, json, shutil, subprocess, re
from common import VERIF, CACHE, Infra, sh
import hook

HARNESS = os.path.join(VERIF, "harness", "typecheck6")
PROJ = os.path.join(CACHE, "typecheck6", "proj")
TARGET = os.path.join(CACHE, "typecheck6", "target")


def project(sub="proj"):
    proj = os.path.join(CACHE, "typecheck6", sub)
    os.makedirs(os.path.join(proj, "src"), exist_ok=True)
    toml = open(os.path.join(HARNESS, "Cargo.toml.in")).read().replace("@REPO@", hook.REPO)
    p = os.path.join(proj, "Cargo.toml")
    if not os.path.exists(p) or open(p).read() != toml:
        open(p, "w").write(toml)
    lock = os.path.join(proj, "Cargo.lock")
    if not os.path.exists(lock):
        shutil.copy(os.path.join(HARNESS, "Cargo.lock"), lock)
    return proj


def cargo_check(mods, sub="proj", timeout=1500):
    """mods: dict module name -> source text.  Returns (errors: dict module -> [message], other: [message])"""
    proj = project(sub)
    src = os.path.join(proj, "src")
    for f in os.listdir(src):
        os.remove(os.path.join(src, f))
    names = sorted(mods)
    for n in names:
        open(os.path.join(src, n + ".rs"), "w").write(mods[n])
    open(os.path.join(src, "lib.rs"), "w").write("#![allow(warnings)]\n" + "".join("pub mod %s;\n" % n for n in names))
    env = dict(os.environ, CARGO_NET_OFFLINE="true", CARGO_TARGET_DIR=TARGET)
    env.pop("CARGO", None)
    try:
        r = subprocess.run(["cargo", "check", "--offline", "--lib", "--message-format=json", "--manifest-path", os.path.join(proj, "Cargo.toml")],
                           stdout=subprocess.PIPE, stderr=subprocess.PIPE, text=True, timeout=timeout, env=env, cwd=proj)
    except subprocess.TimeoutExpired:
        raise Infra("cargo check timed out")
    errors, other = {}, []
    ours = False
    for line in r.stdout.splitlines():
        if not line.startswith("{"):
            continue
        try:
            d = json.loads(line)
        except Exception:
            continue
        if d.get("reason") == "compiler-message":
            msg = d["message"]
            if msg.get("level") not in ("error", "error: internal compiler error"):
                continue
            if "typecheck" not in d.get("package_id", "") and "typecheck" not in d.get("target", {}).get("name", ""):
                other.append("in dependency: " + msg.get("message", ""))
                continue
            text = msg.get("message", "")
            if text.startswith("aborting due to"):
                continue
            files = set()

            def walk(sp):
                files.add(os.path.basename(sp.get("file_name", "")))
                if sp.get("expansion"):
                    walk(sp["expansion"]["span"])
            for sp in msg.get("spans", []):
                walk(sp)
            hit = [f[:-3] for f in files if f.endswith(".rs") and f[:-3] in mods]
            code = (msg.get("code") or {}).get("code", "")
            entry = ("%s %s" % (code, text)).strip()
            if hit:
                for h in hit:
                    errors.setdefault(h, []).append(entry)
            else:
                other.append(entry)
        elif d.get("reason") == "build-finished":
            ours = True
    if r.returncode != 0 and not errors and not other:
        raise Infra("cargo check failed without attributable error:\n" + r.stderr[-3000:])
    if not ours:
        raise Infra("cargo check produced no build-finished record:\n" + r.stderr[-3000:])
    return errors, other


def check_fixpoint(mods, sub="proj", rounds=5):
    """errors of early compiler phases hide later ones: drop the failing modules and re-check until clean.
    Returns (all_errors: dict module -> [message], other messages of the last round)"""
    mods = dict(mods)
    allerr = {}
    other = []
    for _ in range(rounds):
        if not mods:
            break
        errs, other = cargo_check(mods, sub)
        if not errs:
            if other:
                raise Infra("unattributed rustc errors: " + "; ".join(other[:5]))
            break
        for k, v in errs.items():
            allerr.setdefault(k, []).extend(v)
            mods.pop(k, None)
    else:
        if mods:
            errs, other = cargo_check(mods, sub)
            for k, v in errs.items():
                allerr.setdefault(k, []).extend(v)
    return allerr, other
