"""C06 -- the macro is total and deterministic on supported input; emitted code type-checks (partial: rustc is the oracle).

Parts of one run
  A  theorem file Properties/C06.v re-checked, hygiene
  B  names tie: real name::script_field / family_field_name / combined_ident vs Gen/Names.v on an exhaustive identifier-shape
     enumeration; oracle = "result is a legal identifier, never a panic"; collision search on lower_snake_case names
  C  generics tie + determinism: generic impl blocks expanded twice in one process (expand2) and again in a second rustc
     process; token strings must be identical; PhantomData fields and Script generics of the real expansion vs Gen/Generics.v
  D  totality: large grammar-generated corpus -> TOKENS | DIAG about the input; never PANIC / "Internal Error"
  E  type-check (exploration level): programs compiled by cargo check next to a copy without the attribute
Known-finding classes are decidable predicates on the input (lib/gen_c06.py KNOWN_CLASSES + `includes-line-wrap` below)."""
import random, re, os, json, itertools, collections
import hook, inst, gen_c06 as g, typecheck6 as typecheck
from common import *

PID = "C06"
RULE = ("evaluations = identifier strings pushed through the real mangling helpers and the Coq model + real expansions (classified, repeated, "
        "compared with the generics model) + programs compiled by rustc; non-trivial = distinct (part, kind, lib, identifier shape / generics "
        "signature / pattern kind / option set) classes")
IMPORTS = ("From Coq Require Import List String Ascii NArith Bool.\nImport ListNotations.\nFrom IT Require Import Gen.Names Gen.GenPartition.\n"
           "Open Scope string_scope.\n")
IDENT_RE = re.compile(r"^[A-Za-z_][A-Za-z0-9_]*$")


_CAP = collections.Counter()


def viol(rep, name, data, found=True):
    """at most 3 replay files per category (the prefix of the name before the first digit run); the rest is counted"""
    cat = re.sub(r"_?\d+.*$", "", name)
    _CAP[cat] += 1
    if _CAP[cat] > 3:
        rep.extra.setdefault("further_violations_not_listed", {})[cat] = _CAP[cat] - 3
        return None
    return rep.violation(name, data, found=found)


def legal(s):
    return bool(IDENT_RE.match(s)) and s != "_"


def cs(s):
    return '"%s"' % s


# ------------------------------------------------------------------ B: names
def part_names(rep, rng):
    alpha = ["a", "b", "B", "_", "1"]
    maxlen = 4 if rep.tier == "quick" else 5
    ids = ["".join(t) for n in range(1, maxlen + 1) for t in itertools.product(alpha, repeat=n)]
    ids = [s for s in ids if legal(s)]
    if rep.tier == "quick":
        ids = [s for s in ids if len(s) <= 3] + rng.sample([s for s in ids if len(s) == 4], 250)
    extra = ["r#type", "r#match", "r#a_b", "r#_x_", "get_value", "_get__value2_", "MAX_len", "xY_z", "Abc9", "z" * 40, "a_" * 20]
    ids += extra
    non_ascii = [n for n in g.NAME_SHAPES["non_ascii"]] + ["Été", "ß_x", "x_ß", "_ü_", "名前", "a_名"]
    upper_ids = [s for s in ids if not s.startswith("r#")]
    jobs = [("fn:script_field", ["", s]) for s in ids] + [("fn:script_field", ["", s]) for s in non_ascii] \
        + [("fn:family_field_name", ["", s]) for s in upper_ids]
    combos = []
    pool = [s for s in ids if not s.startswith("r#") and len(s) <= 3]
    raw_pool = ["r#type", "r#match", "r#a_b", "r#_x_", "r#move", "r#a", "r#B1"]
    for _ in range(150 if rep.tier == "quick" else 1500):
        combos.append([rng.choice(pool) for _ in range(rng.randint(1, 4))])
    # raw identifiers in every position of the container (a destructuring pattern may bind `r#type` anywhere)
    for _ in range(80 if rep.tier == "quick" else 600):
        c = [rng.choice(pool + raw_pool) for _ in range(rng.randint(1, 4))]
        c[rng.randrange(len(c))] = rng.choice(raw_pool)
        combos.append(c)
    combos += [["a_b", "c"], ["a", "b_c"], ["__"], ["a", "__"], ["a", "r#type"], ["r#type", "b"], ["r#type"], ["r#type", "r#match", "c"], ["a", "b", "r#move"]]
    jobs += [("fn:combined_ident", [""] + c) for c in combos] + [("fn:combined_ident", [""])]
    res = hook.run_parallel(jobs, tag="c06n")
    if res is None:
        raise Infra("names batch timed out")
    items = []
    for i, s in enumerate(ids):
        items.append(("sf%d" % i, "script_field_s %s" % cs(s)))
    for i, s in enumerate(upper_ids):
        items.append(("ff%d" % i, "family_field_name_s %s" % cs(s)))
    for i, c in enumerate(combos):
        items.append(("ci%d" % i, "combined_ident_s [%s]" % "; ".join(cs(x) for x in c)))
    items.append(("snake", "map snake_class_s [%s]" % "; ".join(cs(s) for s in ids)))
    vals = inst.coq_values("C06_names", IMPORTS, items)
    rep.checker_cmds.append("coqc generated/C06_names.v (vm_compute of script_field_s / family_field_name_s / combined_ident_s / snake_class_s)")
    snake = re.findall(r"true|false", vals["snake"])
    n1, n2 = len(ids), len(ids) + len(non_ascii)

    def coq_opt(v):
        m = re.match(r'Some "(.*)"', v)
        return m.group(1) if m else None

    def judge(what, inp, model, real, need_legal=True):
        cls, f = real
        rep.evaluations += 1
        val = f[0] if (cls == "VALUE" and f) else None
        ok = rep.oblige(model is not None and val == model)
        if ok:
            return
        # oracle of the property: no panic, no internal error, result is a legal identifier
        if cls != "VALUE" or (need_legal and not legal(val or "")):
            viol(rep, "names_%s_%s" % (what, inp), {"what": "%s on a legal identifier: %s" % (what, "result is not an identifier" if cls == "VALUE" else cls),
                          "helper": what, "input": inp, "expected": "a legal identifier (model: %r)" % model, "observed": [cls] + f[:1]}, found=True)
        else:
            viol(rep, "names_tie_%s" % what, {"what": "correspondence Gen/Names.v <-> src/model/name.rs no longer checks (real result is still an identifier)",
                          "helper": what, "first_difference": {"input": inp, "model": model, "real": val}}, found=False)

    real_sf = {}
    for i, s in enumerate(ids):
        rep.count("name_shape", "raw" if s.startswith("r#") else ("lead_us" if s.startswith("_") else "trail_us" if s.endswith("_") else
                  "double_us" if "__" in s else "has_upper" if s != s.lower() else "digit" if re.search(r"\d", s) else "plain"))
        judge("script_field", s, coq_opt(vals["sf%d" % i]), res[i])
        real_sf[s] = res[i][1][0] if res[i][0] == "VALUE" else None
        rep.nontrivial.add(("B", "sf", re.sub(r"[a-z]", "a", re.sub(r"[A-Z]", "B", s))[:6]))
    for j, s in enumerate(non_ascii):                         # outside the ASCII model: totality only
        cls, f = res[n1 + j]
        rep.evaluations += 1
        rep.count("name_shape", "non_ascii")
        if not rep.oblige(cls == "VALUE" and f and f[0] != ""):
            viol(rep, "names_nonascii_" + s, {"what": "script_field on a legal non-ASCII identifier: " + cls, "input": s, "observed": [cls] + f[:1]}, found=True)
    for i, s in enumerate(upper_ids):
        judge("family_field_name", s, coq_opt(vals["ff%d" % i]), res[n2 + i])
    base = n2 + len(upper_ids)
    for i, c in enumerate(combos):
        judge("combined_ident", "+".join(c), coq_opt(vals["ci%d" % i]), res[base + i])
    cls, f = res[base + len(combos)]                           # empty container: the model says InternalError; the real helper aborts with that text
    rep.oblige(cls == "DIAG" and "Internal Error" in (f[0] if f else ""))
    # name-level consequence of C06_script_field_injective_guarded on the real helper: no two lower_snake_case names collide
    seen = {}
    for s, sn in zip(ids, snake):
        if sn != "true" or real_sf.get(s) is None:
            continue
        v = real_sf[s]
        if v in seen and seen[v] != s:
            a, b = seen[v], s
            item = "impl A { pub fn new() -> Self { todo!() } pub fn %s(&self) {} pub fn %s(&self) {} }" % (a, b)
            r = hook.run_batch([("actor", ["", item])], tag="c06n")[0]
            dup = duplicate_variants(r[1][0]) if r[0] == "TOKENS" else None
            rep.oblige(False)
            viol(rep, "names_collision", {"what": "two lower_snake_case method names get the same enum variant (duplicate variant = uncompilable output)",
                          "input": {"attr": "", "item": item}, "expected": "distinct variants", "observed": {"variant": v, "duplicates_in_expansion": dup}}, found=bool(dup))
            break
        seen[v] = s
    else:
        rep.oblige(True)
    rep.sample({"part": "names", "input": "_get__value2_", "model": coq_opt(vals["sf%d" % ids.index("_get__value2_")]), "real": real_sf["_get__value2_"]})


def duplicate_variants(text):
    m = re.search(r"enum \w+ (?:<.*?> )?\{(.*?)\} impl", " ".join(text.split()), re.S)
    if not m:
        return None
    names = re.findall(r"(?:^|,) *(\w+) *[\{\(]", re.sub(r"\{[^{}]*\}", "{}", m.group(1)))
    d = [n for n, c in collections.Counter(names).items() if c > 1]
    return d or None


# ------------------------------------------------------------------ C: generics model + determinism
DOC_RE = re.compile(r'#\s*!?\s*\[\s*doc\s*=\s*"(?:[^"\\]|\\.)*"\s*\]')


def enum_generics(text):
    """names of the generic parameters of the Script enum of a real expansion"""
    t = " ".join(DOC_RE.sub(" ", text).split())
    m = re.search(r"\benum (\w+Script) ", t)
    if not m:
        return None
    i = m.end()
    if t[i] != "<":
        return []
    depth, j, parts, cur = 0, i, [], ""
    while j < len(t):
        c = t[j]
        if c == "<":
            depth += 1
            if depth == 1:
                j += 1
                continue
        elif c == ">":
            depth -= 1
            if depth == 0:
                parts.append(cur)
                break
        if c == "," and depth == 1:
            parts.append(cur); cur = ""
        else:
            cur += c
        j += 1
    out = []
    for p in parts:
        toks = p.replace(":", " : ").split()
        if not toks:
            continue
        out.append(toks[1] if toks[0] == "const" else toks[0])
    return out


def phantom_fields(text):
    t = " ".join(DOC_RE.sub(" ", text).split())
    m = re.search(r"pub struct \w+Live\b.*?\{(.*?)\}", t)
    if not m:
        return None
    return [(int(a), b.strip()) for a, b in re.findall(r"_(\d+) : :: std :: marker :: PhantomData < ([^>]+?) >", m.group(1))]


def direct_where(text):
    """where-predicates (spaces removed) of the generated `fn direct` of a real expansion"""
    t = " ".join(DOC_RE.sub(" ", text).split())
    m = re.search(r"\bfn direct\b(.*?)\{ match self", t)
    if not m:
        return None
    head = m.group(1)
    # skip the parameter list: the where clause follows the last top-level ')'
    depth, end = 0, None
    for k, c in enumerate(head):
        if c == "(":
            depth += 1
        elif c == ")":
            depth -= 1
            if depth == 0:
                end = k
    tail = head[end + 1:] if end is not None else ""
    if "where" not in tail:
        return []
    body = tail.split("where", 1)[1]
    out, cur, d = [], "", 0
    for c in body:
        if c in "<([":
            d += 1
        elif c in ">)]":
            d -= 1
        if c == "," and d == 0:
            out.append(cur); cur = ""
        else:
            cur += c
    out.append(cur)
    return [x.replace(" ", "") for x in out if x.strip()]


def coq_params(gs):
    k = {"type": "KType", "life": "KLife", "const": "KConst"}
    return "[%s]" % "; ".join("{| gp_kind := %s; gp_name := %s |}" % (k[a], cs(n)) for a, n, _ in gs)


def coq_meths(ms):
    k = {"ref": "MRef", "slf": "MSlf", "stat": "MStat"}
    return "[%s]" % "; ".join("{| m_kind := %s; m_localgen := %s; m_sig := [%s] |}" % (k[a], "true" if lg else "false", "; ".join(cs(t) for t in toks if '"' not in t))
                              for a, lg, toks in ms)


def line_wrap_class(progs):
    """known class `includes-line-wrap`: model::to_string_wide (rustc's token printer wraps long signatures) puts a token the macro
    searches for by substring (a generic argument of the impl, or `Self`) at a line boundary, where model::includes / model::replace
    (substring ' T ') do not see it.  Decided with the crate's own to_string_wide on the signature text."""
    jobs, owners = [], []
    for idx, p in enumerate(progs):
        names = [n for k, n, _ in p["generics"] if k != "const"] + ["Self"]
        for m in p["methods"]:
            if m["public"]:
                toks = set(g.sig_tokens(m["sig"]))
                watch = [n for n in names if n in toks]
                if watch:
                    jobs.append(("fn:sig_wide", ["", m["sig"]]))
                    owners.append((idx, m, watch))
                if "Self" in toks and len(names) > 1:
                    sub = re.sub(r"\bSelf\b", p["actor_ty"], m["sig"])        # what GenWork::retain sees after the substitution
                    jobs.append(("fn:sig_wide", ["", sub]))
                    owners.append((idx, m, [n for n in names if n != "Self" and n in set(g.sig_tokens(sub))]))
    out = {}
    if not jobs:
        return out
    res = hook.run_parallel(jobs, tag="c06w")
    for (idx, m, watch), (cls, f) in zip(owners, res):
        if cls != "VALUE":
            continue
        for n in watch:
            if (" %s " % n) not in f[0]:
                out[idx] = (m["name"], n)
    return out


def part_generics(rep, rng, tc_queue):
    n = 300 if rep.tier == "quick" else 2000
    progs = []
    for i in range(n):
        if i % 3 == 1:      # Self-only / Self+literal uses of the impl parameters in reference methods (substitution precedes retain)
            p = g.gen_self_program(rng, "only" if i % 6 == 1 else "mix", options=(i % 2 == 0))
        else:
            p = g.gen_program(rng, family=False, lifetimes=(i % 3 == 0), shapes=["plain", "snake", "digit"], own_names=False, max_gen=4,
                              p_generic=1.0, use_prob=0.6, allow_self_ty=False, options=(i % 2 == 0))
        progs.append(p)
    fams = [g.gen_program(rng, family=True, lifetimes=False, shapes=["plain", "snake"], p_generic=1.0, options=True) for _ in range(n // 4)]
    jobs = [("expand2", [p["kind"], p["attr"], p["item"]]) for p in progs + fams]
    r1 = hook.run_parallel(jobs, tag="c06d1")
    r2 = hook.run_parallel(list(reversed(jobs)), tag="c06d2", shards=5)     # other processes, other order, other sharding
    if r1 is None or r2 is None:
        raise Infra("expand2 batch timed out")
    r2 = list(reversed(r2))
    items, owners = [], []
    for i, (p, (_, f)) in enumerate(zip(progs + fams, r1)):
        rep.evaluations += 1
        c1, t1, c2, t2 = f
        t3 = r2[i][1][1]
        same = (c1 == c2 and t1 == t2 and t1 == t3 and r2[i][1][0] == c1)
        gsig = "".join(k[0] for k, _, _ in p["generics"])
        rep.count("generics", "%dL%dT%dC" % (gsig.count("l"), gsig.count("t"), gsig.count("c")))
        rep.nontrivial.add(("C", p["kind"], p["lib"], gsig))
        if not rep.oblige(same):
            viol(rep, "determinism_%d" % i, {"what": "the same input expanded again gives different code", "input": {"kind": p["kind"], "attr": p["attr"], "item": p["item"]},
                          "expected": "identical token strings (twice in one process, once more in another rustc process)",
                          "observed": {"first": t1[:3000], "second": t2[:3000], "other_process": t3[:3000]}}, found=True)
            continue
        if p["kind"] != "actor" or c1 != "TOKENS":
            continue
        sel = p["selected_sets"][0]
        sty = "[%s]" % "; ".join(cs(t) for t in g.self_ty_tokens(p))
        call = "(impl_gen %s %s (rev (filter nonconst %s)) %s)" % (coq_params(p["generics"]), sty, coq_params(p["generics"]), coq_meths(g.model_methods(p, sel)))
        items.append(("s%d" % i, "mg_script " + call))
        items.append(("p%d" % i, "mg_phantom " + call))
        preds = "[%s]" % "; ".join("[%s]" % "; ".join(cs(t) for t in g.sig_tokens(w)) for w in p["where"])
        items.append(("w%d" % i, "impl_private_preds %s %s (rev (filter nonconst %s)) %s %s" % (
            coq_params(p["generics"]), sty, coq_params(p["generics"]), coq_meths(g.model_methods(p, sel)), preds)))
        if p.get("self_mode"):
            rep.count("self_programs", p["self_mode"])
            rep.nontrivial.add(("C", "self", p["self_mode"], gsig, tuple(sorted(u for m in p["methods"] for u in m["self_use"]))))
        owners.append((i, p, t1))
    vals = {}
    for a in range(0, len(items), 800):
        vals.update(inst.coq_values("C06_generics_%d" % (a // 800), IMPORTS, items[a:a + 800]))
    rep.checker_cmds.append("coqc generated/C06_generics_*.v (vm_compute of impl_gen with the map in reversed order)")
    first_drift = None
    for i, p, text in owners:
        m_script = re.findall(r'"([^"]*)"', vals["s%d" % i])
        m_ph = [(int(a), b) for a, b in re.findall(r'\(\s*(\d+)(?:%nat)?\s*,\s*"([^"]*)"\s*\)', vals["p%d" % i])]
        r_script, r_ph = enum_generics(text), phantom_fields(text)
        m_w = ["".join(re.findall(r'"([^"]*)"', grp)) for grp in re.findall(r"\[([^\[\]]*)\]", vals["w%d" % i])] if vals["w%d" % i].strip() != "[]" else []
        r_w = direct_where(text)
        if m_w:
            rep.count("where_on_private_params", str(len(m_w)))
            rep.nontrivial.add(("C", "where_private", len(m_w), len(p["where"])))
        ok = rep.oblige(r_script == m_script and r_ph == m_ph and r_w == m_w)
        if m_ph:
            rep.nontrivial.add(("C", "phantom", len(m_ph), len(m_script)))
        if i % 29 == 0:
            rep.sample({"part": "generics", "item": p["item"][:200], "model_script": m_script, "model_phantom": m_ph, "real_script": r_script, "real_phantom": r_ph})
        if not ok:
            lt = any(k == "life" for k, _, _ in p["generics"])
            d = {"input": {"kind": "actor", "attr": p["attr"], "item": p["item"], "struct": p["struct"]}, "model": {"script": m_script, "phantom": m_ph, "where_on_direct": m_w},
                 "real": {"script": r_script, "phantom": r_ph, "where_on_direct": r_w}}
            if not lt and g.known_class(p) is None:
                tc_queue.append(("generics_%d" % i, p, d))          # oracle: does rustc accept the real expansion?
            elif first_drift is None:
                first_drift = d
    if first_drift is not None:
        viol(rep, "generics_tie", {"what": "correspondence Gen/Generics.v <-> GenWork / ModelPhantomData no longer checks", "first_difference": first_drift}, found=False)


# ------------------------------------------------------------------ D: totality
def part_totality(rep, rng):
    n = 1500 if rep.tier == "quick" else 10000
    progs = []
    for i in range(n):
        for _ in range(20):        # a nested `_` is rejected with a diagnostic: keep that (legitimate) outcome to ~5% of the corpus
            p = g.gen_program(rng, family=(i % 4 == 3), lifetimes=True, shapes=list(g.NAME_SHAPES), own_names="wide", max_gen=4)
            if not g.nested_wild(p) or rng.random() < 0.1:
                break
        progs.append(p)
    res = hook.run_parallel([(p["kind"], [p["attr"], p["item"]]) for p in progs], tag="c06t", shards=12)
    if res is None:
        raise Infra("totality batch timed out")
    known_seen = 0
    for i, (p, (cls, f)) in enumerate(zip(progs, res)):
        rep.evaluations += 1
        rep.count("result_class", cls)
        rep.count("kind_lib", p["kind"] + "/" + p["lib"])
        for m in p["methods"]:
            rep.count("method_name_shape", m["shape"])
            rep.count("receiver", m["recv"] or "static")
            for _, _, k, _ in m["params"]:
                rep.count("pattern", k)
        for o in p["opts"]:
            rep.count("option", o)
        for c in g.repaired_classes(p):
            rep.count("repaired_class_inputs", c)
        rep.count("ctor", p["ctor"])
        rep.nontrivial.add(("D", p["kind"], p["lib"], tuple(sorted(set(p["opts"]))), cls))
        text = f[0] if f else ""
        bad = None
        if cls == "PANIC":
            bad = "the macro panicked: " + text[:300]
        elif cls == "DIAG" and "Internal Error" in text:
            bad = "diagnostic reports an internal error: " + text[:300]
        elif cls == "LEXERR":
            raise Infra("generator produced unlexable text: " + p["item"])
        elif cls not in ("TOKENS", "DIAG"):
            bad = "unexpected result class " + cls
        if not rep.oblige(bad is None):
            viol(rep, "totality_%d" % i, {"what": bad, "input": {"kind": p["kind"], "attr": p["attr"], "item": p["item"]},
                          "expected": "expansion or a diagnostic about the user's input", "observed": [cls, text[:1500]]}, found=True)
        elif i % 97 == 0:
            rep.sample({"part": "totality", "kind": p["kind"], "attr": p["attr"], "item": p["item"][:160], "class": cls})
    return known_seen


# ------------------------------------------------------------------ E: type-check (exploration level)
S0 = "pub struct A { _z: u8 }"
NEW = "pub fn new() -> Self { todo!() }"
# still-open findings: (kind, attr, struct, item, what fails).  Replayed every run; KNOWN-FINDING while the witness fails AND the class is
# listed in known_findings.txt; a witness that no longer fails (accepted by rustc, or rejected with a diagnostic about the parameters) prints nothing
WITNESSES = {
    "flattened-field-collision": ("actor", "", S0, "impl A { %s pub fn get(&self, (a_b, c): (u8, u8), (a, b_c): (u8, u8)) {} }" % NEW,
                                  "patterns (a_b, c) and (a, b_c) are flattened to the same field a_b_c: rustc E0124/E0415 in the generated code"),
    "param-named-actor": ("actor", "", S0, "impl A { %s pub fn get(&self, actor: u8) -> u8 { actor } }" % NEW,
                          "a parameter named `actor` is captured by the generated `direct(self, actor: &mut A)` arm: rustc E0599 (no method `get` on u8)"),
}
# repaired defects: regression inputs.  expect "compiles" (TOKENS accepted by rustc) or "diag" (a diagnostic that is not an internal error
# and contains every listed word)
S2 = "pub struct A<T, U> { _p: PhantomData<(T, U)> }"
REGRESSIONS = {
    "variant-name-collision": ("actor", "", S0, "impl A { %s pub fn a_b(&self) {} pub fn a_B(&self) {} }" % NEW, ("diag", ["a_b", "a_B"]),
                               "fix_variant_collision: two methods mangled to one variant must be rejected with a diagnostic naming both"),
    "variant-name-collision-lowercase": ("actor", "", S0, "impl A { %s pub fn a_1(&self) {} pub fn get(&self) {} pub fn a1(&mut self, x: u8) -> u8 { x } }" % NEW, ("diag", ["a_1", "a1"]),
                                         "fix_variant_collision (a_1 / a1)"),
    "variant-name-collision-family-member": ("family", 'actor(first_name = "User", include(a_b, a_B)), actor(first_name = "Admin", include(a_b))', S0,
                                             "impl A { %s pub fn a_b(&self) {} pub fn a_B(&self) {} }" % NEW, ("diag", ["a_b", "a_B"]), "fix_variant_collision inside a family member"),
    "variant-no-false-diag": ("family", 'actor(first_name = "User", include(a_b)), actor(first_name = "Admin", include(a_B))', S0,
                              "impl A { %s pub fn a_b(&self) {} pub fn a_B(&self) {} pub fn a__b(&self) {} pub fn ab(x: u8) {} }" % NEW, ("compiles", []),
                              "methods with clashing variant names selected for DIFFERENT models (or static) are fine"),
    "where-on-private-generic-lifetime-bound": ("actor", "", S2, "impl<T, U> A<T, U> where U: 'static { %s pub fn get(&self, t: T) {} }" % NEW, ("compiles", []),
                                                "fix_where_private_generic: where-predicate on a parameter no signature mentions (was E0310)"),
    "where-on-private-generic-trait-bound": ("actor", 'lib = "tokio"', S2, "impl<T, U> A<T, U> where U: Default, T: Clone { %s pub async fn get(&mut self, t: T) -> T { t } }" % NEW, ("compiles", []),
                                             "fix_where_private_generic (was E0599 trait bounds not satisfied)"),
    "where-on-private-generic-mixed-pred": ("family", 'actor(first_name = "User")', S2, "impl<T, U> A<T, U> where T: From<U>, Option<U>: Clone { %s pub fn get(&self, t: T) {} }" % NEW, ("compiles", []),
                                            "fix_where_private_generic: predicate mentioning a script and a private parameter, family member"),
    "family-try-new-option": ("family", 'actor(first_name = "User")', S0, "impl A { pub fn try_new() -> Option<Self> { todo!() } pub fn get(&self) {} }", ("compiles", []),
                              "fix_family_try_new: the family calls the members' `try_new(..)?` (was E0599 no function `new`)"),
    "family-try-new-result": ("family", 'lib = "tokio", channel = 2, debut, actor(first_name = "User"), actor(first_name = "Admin", channel = 0)', "pub struct A<T> { _p: PhantomData<T> }",
                              "impl<T> A<T> { pub fn try_new(v: u8) -> Result<A<T>, &'static str> { todo!() } pub async fn get(&self) -> u8 { 0 } pub fn put(&mut self, t: T) {} }", ("compiles", []),
                              "fix_family_try_new (Result, generic, debut)"),
    "includes-line-wrap-generic": ("actor", "", "pub struct A<Z, T> { _p: PhantomData<(Z, T)> }",
                                   "impl<Z, T> A<Z, T> { pub fn set_key(&mut self, (y, (_u, mut sender)): (u8, (i8, String)), mut receiver: T) -> i8 { todo!() } %s }" % NEW, ("compiles", []),
                                   "d5655e3: generic argument at a line boundary of the printed signature (was E0425)"),
    "includes-line-wrap-self": ("actor", "", S0, "impl A { %s pub fn m3_x(Pt { x: receiver, y: (c, ..) }: Pt, Wr(k2, (count, a)): Wr) -> Self { todo!() } pub fn get(&self) {} }" % NEW, ("compiles", []),
                                "d5655e3: `Self` at a line boundary of the printed signature (was E0308)"),
    "nested-wildcard-pattern": ("actor", "", S0, "impl A { %s pub fn get(&self, [a, _, b]: [u8; 3]) {} }" % NEW, ("diag", ["Unexpected pattern"]),
                                "fix_nested_wildcard_msg: a nested `_` gets the user-facing diagnostic, not \"Internal Error\""),
    "nested-wildcard-pattern-tuple": ("actor", "", S0, "impl A { %s pub fn get(&self, (a, (_, b)): (u8, (u8, u8))) {} }" % NEW, ("diag", ["Unexpected pattern"]),
                                      "fix_nested_wildcard_msg (tuple)"),
}


def replay_witnesses(rep):
    kf = {f.get("class"): f for f in known_findings()["finding"] if f.get("property") == PID}
    allw = [(nm, w, None) for nm, w in sorted(WITNESSES.items())] + [(nm, w[:4] + (w[5],), w[4]) for nm, w in sorted(REGRESSIONS.items())]
    wres = hook.run_batch([(w[0], [w[1], w[3]]) for _, w, _ in allw], tag="c06k")
    comp = {}
    for (nm, w, exp), (cls, f) in zip(allw, wres):
        if cls == "TOKENS":
            key = re.sub(r"\W", "_", nm)
            comp["w_" + key] = g.PRELUDE + w[2] + "\n#[interthread::%s(%s)]\n" % (w[0], w[1]) + w[3] + "\n"
            comp["b_" + key] = g.PRELUDE + w[2] + "\n" + w[3] + "\n"
    # one cargo check per still-open witness (their errors are expected and would hide others), one for all regression inputs together
    errs = {}
    open_keys = {"w_" + re.sub(r"\W", "_", nm) for nm in WITNESSES}
    for k in sorted(k for k in comp if k in open_keys):
        e, _ = typecheck.cargo_check({k: comp[k], "b" + k[1:]: comp["b" + k[1:]]}, sub="wit")
        errs.update(e)
    rest = {k: v for k, v in comp.items() if k not in open_keys and ("w" + k[1:]) not in open_keys}
    if rest:
        e, _ = typecheck.check_fixpoint(rest, sub="wit")
        errs.update(e)
    if any(k.startswith("b_") for k in errs):
        raise Infra("witness user code does not compile: %s" % [k for k in errs if k.startswith("b_")])
    for (nm, w, exp), (cls, f) in zip(allw, wres):
        kind, attr, struct, item, what = w
        key = "w_" + re.sub(r"\W", "_", nm)
        text = f[0] if f else ""
        rep.traces += 1
        inp = {"kind": kind, "attr": attr, "struct": struct, "item": item}
        if exp is None:                                                  # still-open finding
            fails = cls == "PANIC" or (cls == "DIAG" and "Internal Error" in text) or (cls == "TOKENS" and key in errs)
            if fails and nm in kf:
                rep.known_finding("class=%s: %s" % (nm, what))
            elif fails:
                rep.oblige(False)
                viol(rep, "witness_" + nm, {"what": what + " -- recurrence: the class is not (no longer) listed in known_findings.txt", "input": inp,
                                            "observed": errs.get(key, [cls, text[:300]])[:5]}, found=True)
            else:
                rep.notes.append("finding %s no longer reproduces (%s)" % (nm, "accepted by rustc" if cls == "TOKENS" else "rejected with a diagnostic"))
            continue
        mode, words = exp
        if mode == "compiles":
            ok = cls == "TOKENS" and key not in errs
            observed = errs.get(key, [cls, text[:400]])[:5]
        else:
            ok = cls == "DIAG" and "Internal Error" not in text and all(x in text for x in words)
            observed = [cls, text[:600]] if cls != "TOKENS" else ["TOKENS"] + errs.get(key, ["accepted by rustc"])[:4]
        if not rep.oblige(ok):
            viol(rep, "regression_" + nm, {"what": "repaired defect is back: " + what, "input": inp,
                                           "expected": "expansion accepted by rustc" if mode == "compiles" else "a diagnostic about the user's input mentioning %s" % words,
                                           "observed": observed}, found=True)


def part_typecheck(rep, rng, tc_queue):
    n = 240 if rep.tier == "quick" else 1500
    batch = 200
    progs = [g.gen_self_program(rng, "only" if i % 8 == 1 else "mix") if i % 4 == 1 else
             g.gen_mostly_clean(rng, family=(i % 4 == 3), lifetimes=False, shapes=list(g.NAME_SHAPES), own_names=True) for i in range(n)]
    res = hook.run_parallel([(p["kind"], [p["attr"], p["item"]]) for p in progs], tag="c06e", shards=12)
    extra = [(name, p, d) for name, p, d in tc_queue]
    failing_known = collections.Counter()
    for a in range(0, len(progs), batch):
        mods, meta = {}, {}
        for i in range(a, min(a + batch, len(progs))):
            p, (cls, f) = progs[i], res[i]
            mods["b_%d" % i] = g.module_text(p, False)
            if cls == "TOKENS":
                mods["p_%d" % i] = g.module_text(p, True)
                meta["p_%d" % i] = (i, p)
        if a == 0:
            for name, p, d in extra:
                mods["q_" + name] = g.module_text(p, True)
                mods["b_" + name] = g.module_text(p, False)
        errs, _ = typecheck.check_fixpoint(mods, sub="proj")
        rep.checker_cmds.append("cargo check --offline (harness/typecheck, %d modules)" % len(mods))
        gen_bugs = [k for k in errs if k.startswith("b_")]
        if gen_bugs:
            raise Infra("generator self-check failed (user code without the attribute does not compile): %s %s" % (gen_bugs[0], errs[gen_bugs[0]][:2]))
        for k, (i, p) in meta.items():
            rep.evaluations += 1
            rep.traces += 1
            cls_known = g.known_class(p)
            for c in g.repaired_classes(p):
                rep.count("repaired_class_inputs_typechecked", c)
            rep.nontrivial.add(("E", p["kind"], p["lib"], "".join(x[0] for x, _, _ in p["generics"]), p["ctor"], p.get("self_mode")))
            if p.get("self_mode"):
                rep.count("self_programs_typechecked", p["self_mode"])
            if k not in errs:
                rep.oblige(True)
                continue
            if cls_known:
                failing_known[cls_known] += 1
                rep.oblige(True)
                continue
            rep.oblige(False)
            viol(rep, "typecheck_%d" % i, {"what": "the expansion of an in-envelope program does not compile", "input": {"kind": p["kind"], "attr": p["attr"], "struct": p["struct"], "item": p["item"]},
                          "expected": "cargo check accepts the module (it accepts the same module without the attribute)", "observed": errs[k][:6]}, found=True)
        if a == 0:
            for name, p, d in extra:
                bad = ("q_" + name) in errs
                rep.oblige(False)
                d = dict(d)
                d["what"] = "generics partition of the real expansion differs from Gen/Generics.v" + (" and rustc rejects the expansion" if bad else " (rustc accepts the expansion: model drift)")
                d["rustc"] = errs.get("q_" + name, [])[:5]
                viol(rep, name, d, found=bad)
    for c, k in failing_known.items():
        rep.count("failing_in_known_class", c)
    replay_witnesses(rep)


def run(rep):
    rng = random.Random(rep.seed)
    rep.extra["rule"] = RULE
    nthm, problems, _ = property_theorems(PID)
    rep.checker_cmds.append("make -C coq theories/Properties/C06.vo (Print Assumptions must be closed)")
    for _ in range(max(nthm, 1)):
        rep.oblige(not problems)
    bad = hygiene()
    rep.oblige(not bad)
    if problems or bad:
        viol(rep, "theorems", {"what": "property theorem file no longer checks", "problems": problems, "hygiene": bad}, found=False)
    g.ACTIVE_CLASSES = {f.get("class") for f in known_findings()["finding"] if f.get("property") == PID}
    part_names(rep, random.Random(rng.random()))
    tc_queue = []
    part_generics(rep, random.Random(rng.random()), tc_queue)
    part_totality(rep, random.Random(rng.random()))
    part_typecheck(rep, random.Random(rng.random()), tc_queue)
    rep.extra["typecheck_level"] = "exploration (rustc as oracle on a generated corpus; not a proof)"
    rep.assumptions += [
        "Gen/Names.v models strings as bytes: faithful on ASCII identifiers (C06_legal_is_ascii); non-ASCII and raw identifiers are covered by the totality tie only",
        "model::includes on a one-token generic argument is token membership in the signature (Gen/Generics.v `includes`); true of the code since d5655e3 (to_string_wide joins wrapped lines), re-checked by the generics tie and two regression inputs",
        "type-check envelope = PROPERTY statement: type and const generics (no lifetime parameters on the impl), documented parameter patterns (ident, tuple, array/slice, struct, tuple struct), receivers &self / &mut self / self / none, valid option lists without edit/file",
        "parameter names spelled like other generator-owned identifiers (inter_send, inter_recv, inter_msg, debut, play, direct, self_) are used in the totality corpus only, not in the type-check corpus (inter_msg next to a generic method and debut next to the debut option were seen to break compilation; not minimised)",
        "rustc / cargo check is trusted as the oracle for type-checking; each program is also compiled without the attribute (generator self-check)",
    ]


def replay(rep, path):
    d = json.load(open(path))
    inp = d.get("input", {})
    r = hook.run_batch([(inp.get("kind", "actor"), [inp.get("attr", ""), inp.get("item", "")])])[0]
    print(r[0], (r[1][0] if r[1] else "")[:2000])
    return 0
