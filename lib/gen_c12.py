"""C12 corpus: impl blocks / attribute lists that switch every per-runtime path table of the generator on and off,
together with the feature flags the Coq table model (Gen/Paths.v `opts`) is evaluated at, and the manifests."""
import itertools

LIBS = ["std", "tokio", "async_std", "smol"]
COQ_LIB = {"std": "LStd", "tokio": "LTokio", "async_std": "LAsyncStd", "smol": "LSmol"}
CRATES = ["oneshot", "tokio", "async-std", "smol", "async-channel"]
COQ_CRATE = {"oneshot": "COneshot", "tokio": "CTokio", "async-std": "CAsyncStd", "smol": "CSmol", "async-channel": "CAsyncChannel"}
CRATE_OF_COQ = {v: k for k, v in COQ_CRATE.items()}
# SPEC (property text / README compatibility table)
DOCUMENTED = {"std": ["oneshot"], "tokio": ["tokio"], "async_std": ["async-std", "oneshot"], "smol": ["smol", "async-channel", "oneshot"]}
ROOT = {"oneshot": "oneshot", "tokio": "tokio", "async-std": "async_std", "smol": "smol", "async-channel": "async_channel"}
BASE_ROOTS = ["std", "core"]
PRELUDE = ["Self", "Option", "Result", "Box", "String", "Vec", "Some", "None", "Ok", "Err", "Default", "Clone", "Into", "From",
           "Iterator", "ToString", "Send", "Sync", "Sized", "Copy", "Drop", "Fn", "FnMut", "FnOnce"]


def one_path(lib):
    return "tokio::sync::oneshot" if lib == "tokio" else "oneshot"


def lock_paths(lib, lock, rng):
    """one of the receiver spellings the macro recognises for `actor: &Arc<Lock<Self>>`"""
    if rng is None:          # plain spellings (used where the program is also compiled by rustc)
        return "Arc", lock
    arc = rng.choice(["Arc", "std::sync::Arc", "::std::sync::Arc", "sync::Arc"])
    lk = rng.choice(["%s", "sync::%s", ("std" if lib == "std" else lib) + "::sync::%s"]) % lock
    return arc, lk


# method pool: name -> (text builder, kind); kind in void|in|out|io|gvoid|gout|agen|asy|stat|priv|slf_ok|slf_raw|cs|cr|getter|upath|fstat_out|fstat_void
def method_text(name, lib, fam_lock=None, rng=None):
    one = one_path(lib)
    T = {
        "void": "pub fn inc(&mut self) {}",
        "in": "pub fn add(&mut self, (a, b): (i8, i8), c: u8) {}",
        "out": "pub fn get(&self) -> i8 { 0 }",
        "io": "pub(crate) fn io(&self, n: i8, s: String) -> i8 { n }",
        "gvoid": "pub fn vgen<T: Into<i8> + Send + 'static>(&mut self, t: T) {}",
        "gout": "pub fn gen<T: Into<i8> + Send + 'static>(&mut self, t: T) -> i8 { 0 }",
        "agen": "pub async fn agen<T: Into<i8> + Send + 'static>(&mut self, t: T) {}",
        "asy": "pub async fn asy(&mut self, n: i8) -> i8 { n }",
        "avoid": "pub async fn avoid(&mut self) {}",
        "stat": "pub fn stat(x: u8) -> u8 { x }",
        "priv": "fn private(&self) -> u8 { 0 }",
        "slf_ok": "pub fn fin(self, x: u8) -> Option<i8> { None }",
        "slf_raw": "pub fn raw(self) -> u8 { 0 }",
        "cs": "pub fn cs(&self, k: u8, inter_send: %s::Sender<u8>) {}" % one,
        "cr": "pub fn cr(&mut self, inter_recv: %s::Receiver<u8>) {}" % one,
        "getter": "pub fn gn(&mut self, inter_name: String) -> String { inter_name }",
        "getter_void": "pub fn gv(&mut self, k: u8, inter_name: String) {}",
        "upath": "pub fn res(&self) -> std::io::Result<u8> { Ok(0) }",
        "upath_in": "pub fn dur(&mut self, d: ::core::time::Duration) {}",
    }
    if name in ("fstat_out", "fstat_void"):
        arc, lk = lock_paths(lib, fam_lock, rng)
        if name == "fstat_out":
            return "pub fn sget(actor: &%s<%s<Self>>, k: u8) -> u8 { k }" % (arc, lk)
        return "pub fn sput(actor: &%s<%s<Self>>, k: u8) {}" % (arc, lk)
    return T[name]


REPLY = {"out", "io", "gout", "asy", "getter", "upath", "fstat_out"}
MSG = {"void", "in", "out", "io", "gvoid", "gout", "agen", "asy", "avoid", "cs", "cr", "getter", "getter_void", "upath", "upath_in", "fstat_out", "fstat_void"}
GENERIC = {"gvoid", "gout", "agen"}
FN_NAME = {"void": "inc", "in": "add", "out": "get", "io": "io", "gvoid": "vgen", "gout": "gen", "agen": "agen", "asy": "asy", "avoid": "avoid",
           "stat": "stat", "priv": "private", "slf_ok": "fin", "slf_raw": "raw", "cs": "cs", "cr": "cr", "getter": "gn", "getter_void": "gv",
           "upath": "res", "upath_in": "dur", "fstat_out": "sget", "fstat_void": "sput"}


def flags_of(kinds, lib, bounded, debut, debug, rcvr, generic_actor):
    """option record of Gen/Paths.v for one generated model"""
    slf = any(k in ("slf_ok", "slf_raw") for k in kinds) and rcvr == "RSlf"
    return {"bounded": bounded, "debut": debut, "debug": debug, "rcvr": rcvr,
            "reply": any(k in REPLY for k in kinds), "generic": any(k in GENERIC for k in kinds),
            "amodel": lib != "std", "agen": "agen" in kinds, "slf": slf, "phantom": generic_actor,
            "chan_end": any(k in ("cs", "cr") for k in kinds)}


def coq_opts(f):
    b = lambda x: "true" if x else "false"
    return "(opts_of_bools %s %s %s %s %s %s %s %s %s %s %s)" % (b(f["bounded"]), b(f["debut"]), b(f["debug"]), f["rcvr"], b(f["reply"]),
                                                              b(f["generic"]), b(f["amodel"]), b(f["agen"]), b(f["slf"]), b(f["phantom"]), b(f["chan_end"]))


def or_flags(fs):
    out = dict(fs[0])
    for f in fs[1:]:
        for k, v in f.items():
            if isinstance(v, bool):
                out[k] = out[k] or v
    return out


def impl_text(kinds, lib, generic_actor, ctor, fam_lock=None, rng=None):
    hdr = "impl<Q: Send + 'static> A<Q>" if generic_actor else "impl A"
    ms = [method_text(k, lib, fam_lock, rng) for k in kinds]
    return "%s {\n    %s\n%s\n}" % (hdr, ctor, "\n".join("    " + m for m in ms))


CTORS = ["pub fn new() -> Self { todo!() }", "pub fn new(seed: u32, tag: String) -> Self { todo!() }",
         "pub fn try_new(v: u8) -> Option<Self> { None }", "pub fn try_new(v: u8) -> Result<Self, String> { Err(String::new()) }"]


def pick_kinds(rng, lib, debut, interact, allow_slf=True, family_lock=None):
    pool = ["void", "in", "out", "io", "gvoid", "gout", "stat", "priv", "upath", "upath_in"]
    if lib != "std":
        pool += ["asy", "agen", "avoid"]
    if interact:
        pool += ["cs", "cr"]
        if debut:
            pool += ["getter", "getter_void"]
    if family_lock:
        pool += ["fstat_out", "fstat_void"]
    k = rng.randint(1, min(6, len(pool)))
    kinds = rng.sample(pool, k)
    if not any(x in MSG for x in kinds):
        kinds.append(rng.choice(["void", "in"]))
    if allow_slf and rng.random() < 0.35:
        kinds.append(rng.choice(["slf_ok", "slf_raw"]))
    return kinds


def apply_filter(kinds, flt):
    """effective method kinds of a model under include(..)/exclude(..)"""
    if flt is None:
        return [k for k in kinds if k != "priv"]
    mode, names = flt
    out = []
    for k in kinds:
        if k == "priv":
            continue
        if (FN_NAME[k] in names) == (mode == "include"):
            out.append(k)
    return out


def pick_filter(rng, kinds):
    cand = [k for k in kinds if k in MSG or k in ("stat", "slf_ok", "slf_raw")]
    if len(cand) < 2 or rng.random() < 0.6:
        return None
    names = [FN_NAME[k] for k in rng.sample(cand, rng.randint(1, len(cand) - 1))]
    return (rng.choice(["include", "exclude"]), names)


def filter_text(flt):
    return [] if flt is None else ["%s(%s)" % (flt[0], ", ".join(flt[1]))]


def actor_config(rng, lib, bounded=None, debut=None, debug=None, interact=None, generic_actor=None, kinds=None, use_filter=True):
    bounded = rng.random() < 0.5 if bounded is None else bounded
    debut = rng.random() < 0.5 if debut is None else debut
    debug = rng.random() < 0.4 if debug is None else debug
    interact = rng.random() < 0.4 if interact is None else interact
    generic_actor = rng.random() < 0.25 if generic_actor is None else generic_actor
    kinds = kinds or pick_kinds(rng, lib, debut, interact)
    flt = pick_filter(rng, kinds) if use_filter else None
    parts = ['lib = "%s"' % lib] if (lib != "std" or rng.random() < 0.3) else []
    if bounded:
        parts.append("channel = %d" % rng.choice([1, 2, 5]))
    elif rng.random() < 0.3:
        parts.append("channel = 0")
    parts += (["debut"] if debut else []) + (["Debug"] if debug else []) + (["interact"] if interact else []) + filter_text(flt)
    rng.shuffle(parts)
    eff = apply_filter(kinds, flt)
    f = flags_of(eff, lib, bounded, debut, debug, "RSlf", generic_actor)
    return {"kind": "actor", "lib": lib, "attr": ", ".join(parts), "item": impl_text(kinds, lib, generic_actor, rng.choice(CTORS)),
            "flags": f, "family": False, "kinds": kinds, "eff": eff,
            "label": "actor lib=%s %s" % (lib, ",".join(sorted(k for k, v in f.items() if v is True)))}


def family_config(rng, lib, lock=None, debut=None, nmem=None, plain=False):
    lock = rng.choice(["", "Mutex", "RwLock"]) if lock is None else lock
    debut = rng.random() < 0.5 if debut is None else debut
    rc = "RMutex" if lock == "Mutex" else "RRwLock"
    fam_bounded = rng.random() < 0.5
    generic_actor = rng.random() < 0.2
    kinds = pick_kinds(rng, lib, debut, True, allow_slf=rng.random() < 0.3, family_lock=("Mutex" if lock == "Mutex" else "RwLock"))
    # inter getters need `debut` helpers on the member handle; keep them out of families
    kinds = [k for k in kinds if k not in ("getter", "getter_void")] or ["void"]
    parts = ['lib = "%s"' % lib] if (lib != "std" or rng.random() < 0.3) else []
    parts += ([lock] if lock else []) + (["debut"] if debut else [])
    if fam_bounded:
        parts.append("channel = 3")
    rng.shuffle(parts)
    flags = []
    nmem = nmem or rng.randint(1, 3)
    uses_interact = any(k in ("cs", "cr") for k in kinds)
    for i in range(nmem):
        mparts = ['first_name = "%s"' % "UVW"[i]]
        flt = pick_filter(rng, [k for k in kinds if k not in ("slf_ok", "slf_raw")])   # members ignore self-consuming methods; naming one is rejected
        ch = rng.choice([None, 0, 2])
        bounded = fam_bounded if ch is None else ch > 0
        if ch is not None:
            mparts.append("channel = %d" % ch)
        if uses_interact:
            mparts.append("interact")
        mparts += filter_text(flt)
        eff = apply_filter(kinds, flt)
        flags.append(flags_of(eff, lib, bounded, debut, False, rc, generic_actor))
        parts.append("actor(%s)" % ", ".join(mparts))
    f = or_flags(flags)
    # both channel kinds may occur among members: crate roots do not depend on it
    return {"kind": "family", "lib": lib, "attr": ", ".join(parts), "family": True, "flags": f, "member_flags": flags, "kinds": kinds,
            "item": impl_text(kinds, lib, generic_actor, rng.choice(CTORS[:2]), fam_lock=("Mutex" if lock == "Mutex" else "RwLock"), rng=(None if plain else rng)),
            "label": "family lib=%s lock=%s members=%d %s" % (lib, lock or "default", nmem, ",".join(sorted(k for k, v in f.items() if v is True)))}


def systematic(rng):
    """every lib x bounded x debut x Debug x interact x generic-actor with the full method set; families x locks"""
    cs = []
    for lib in LIBS:
        for bounded, debut, debug, interact in itertools.product((False, True), repeat=4):
            kinds = ["void", "in", "out", "io", "gvoid", "gout", "stat", "priv", "upath", "upath_in"]
            if lib != "std":
                kinds += ["asy", "agen"]
            if interact:
                kinds += ["cs", "cr"] + (["getter"] if debut else [])
            kinds.append("slf_ok" if debug else "slf_raw")
            cs.append(actor_config(rng, lib, bounded, debut, debug, interact, generic_actor=(bounded != debut), kinds=kinds, use_filter=False))
        # minimal programs: no reply, no oneshot anywhere
        for bounded in (False, True):
            cs.append(actor_config(rng, lib, bounded, False, False, False, False, kinds=["void", "in", "stat"], use_filter=False))
        if lib != "smol":
            for lock in ("", "Mutex", "RwLock"):
                for debut in (False, True):
                    cs.append(family_config(rng, lib, lock, debut, nmem=2))
    return cs


def corpus(rng, tier):
    cs = systematic(rng)
    n_act, n_fam = (6, 4) if tier == "quick" else (400, 200)
    for lib in LIBS:
        for _ in range(n_act):
            cs.append(actor_config(rng, lib))
        if lib != "smol":
            for _ in range(n_fam):
                cs.append(family_config(rng, lib))
    return cs


def subsets():
    out = []
    for bits in range(32):
        out.append([c for i, c in enumerate(CRATES) if bits >> i & 1])
    return out


def placements(rng, crates):
    """(deps, dev) splits of one declared set: all under [dependencies], all under [dev-dependencies], a random split"""
    ps = [(list(crates), []), ([], list(crates))]
    if len(crates) >= 2:
        dev = [c for c in crates if rng.random() < 0.5]
        if not dev or len(dev) == len(crates):
            dev = [crates[0]]
        ps.append(([c for c in crates if c not in dev], dev))
    elif len(crates) == 1:
        ps.append((list(crates), list(crates)))      # declared in both sections
    return ps


def coq_manifest(deps, dev):
    return "{| deps := [%s]; dev_deps := [%s] |}" % ("; ".join(COQ_CRATE[c] for c in deps), "; ".join(COQ_CRATE[c] for c in dev))
