(* Generator model, parameter flattening: src/model/method/mod.rs (clear_ref_mut, pat_vars_flat_into_ident, check_flat_ident,
   flat_arguments, get_live_args_and_sig) and name::combined_ident (src/model/name.rs:68-81) - the REPAIRED code: two parameters
   flattened to one identifier, or a flattened pattern producing inter_actor / inter_send / inter_recv, is a naming-conflict diagnostic.
   Definitions only (no proofs), so the model still runs when a proof breaks.

   Transliteration of syn::Pat at the granularity the macro inspects:
     Pat::Ident{by_ref, mutability, ident, subpat}   -> PIdent by_ref mut ident   (the macro reads only `.ident`; `x @ p` is PIdent x)
     Pat::Tuple / TupleStruct / Slice                -> PTuple / PTupleStruct / PSlice over the element patterns
     Pat::Struct{path, fields, rest}                 -> PStruct path field_names field_patterns rest
     Pat::Rest                                       -> PRest
     Pat::Wild, every other variant                  -> PWild, POther text  (the `_ =>` branches) *)
From Coq Require Import List String Ascii Bool.
Import ListNotations.
Open Scope string_scope.

Inductive pat :=
| PIdent (by_ref mut : bool) (x : string)
| PTuple (l : list pat)
| PTupleStruct (path : string) (l : list pat)
| PStruct (path : string) (fields : list string) (l : list pat) (rest : bool)
| PSlice (l : list pat)
| PRest
| PWild
| POther (txt : string).

(* IdentFragment for Ident: an explicit argument of format_ident! loses ONE leading `r#` *)
Definition unraw (s : string) : string := match s with String "r" (String "#" rest) => rest | _ => s end.

(* name::combined_ident (the REPAIRED code): a single identifier is returned as it is (a raw identifier `r#type` stays raw);
   two or more are folded from the left with format_ident!("{}_{}", combined, ident), whose explicit arguments BOTH lose a
   leading `r#` *)
Definition combined (ws : list string) : string :=
  match ws with
  | [] => "__"   (* pat_vars_flat_into_ident pushes `__` before calling combined_ident on an empty vector *)
  | [w] => w
  | w :: t => fold_left (fun acc x => unraw acc ++ "_" ++ unraw x) t w
  end.

(* s does not start with `r#` *)
Definition no_raw (s : string) : bool :=
  match s with
  | String c (String d _) => negb (Ascii.eqb c "r"%char && Ascii.eqb d "#"%char)
  | _ => true
  end.
(* at most one `r#` prefix: what an identifier token can look like *)
Definition ident_like (s : string) : bool := no_raw (unraw s).

(* pat_vars_flat_into_ident: Some ident / None (Pat::Rest) / abort_call_site! *)
Inductive fres := FName (s : string) | FSkip | FAbort.

Fixpoint flat_pat (p : pat) : fres :=
  let fix go (l : list pat) : option (list string) :=      (* elems.iter().filter_map(pat_vars_flat_into_ident) *)
    match l with
    | [] => Some []
    | q :: t => match flat_pat q with
                | FAbort => None
                | FSkip => go t
                | FName s => match go t with Some r => Some (s :: r) | None => None end
                end
    end in
  match p with
  | PIdent _ _ x => FName x
  | PTuple l | PTupleStruct _ l | PSlice l | PStruct _ _ l _ =>
      match go l with Some ws => FName (combined ws) | None => FAbort end
  | PRest => FSkip
  | PWild | POther _ => FAbort
  end.

(* the same list traversal, named, for statements *)
Fixpoint flat_list (l : list pat) : option (list string) :=
  match l with
  | [] => Some []
  | q :: t => match flat_pat q with
              | FAbort => None
              | FSkip => flat_list t
              | FName s => match flat_list t with Some r => Some (s :: r) | None => None end
              end
  end.

(* clear_ref_mut: the nested calls sit in `iter_mut().map(..)` adaptors that are never consumed, so only the top-level
   pattern is touched (and only a top-level unsupported pattern aborts here) *)
Definition clear_ref_mut (p : pat) : option pat :=
  match p with
  | PIdent _ _ x => Some (PIdent false false x)
  | PWild | POther _ => None
  | _ => Some p
  end.

(* string membership *)
Definition smem (x : string) (l : list string) : bool := existsb (String.eqb x) l.
Definition is_ident (p : pat) : bool := match p with PIdent _ _ _ => true | _ => false end.
(* names the generated code binds itself (ConstVars actor / inter_send / inter_recv): a FLATTENED pattern must not produce them
   (check_flat_ident); a plain identifier parameter of that name is handled by the textual reserved-word checks *)
Definition reserved_flat : list string := ["inter_actor"; "inter_send"; "inter_recv"].

Section Args.
Context {T : Type}.   (* parameter types are carried opaquely *)

(* outcome of the flattening: the handle parameters, an abort on an unsupported pattern, or the naming-conflict diagnostic *)
Inductive ares := AOk (qs : list (string * T)) | AAbort | AConflict (x : string).

(* flat_arguments with check_flat_ident: left to right, one PatIdent per parameter; the identifier must not repeat an earlier
   one and a flattened one must not be reserved; `.unwrap()` on a top-level Pat::Rest panics *)
Fixpoint flat_args_from (seen : list string) (ps : list (pat * T)) : ares :=
  match ps with
  | [] => AOk []
  | (p, t) :: r =>
      match flat_pat p with
      | FName s =>
          if smem s seen then AConflict s
          else if negb (is_ident p) && smem s reserved_flat then AConflict s
          else match flat_args_from (s :: seen) r with AOk q => AOk ((s, t) :: q) | e => e end
      | _ => AAbort
      end
  end.
Definition flat_arguments (ps : list (pat * T)) : ares := flat_args_from [] ps.

Fixpoint clean_pats (ps : list (pat * T)) : option (list (pat * T)) :=
  match ps with
  | [] => Some []
  | (p, t) :: r => match clear_ref_mut p with
                   | Some p' => match clean_pats r with Some q => Some ((p', t) :: q) | None => None end
                   | None => None
                   end
  end.

(* if_args_and_clean_pats followed by get_live_args_and_sig: the parameter list of the handle method,
   of the message variant, of the arm pattern and of the user call *)
Definition live_args (ps : list (pat * T)) : ares :=
  match clean_pats ps with Some ps' => flat_arguments ps' | None => AAbort end.

Definition res_names (r : ares) : option (list string) := match r with AOk qs => Some (map fst qs) | _ => None end.
Definition res_class (r : ares) : nat := match r with AOk _ => 0 | AAbort => 1 | AConflict _ => 2 end.
End Args.
Arguments ares : clear implicits.

(* ---- declarative side ---- *)
Fixpoint join (ws : list string) : string :=
  match ws with
  | [] => ""
  | [w] => w
  | w :: t => w ++ "_" ++ join t
  end.

(* the flattened name of a list of words when binders may be raw: a single word is kept as it is, two or more lose their `r#` *)
Definition spec_words (ws : list string) : string := match ws with [w] => w | _ => join (map unraw ws) end.

(* binders of a pattern, left to right *)
Fixpoint binders (p : pat) : list string :=
  match p with
  | PIdent _ _ x => [x]
  | PTuple l | PTupleStruct _ l | PSlice l | PStruct _ _ l _ => flat_map binders l
  | _ => []
  end.

(* words of the flattened name: the binders, except that a composite pattern binding nothing contributes `__` *)
Fixpoint words (p : pat) : list string :=
  match p with
  | PIdent _ _ x => [x]
  | PTuple l | PTupleStruct _ l | PSlice l | PStruct _ _ l _ =>
      match flat_map words l with [] => ["__"] | ws => ws end
  | _ => []
  end.

(* the documented envelope: ident, tuple, array/slice, struct, tuple struct (error::PARAMETERS_ALLOWED_PATTERN_NOTE), `..` inside them *)
Fixpoint supported (p : pat) : bool :=
  match p with
  | PIdent _ _ _ | PRest => true
  | PTuple l | PTupleStruct _ l | PSlice l | PStruct _ _ l _ => forallb supported l
  | PWild | POther _ => false
  end.
Definition is_rest (p : pat) : bool := match p with PRest => true | _ => false end.
Definition supported_param (p : pat) : bool := supported p && negb (is_rest p).

Fixpoint strip_all (p : pat) : pat :=
  match p with
  | PIdent _ _ x => PIdent false false x
  | PTuple l => PTuple (map strip_all l)
  | PTupleStruct q l => PTupleStruct q (map strip_all l)
  | PSlice l => PSlice (map strip_all l)
  | PStruct q f l r => PStruct q f (map strip_all l) r
  | _ => p
  end.

Definition underscore : ascii := "_"%char.
Fixpoint no_us (s : string) : bool :=
  match s with EmptyString => true | String c r => negb (Ascii.eqb c underscore) && no_us r end.
(* no binder contains `_` and no composite pattern is empty *)
Definition plain_words (ps : list pat) : bool := forallb (fun p => forallb no_us (words p)) ps.
