"""C05 support: impl-block grammar, transliteration of (attribute, impl) into terms of IT.Gen.Classify, projection of real
expansions, the property's oracle, and a reader for printed Coq values."""
import re, itertools
import rs, ir
from coqgen import s as cs, b as cb, lst as clst, opt as copt

LIBS = ["std", "tokio", "async_std", "smol"]
GENERATED = ("new", "try_new", "inter_play_stop", "inter_get_debut", "inter_get_count", "inter_set_name", "inter_get_name")
MODEL_BOUNDS = {"Send", "Sync", "'static"}

# ------------------------------------------------------------------------------------------------
# grammar
# ------------------------------------------------------------------------------------------------
METHOD_NAMES = ["inc", "add", "get", "put", "swap", "reset", "total", "push", "peek", "mix", "scan", "fold_it", "at_most", "q1", "zed", "Mixed", "_lead"]
PNAMES = ["a", "b", "c", "x", "y", "n", "val", "key", "item", "count"]
PTYPES = ["i8", "u32", "String", "Vec<u8>", "Option<u8>", "&'static str", "[u8; 3]", "Self", "Vec<Self>", "Option<Box<Self>>", "&Self",
          "fn(u8) -> u8", "std::collections::HashMap<String, Self>", "bool", "[u8; Self::N]", "Vec<Self::Item>", "Self::Item", "(Self, [u8; Self::N])"]
RTYPES = ["i8", "u32", "String", "Vec<u8>", "Option<u8>", "(u8, i8)", "bool", "Self", "Option<Self>", "Result<u8, String>", "Result<Self, &'static str>",
          "Vec<Self>", "Box<dyn Fn(u8) -> Self + Send>", "[u8; Self::N]", "Option<Self::Item>", "Result<Self, Self::Err>"]
SLF_RETS = [None, "u8", "Option<u8>", "Result<u8, String>", "Result<u8, &'static str>", "Result<u8, std::io::Error>", "std::option::Option<Self>",
            "::std::result::Result<u8, String>"]
VIS = ["", "pub", "pub", "pub", "pub", "pub(crate)", "pub(super)", "pub(in crate)"]
DOCS = [[], [], ["/// plain line"], ["///  two  spaces, and a 'quote'", "/// second line"], ['#[doc = "attribute form"]'], ["/** block doc */"],
        ["/** multi\n     line\n     block */"], ["/// mixed", '#[doc = "forms"]', "/// here"], ["///"]]
GENERICS = [("", "", []), ("", "", []), ("", "", []), ("<T: Into<u8>>", "", ["gq: T"]), ("<T>", "where T: Clone + Send", ["gq: T"]),
            ("<T: Send + Sync + 'static, U>", "", ["gq: T", "gu: Vec<U>"]), ("<'a>", "", ["s: &'a str"]), ("<const N: usize>", "", ["arr: [u8; N]"]),
            ("<T>", "where T: Into<String>, Vec<T>: Clone", ["gq: T"])]
FIRST_NAMES = ["User", "Admin", "SuperUser", "X", "Io2", "ABc"]


def lock_spellings(lib, lock, ty):
    arcs = ["std::sync::Arc", "sync::Arc", "Arc", "::std::sync::Arc"]
    locks = ["%s::sync::%s" % (lib, lock), "sync::%s" % lock, lock] + (["::std::sync::%s" % lock] if lib == "std" else [])
    return ["%s<%s<%s>>" % (a, l, ty) for a in arcs for l in locks]


def gen_params(rng, k):
    names = list(PNAMES)
    rng.shuffle(names)
    out = []
    for _ in range(k):
        r = rng.random()
        if r < 0.75:
            nm = names.pop()
            out.append("%s%s: %s" % ("mut " if rng.random() < 0.2 else "", nm, rng.choice(PTYPES)))
        else:
            out.append("(%s, %s): (u8, %s)" % (names.pop(), names.pop(), rng.choice(["i8", "Self", "String"])))
    return out


def gen_method(rng, name, ctx):
    """ctx: lib, family (bool), lock ('RwLock'|'Mutex'), actor (type text)"""
    fam = ctx["family"]
    kinds = ["ref"] * 4 + ["mut"] * 4 + ["stat"] * 2 + ["val", "mutval"]
    if fam:
        kinds += ["conv_ref"] * 3 + ["conv_miss", "conv_other"]
    else:
        kinds += ["actor_param"]
    kind = rng.choice(kinds)
    vis = rng.choice(VIS)
    gen, where, gparams = rng.choice(GENERICS)
    is_async = rng.random() < 0.25
    docs = rng.choice(DOCS)
    params = gen_params(rng, rng.choice([0, 0, 1, 1, 2, 3])) + list(gparams)
    ret = rng.choice([None, None] + RTYPES)
    first = None
    if kind == "ref":
        first = "&self"
    elif kind == "mut":
        first = "&mut self"
    elif kind == "val":
        first, ret = "self", rng.choice(SLF_RETS)
    elif kind == "mutval":
        first, ret = "mut self", rng.choice(SLF_RETS)
    elif kind == "conv_ref":
        first = "actor: &%s" % rng.choice(lock_spellings(ctx["lib"], ctx["lock"], rng.choice([ctx["actor"], "Self"])))
    elif kind == "conv_miss":   # right shape, other lock / other type: an ordinary static method
        other = "Mutex" if ctx["lock"] == "RwLock" else "RwLock"
        first = "actor: &%s" % rng.choice(lock_spellings(ctx["lib"], other, "Self") + ["Arc<u8>", "Box<%s>" % ctx["actor"]])
    elif kind == "conv_other":  # another first parameter name with the receiver type: static
        first = "handle: &%s" % rng.choice(lock_spellings(ctx["lib"], ctx["lock"], "Self"))
    elif kind == "actor_param":  # a parameter merely named `actor`
        first = "actor: %s" % rng.choice(["u8", "String", "&'static str", "Vec<u8>"])
    plist = ([first] if first else []) + params
    # ordinary (non-doc) attributes the user may put on a method: the user's impl block is emitted with them, unchanged
    uattr = rng.choice(["", "", "", "#[inline]\n    ", "#[allow(unused_variables)]\n    ", "#[track_caller]\n    ", "#[cfg(all())]\n    ", "#[must_use]\n    " if ret else ""])
    if is_async and "track_caller" in uattr:
        uattr = "#[inline]\n    "
    txt = "%s%s%s%s%sfn %s%s(%s)%s %s { todo!() }" % (
        "".join(d + "\n    " for d in docs), uattr, vis, " " if vis else "", "async " if is_async else "", name, gen, ", ".join(plist),
        (" -> " + ret) if ret else "", where)
    return {"name": name, "kind": kind, "text": txt}


CTORS = ["pub fn new() -> Self { todo!() }", "pub fn new(seed: u32, tag: String) -> Self { todo!() }", "pub(crate) fn new(v: u8) -> Self { todo!() }",
         "pub fn try_new(v: u8) -> Option<Self> { None }", "pub fn try_new(v: u8) -> Result<Self, String> { todo!() }",
         "/// makes one\n    pub fn new((p, q): (u8, u8)) -> Self { todo!() }"]
HEADERS = [("impl A", "A"), ("impl A", "A"), ("impl A", "A"), ("impl<Q: Send + 'static> A<Q>", "A<Q>"), ("impl crate::A", "crate::A"), ("impl Engine2", "Engine2")]


def gen_impl(rng, lib, family=False, lock="RwLock", nmax=8):
    hdr, actor = rng.choice(HEADERS)
    k = rng.randint(1, nmax)
    names = rng.sample(METHOD_NAMES, k)
    ctx = {"lib": lib, "family": family, "lock": lock, "actor": actor}
    ms = [gen_method(rng, n, ctx)["text"] for n in names]
    ms.insert(rng.randint(0, len(ms)), rng.choice(CTORS))
    if rng.random() < 0.15:
        ms.insert(rng.randint(0, len(ms)), "fn helper_priv(&self, z: u8) -> u8 { z }")
    item = "%s {\n%s\n}" % (hdr, "\n".join("    " + m for m in ms))
    return item


# ------------------------------------------------------------------------------------------------
# reading an impl block (input text or re-emitted user item) with the same recogniser as the expansions
# ------------------------------------------------------------------------------------------------
def canon_tokens(flat):
    """string literals by value (rustc prints a doc comment's newline as \\n, the lexer keeps it raw)"""
    out = []
    for t in flat:
        if t.startswith('"') and t.endswith('"') and len(t) >= 2:
            t = '"' + rs.lit_str(rs.Tok("lit", t)).replace("\\t", "\t") + '"'
        out.append(t)
    return out


def toks_of(text):
    return rs.flat(rs.parse(text)) if text else []


def read_impl(item_text):
    items = ir.split_items(rs.parse(item_text))
    it = items[0]
    g, trait, ty, where = ir.impl_header(it["header"])
    methods = []
    for mi in ir.split_items(it["body"].sub):
        f = ir.parse_fn(mi)
        if f is None:
            if not any(rs.is_id(t, "fn") for t in mi["header"]):
                continue                   # associated consts / types: not looked at by the macro
            raise ValueError("impl item not recognised: " + rs.render(mi["all"]))
        methods.append(f)
    return {"actor_toks": rs.flat(ty), "actor_name": ir.type_name(ty), "methods": methods, "tokens": canon_tokens(rs.flat(it["all"]))}


def vis_of(txt):
    t = txt.replace(" ", "")
    if t == "":
        return ("VInh",)
    if t == "pub":
        return ("VPub",)
    if t == "pub(crate)":
        return ("VCrate",)
    if t == "pub(super)":
        return ("VSuper",)
    m = re.match(r"pub\(in(.*)\)$", t)
    if m:
        return ("VIn", m.group(1))
    raise ValueError("visibility " + txt)


def recv_of(selftxt):
    t = selftxt.replace(" ", "")
    return {"": ("RNone",), "&self": ("RRef", False), "&mutself": ("RRef", True), "self": ("RVal", False), "mutself": ("RVal", True)}[t]


def pat_is_actor(pat):
    return pat.replace("mut ", "").strip() == "actor"


def last_segment_is(toks, name):
    """Type::Path without qself whose last segment ident is `name`; returns the generic argument token lists of that segment"""
    if not toks or toks[0] in ("&", "(", "[", "<", "dyn", "fn", "impl", "*"):
        return None
    depth, top = 0, []
    for i, t in enumerate(toks):
        if t == "<":
            if depth == 0:
                top.append(i)
            depth += 1
        elif t == ">":
            depth -= 1
    if top:
        i = top[-1]
        if toks[-1] != ">" or i == 0 or toks[i - 1] != name:
            return None
        # no further top-level `<` groups before except path segments
        args, cur, d = [], [], 0
        for t in toks[i + 1:-1]:
            if t in ("<", "(", "["):
                d += 1
            elif t in (">", ")", "]"):
                d -= 1
            if t == "," and d == 0:
                args.append(cur)
                cur = []
            else:
                cur.append(t)
        if cur:
            args.append(cur)
        return args
    return [] if toks[-1] == name else None


def slf_compliant(ret_toks):
    """documented compliant return types of a self-consuming method: Option<T>, Result<T, String>, Result<T, &'static str>"""
    if not ret_toks:
        return False
    if last_segment_is(ret_toks, "Option") is not None:
        return True
    a = last_segment_is(ret_toks, "Result")
    if a is not None and len(a) == 2:
        e = a[1]
        if last_segment_is(e, "String") is not None:
            return True
        if len(e) >= 3 and e[0] == "&" and e[1] == "'static" and last_segment_is(e[2:], "str") is not None:
            return True
    return False


class Interner(object):
    """opaque payloads (doc strings, generics text) travel through Coq as short identifiers"""

    def __init__(self):
        self.ids, self.vals = {}, []

    def put(self, v):
        if v not in self.ids:
            self.ids[v] = "k%d" % len(self.vals)
            self.vals.append(v)
        return self.ids[v]

    def get(self, k):
        return self.vals[int(k[1:])]


def gen_text(f):
    g = f["generics"].strip()
    w = f["where"].strip()
    return (g + (" where " + w if w else "")).strip()


def coq_vis(v):
    return v[0] if len(v) == 1 else "(VIn %s)" % cs(v[1])


def coq_ty(toks):
    return clst(toks, cs)


def coq_method(f, intern):
    ps = ["{| p_actor := %s; p_ty := %s |}" % (cb(pat_is_actor(p)), coq_ty(toks_of(t))) for p, t in f["params"]]
    r = recv_of(f["self"])
    recv = r[0] if len(r) == 1 else "(%s %s)" % (r[0], cb(r[1]))
    ret = toks_of(f["ret"])
    g = gen_text(f)
    return ("{| mi_vis := %s; mi_name := %s; mi_async := %s; mi_recv := %s; mi_gen := %s; mi_params := %s; mi_ret := %s; mi_docs := %s; mi_slf_ok := %s |}"
            % (coq_vis(vis_of(f["vis"])), cs(f["name"]), cb(f["async"]), recv, cs(intern.put(g) if g else ""), clst(ps),
               copt(ret if ret else None, coq_ty), clst([intern.put(d) for d in f["docs"]], cs), cb(slf_compliant(ret))))


def coq_filter(flt):
    if flt is None:
        return "None"
    return "(Some (%s %s))" % ("Include" if flt[0] == "include" else "Exclude", clst(flt[1], cs))


COQ_LIB = {"std": "Std", "tokio": "Tokio", "async_std": "AsyncStd", "smol": "Smol"}
COQ_LOCK = {None: "MSlf", "RwLock": "MRwLock", "Mutex": "MMutex"}


def coq_cfg(c, imp):
    return ("{| c_lib := %s; c_recv := %s; c_filter := %s; c_debut := %s; c_actor_ty := %s; c_actor_name := %s; c_name := %s; c_first := %s |}"
            % (COQ_LIB[c["lib"]], COQ_LOCK[c.get("lock")], coq_filter(c.get("filter")), cb(c.get("debut", False)), coq_ty(imp["actor_toks"]),
               cs(imp["actor_name"]), copt(c.get("name"), cs), copt(c.get("first"), cs)))


def coq_fam(c, imp):
    mbs = ["{| mb_first := %s; mb_name := %s; mb_filter := %s |}" % (cs(m["first"]), copt(m.get("name"), cs), coq_filter(m.get("filter"))) for m in c["members"]]
    return ("{| f_lib := %s; f_lock := %s; f_name := %s; f_debut := %s; f_actor_ty := %s; f_actor_name := %s; f_members := %s |}"
            % (COQ_LIB[c["lib"]], COQ_LOCK[c.get("lock")], copt(c.get("name"), cs), cb(c.get("debut", False)), coq_ty(imp["actor_toks"]),
               cs(imp["actor_name"]), clst(mbs)))


COQ_DEFS = """
Definition pj_lm (lm : live_met) := (lm_name lm, lm_vis lm, lm_async lm, lm_recv lm, (lm_params lm, lm_ret lm, lm_docs lm, lm_gen lm, lm_bounds lm)).
Definition pj_out (o : output) := (mi_name (o_new o), o_script o, o_live o, map pj_lm (o_mets o)).
Definition pj (r : res output) := match r with Ok o => Some (pj_out o) | Diag _ => None end.
Definition pjf (r : res fam_out) := match r with Ok o => Some (fo_name o, fo_fields o, map pj_out (fo_models o)) | Diag _ => None end.
"""
COQ_IMPORTS = "From Coq Require Import List String Bool.\nImport ListNotations.\nFrom IT Require Import Gen.Classify.\nOpen Scope string_scope.\n"


# ------------------------------------------------------------------------------------------------
# attribute text
# ------------------------------------------------------------------------------------------------
def filter_text(flt):
    return "" if flt is None else "%s(%s)" % (flt[0], ", ".join(flt[1]))


def actor_attr(c):
    parts = []
    if c["lib"] != "std":
        parts.append('lib = "%s"' % c["lib"])
    if c.get("name"):
        parts.append('name = "%s"' % c["name"])
    if c.get("debut"):
        parts.append("debut")
    if c.get("show"):
        parts.append("show")
    if c.get("filter") is not None:
        parts.append(filter_text(c["filter"]))
    return ", ".join(parts)


def family_attr(c):
    parts = []
    if c["lib"] != "std":
        parts.append('lib = "%s"' % c["lib"])
    if c.get("lock_written"):
        parts.append(c["lock"])
    if c.get("name"):
        parts.append('name = "%s"' % c["name"])
    if c.get("debut"):
        parts.append("debut")
    if c.get("show"):
        parts.append("show")
    for m in c["members"]:
        ps = ['first_name = "%s"' % m["first"]]
        if m.get("show"):
            ps.append("show")
        if m.get("name"):
            ps.append('name = "%s"' % m["name"])
        if m.get("filter") is not None:
            ps.append(filter_text(m["filter"]))
        parts.append("actor(%s)" % ", ".join(ps))
    return ", ".join(parts)


# ------------------------------------------------------------------------------------------------
# reader for printed Coq values: lists, tuples, strings, constructors applied to arguments
# ------------------------------------------------------------------------------------------------
def read_coq(txt):
    pos = [0]
    n = len(txt)

    def ws():
        while pos[0] < n and txt[pos[0]].isspace():
            pos[0] += 1

    def atom():
        ws()
        c = txt[pos[0]]
        if c == '"':
            i = pos[0] + 1
            out = []
            while True:
                if txt[i] == '"':
                    if i + 1 < n and txt[i + 1] == '"':
                        out.append('"')
                        i += 2
                        continue
                    break
                out.append(txt[i])
                i += 1
            pos[0] = i + 1
            return "".join(out)
        if c == "[":
            pos[0] += 1
            xs = []
            ws()
            if txt[pos[0]] == "]":
                pos[0] += 1
                return xs
            while True:
                xs.append(app())
                ws()
                if txt[pos[0]] == ";":
                    pos[0] += 1
                    continue
                assert txt[pos[0]] == "]", txt[pos[0]:pos[0] + 30]
                pos[0] += 1
                return xs
        if c == "(":
            pos[0] += 1
            xs = [app()]
            ws()
            while txt[pos[0]] == ",":
                pos[0] += 1
                xs.append(app())
                ws()
            assert txt[pos[0]] == ")", txt[pos[0]:pos[0] + 30]
            pos[0] += 1
            return xs[0] if len(xs) == 1 else tuple(xs)
        m = re.compile(r"[A-Za-z_][A-Za-z0-9_']*").match(txt, pos[0])
        assert m, txt[pos[0]:pos[0] + 30]
        pos[0] = m.end()
        w = m.group(0)
        return {"true": True, "false": False}.get(w, ("C", w))

    def app():
        h = atom()
        if isinstance(h, tuple) and len(h) == 2 and h[0] == "C":
            args = []
            while True:
                ws()
                if pos[0] >= n or txt[pos[0]] in ");,]":
                    break
                args.append(atom())
            return ("C", h[1]) + tuple(args) if args else h
        return h

    v = app()
    ws()
    assert pos[0] == n, txt[pos[0]:pos[0] + 40]
    return v


def flatten_pairs(t):
    """Coq prints (a, b, c) for nested left pairs; read_coq already returns flat tuples"""
    return t


def con(v):
    """('C', name, args..) -> python value"""
    if isinstance(v, tuple) and v and v[0] == "C":
        if v[1] == "None":
            return None
        if v[1] == "Some":
            return v[2]
        return (v[1],) + tuple(con(x) for x in v[2:])
    return v


def model_projection(printed, intern):
    """printed value of `pj (gen ..)` -> None (Diag) | dict"""
    v = read_coq(printed)
    v = con(v)
    if v is None:
        return None
    return out_projection(v, intern)


def out_projection(v, intern):
    ctor, script, live, mets = v
    out = {"ctor": ctor, "script": script, "live": live, "methods": []}
    for (name, vis, asy, recv, rest) in mets:
        params, ret, docs, gen, bounds = rest
        out["methods"].append({"name": name, "vis": con(vis), "async": asy, "recv": con(recv), "params": [" ".join(p) for p in params],
                               "ret": " ".join(con(ret) or []), "docs": [intern.get(d) for d in docs], "gen": intern.get(gen) if gen else "", "bounds": bounds})
    return out


def family_projection(printed, intern):
    v = con(read_coq(printed))
    if v is None:
        return None
    name, fields, models = v
    return {"family": name, "fields": [tuple(f) for f in fields], "models": [out_projection(m, intern) for m in models]}


# ------------------------------------------------------------------------------------------------
# projection of a real expansion
# ------------------------------------------------------------------------------------------------
def split_preds(where_txt):
    """where clause text -> {bounded type text: set of bounds}"""
    out = {}
    if not where_txt.strip():
        return out
    for p in rs.split_top(rs.parse(where_txt)):
        if not p:
            continue
        col = None
        for i, t in enumerate(p):
            if rs.is_p(t, ":"):
                col = i
                break
        if col is None:
            out.setdefault(rs.render(p), set())
            continue
        bs = set(rs.render(b) for b in rs.split_top(p[col + 1:], sep="+"))
        out.setdefault(rs.render(p[:col]), set()).update(bs)
    return out


def real_method(f):
    r = recv_of(f["self"])
    lrecv = {"RNone": ("LNone",), "RVal": ("LVal",)}.get(r[0], ("LRef", r[1] if len(r) > 1 else False))
    return {"name": f["name"], "vis": vis_of(f["vis"]), "async": f["async"], "recv": lrecv, "params": [" ".join(toks_of(t)) for _, t in f["params"]],
            "ret": " ".join(toks_of(f["ret"])), "docs": [d for d in f["docs"] if "### Interthread Generated Code" not in d],     # `show` appends the listing of the generated code
            "generics": " ".join(toks_of(f["generics"])), "where": split_preds(f["where"]), "attrs": list(f["attrs"])}


def real_projection(mdl):
    li = mdl["live_impl"]
    ms = [m for m in (li["methods"] if li else [])]
    if any("unknown" in m for m in ms):
        return None
    ctors = [m["name"] for m in ms if m["name"] in ("new", "try_new")]
    return {"ctor": ctors, "script": mdl["script"]["name"], "live": mdl["live"]["name"] if mdl["live"] else None,
            "methods": [real_method(m) for m in ms if m["name"] not in GENERATED]}


# ------------------------------------------------------------------------------------------------
# comparison model <-> real (through the C05 projection)
# ------------------------------------------------------------------------------------------------
def in_gen_where(inp_f):
    return " ".join(toks_of(inp_f["generics"])), split_preds(inp_f["where"])


def compare(model, real, inputs):
    """model: projection of the Coq value; real: projection of the expansion; inputs: name -> parse_fn dict of the input impl. Returns list of differences."""
    diffs = []
    if real is None:
        return ["Live impl not recognised"]
    if real["ctor"] != [model["ctor"]]:
        diffs.append("constructor(s) %s, model %s" % (real["ctor"], model["ctor"]))
    if real["script"] != model["script"] or real["live"] != model["live"]:
        diffs.append("type names %s/%s, model %s/%s" % (real["script"], real["live"], model["script"], model["live"]))
    rn, mn = [m["name"] for m in real["methods"]], [m["name"] for m in model["methods"]]
    if rn != mn:
        diffs.append("method list %s, model %s" % (rn, mn))
        return diffs
    for r, m in zip(real["methods"], model["methods"]):
        for k in ("vis", "async", "recv", "params", "ret", "docs"):
            if r[k] != m[k]:
                diffs.append("%s.%s = %r, model %r" % (r["name"], k, r[k], m[k]))
        ig, iw = in_gen_where(inputs[r["name"]])
        if m["gen"] != gen_text(inputs[r["name"]]):
            diffs.append("%s: model generics payload %r is not the input's" % (r["name"], m["gen"]))
        if r["generics"] != ig:
            diffs.append("%s.generics = %r, input %r" % (r["name"], r["generics"], ig))
        extra = where_extra(iw, r["where"])
        if extra is None:
            diffs.append("%s.where lost a bound: %r, input %r" % (r["name"], r["where"], iw))
        elif extra and not m["bounds"]:
            diffs.append("%s.where gained %r, model adds no bounds here" % (r["name"], extra))
        elif extra and not all(b in MODEL_BOUNDS for _, b in extra):
            diffs.append("%s.where gained %r" % (r["name"], extra))
        if r["attrs"]:
            diffs.append("%s carries attributes %r" % (r["name"], r["attrs"]))
    return diffs


def where_extra(inp, out):
    """list of (type, bound) present only in out; None if something of inp is missing"""
    extra = []
    for t, bs in inp.items():
        if t not in out or not bs <= out[t]:
            return None
    for t, bs in out.items():
        for b in sorted(bs - inp.get(t, set())):
            extra.append((t, b))
    return extra


# ------------------------------------------------------------------------------------------------
# the property's oracle: written from the statement of C05 and the crate documentation, evaluated on the REAL output
# ------------------------------------------------------------------------------------------------
def turbofish(actor):
    """the actor path as it must be written in front of `::` (valid in type and in expression position): `A < T >` -> `A :: < T >`"""
    if "<" in actor:
        i = actor.index("<")
        if i > 0 and actor[i - 1] != "::":
            return actor[:i] + ["::"] + actor[i:]
    return list(actor)


def subst_self(toks, actor):
    """`Self` names the actor type on the handle as well: `Self :: X` -> `<actor path> :: X`, `Self` -> actor type"""
    out, i = [], 0
    while i < len(toks):
        if toks[i] == "Self" and i + 1 < len(toks) and toks[i + 1] == "::":
            out += turbofish(actor)
        elif toks[i] == "Self":
            out += actor
        else:
            out.append(toks[i])
        i += 1
    return out


def oracle_receiver(f, c, imp):
    """-> 'ref' | 'mut' | 'val' | 'static' as the documentation describes the method"""
    r = recv_of(f["self"])
    if r[0] == "RRef":
        return "mut" if r[1] else "ref"
    if r[0] == "RVal":
        return "val"
    if c.get("lock") and f["params"]:
        pat, ty = f["params"][0]
        t = toks_of(ty)
        if pat.strip() == "actor" and t[:1] == ["&"] and t[1:2] != ["mut"]:
            elem = " ".join(t[1:])
            accepted = set()
            for a in (" ".join(imp["actor_toks"]), "Self"):
                accepted |= set(" ".join(toks_of(x)) for x in lock_spellings(c["lib"], c["lock"], a))
            if elem in accepted:
                return "ref"
    return "static"


def oracle_expected(c, imp):
    """the methods the handle must expose, in order, with what must hold of each; None when the documentation lets the macro reject the input"""
    names = [f["name"] for f in imp["methods"]]
    flt = c.get("filter")
    exp = []
    for f in imp["methods"]:
        if vis_of(f["vis"]) == ("VInh",):
            continue
        kind = oracle_receiver(f, c, imp)
        if kind == "static" and f["name"] in ("new", "try_new"):
            continue
        if kind == "val" and c.get("lock"):
            continue                       # a family shares the actor: consuming methods are not part of a member
        if flt is not None and ((flt[0] == "include") != (f["name"] in flt[1])):
            continue
        exp.append((f, kind))
    return exp


def oracle(c, imp, real):
    """list of failures of the property on the real projection `real` (a TOKENS outcome)"""
    fails = []
    if real is None:
        return ["no recognisable Live impl"]
    exp = oracle_expected(c, imp)
    en, rn = [f["name"] for f, _ in exp], [m["name"] for m in real["methods"]]
    for n in rn:
        if n not in en:
            fails.append("method `%s` is on the handle but is private / a constructor / filtered out / not in the impl" % n)
    for n in en:
        if n not in rn:
            fails.append("eligible and selected method `%s` is missing from the handle" % n)
    if not fails and en != rn:
        fails.append("handle methods %s are not in the order of the impl block %s" % (rn, en))
    if len(real["ctor"]) != 1:
        fails.append("handle has constructors %s" % real["ctor"])
    base = (c.get("first") or "") + (c.get("name") or imp["actor_name"])
    if real["script"] != base + "Script" or real["live"] != base + "Live":
        fails.append("type names %s / %s, documented %sScript / %sLive" % (real["script"], real["live"], base, base))
    if fails:
        return fails
    actor = imp["actor_toks"]
    for (f, kind), r in zip(exp, real["methods"]):
        n = f["name"]
        ret = toks_of(f["ret"])
        want_vis = vis_of(f["vis"])
        if kind == "val" and not (c.get("debut") and slf_compliant(ret)):
            want_vis = ("VInh",)
        if r["vis"] != want_vis:
            fails.append("%s: visibility %s, expected %s" % (n, r["vis"], want_vis))
        want_async = f["async"] if kind == "static" else (c["lib"] != "std" or f["async"])
        if r["async"] != want_async:
            fails.append("%s: async = %s, expected %s (lib = %s, user method async = %s, receiver %s)" % (n, r["async"], want_async, c["lib"], f["async"], kind))
        want_recv = {"ref": ("LRef", False), "mut": ("LRef", True), "val": ("LVal",), "static": ("LNone",)}[kind]
        if r["recv"] != want_recv:
            fails.append("%s: receiver %s, expected %s" % (n, r["recv"], want_recv))
        ps = f["params"][1:] if (kind == "ref" and recv_of(f["self"])[0] == "RNone") else f["params"]
        want_params = [" ".join(subst_self(toks_of(t), actor)) for _, t in ps]
        if r["params"] != want_params:
            fails.append("%s: parameter types %s, expected %s" % (n, r["params"], want_params))
        want_ret = " ".join(subst_self(ret, actor))
        if r["ret"] != want_ret:
            fails.append("%s: return type %r, expected %r" % (n, r["ret"], want_ret))
        if r["docs"] != list(f["docs"]):
            fails.append("%s: doc comments %r, expected %r" % (n, r["docs"], f["docs"]))
        ig, iw = in_gen_where(f)
        if r["generics"] != ig:
            fails.append("%s: generic parameters %r, expected %r" % (n, r["generics"], ig))
        extra = where_extra(iw, r["where"])
        if extra is None:
            fails.append("%s: a bound of the where clause was lost: %r vs %r" % (n, r["where"], iw))
        elif any(b not in MODEL_BOUNDS for _, b in extra):
            fails.append("%s: bounds added beyond Send/Sync/'static: %r" % (n, extra))
        elif extra and kind in ("val", "static"):
            # the thread-safety bounds are what a MESSAGE needs: a self-consuming call runs the user's method on the caller's own thread once the
            # actor is handed back, a static one never touches the actor -- nothing of theirs crosses the channel
            fails.append("%s: bounds %r added to a %s method, whose arguments never cross the channel (the model needs none)" % (n, extra, "self-consuming" if kind == "val" else "static"))
    return fails


def eligible_names(c, imp):
    return [f["name"] for f, _ in oracle_expected(dict(c, filter=None), imp)]


def input_valid(c, imp):
    """inside the documented envelope the macro must expand: filter names known/unique, one constructor, no async &self method under std"""
    el = eligible_names(c, imp)
    flt = c.get("filter")
    if flt is not None:
        if len(set(flt[1])) != len(flt[1]) or any(n not in el for n in flt[1]):
            return False
    if not any(f["name"] in ("new", "try_new") and recv_of(f["self"])[0] == "RNone" and vis_of(f["vis"]) != ("VInh",) for f in imp["methods"]):
        return False
    for f, kind in oracle_expected(dict(c, filter=None), imp):
        if c["lib"] == "std" and kind in ("ref", "mut") and f["async"]:
            return False
        if c.get("lock") and f["params"] and pat_is_actor(f["params"][0][0]) and toks_of(f["params"][0][1])[:2] == ["&", "mut"]:
            return False                   # documented: `actor: &mut Arc<..>` is not acceptable
    return True


def subsets(names, rng, limit_exhaustive=5, sample=12):
    if len(names) <= limit_exhaustive:
        out = []
        for k in range(len(names) + 1):
            for s in itertools.combinations(names, k):
                s = list(s)
                rng.shuffle(s)
                out.append(s)
        return out, True
    out = [[], list(names)]
    for _ in range(sample):
        s = [n for n in names if rng.random() < 0.5]
        rng.shuffle(s)
        out.append(s)
    return out, False
