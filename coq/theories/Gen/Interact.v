(* Generator model of the `interact` option: which parameters of an actor method are inter variables,
   what the handle method's signature / pre-statements / message fields / returned end become.
   Mirrors src/model/argument/interact.rs (get_variables, some_inter_var, oneshot_get_type, InterVars::insert / check /
   get_getters_decl, check_send_recv), src/model/method/mod.rs (pat_vars_flat_into_ident, flat_arguments) and the
   Io / I branches of src/model/method/cont.rs.  Definitions only. *)
From Coq Require Import List String Ascii Bool Arith.
Import ListNotations.
Open Scope string_scope.

(* ---- input ---- *)
(* parameter patterns after `clear_ref_mut`: identifier, `..`, or a tuple / tuple-struct / struct / slice node *)
Inductive pat := PId (x : string) | PRest | PNode (l : list pat).
(* first generic argument of the last path segment, as `oneshot_get_type` inspects it *)
Inductive targ := ANone | AEmpty | ATy (t : string) | ANotTy.
(* a parameter type: a path type (whole text, identifier of the last segment, its argument) or anything else *)
Inductive ty := TPath (txt : string) (last : string) (arg : targ) | TOther (txt : string).
Definition param := (pat * ty)%type.

Inductive endk := ESend | ERecv.
Definition opp (k : endk) := match k with ESend => ERecv | ERecv => ESend end.
Definition end_name (k : endk) := match k with ESend => "inter_send" | ERecv => "inter_recv" end.
Definition end_type_name (k : endk) := match k with ESend => "Sender" | ERecv => "Receiver" end.

Inductive diag := DEndInRet | DEndType | DMixed | DBothEnds | DInPattern | DNoInteract | DFlatName | DInterActor.
Inductive pre := PreGet (x g : string) | PreChan (turbo : option string).

Record live_out := {
  lo_params : list (string * ty);          (* parameters of the handle method *)
  lo_ret : option (endk * string);         (* Some (k, a): the return type becomes the k end of a oneshot over a; None: unchanged *)
  lo_pre : list pre;                       (* statements in front of the message construction *)
  lo_fields : list (string * ty);          (* fields of the message variant = arm bindings = arguments of the user call *)
  lo_tail : option endk }.                 (* the end identifier the handle method returns *)
Inductive result := Ok (o : live_out) | Diag (d : diag).

(* ---- strings ---- *)
Fixpoint contains (sub s : string) : bool :=
  prefix sub s || match s with EmptyString => false | String _ t => contains sub t end.
Fixpoint drop (n : nat) (s : string) : string :=
  match n, s with 0, _ => s | S k, String _ t => drop k t | S _, EmptyString => EmptyString end.
Fixpoint join (l : list string) : string :=
  match l with [] => "" | [x] => x | x :: t => x ++ "_" ++ join t end.

(* ---- pat_vars_flat_into_ident ---- *)
Fixpoint flat (p : pat) : option string :=
  match p with
  | PId x => Some x
  | PRest => None
  | PNode l =>
      let vs := (fix go (l : list pat) : list string :=
                   match l with [] => [] | q :: t => match flat q with Some v => v :: go t | None => go t end end) l in
      Some (match vs with [] => "__" | _ => join vs end)
  end.
Definition flat_name (p : pat) : string := match flat p with Some x => x | None => "__" end.
Definition flat_params (ps : list param) : list (string * ty) := map (fun q => (flat_name (fst q), snd q)) ps.

(* leaves of a pattern (what the wide string of the pattern mentions as separate words) *)
Fixpoint leaves (p : pat) : list string :=
  match p with
  | PId x => [x] | PRest => []
  | PNode l => (fix go (l : list pat) : list string := match l with [] => [] | q :: t => (leaves q ++ go t)%list end) l
  end.
Definition mem (x : string) (l : list string) : bool := existsb (String.eqb x) l.
Definition reserved (x : string) : bool := String.eqb x "inter_send" || String.eqb x "inter_recv".

(* ---- some_inter_var / oneshot_get_type ---- *)
Inductive ivar := IEnd (k : endk) (a : string) | IGet (x g : string).
(* the last segment must be named `target` (Sender / Receiver) and carry a type as its first argument *)
Definition oneshot_get_type (t : ty) (target : string) : option string :=
  match t with TPath _ last (ATy a) => if String.eqb last target then Some a else None | _ => None end.
Definition some_inter_var (x : string) (t : ty) (ret : bool) : diag + ivar :=
  if prefix "inter_" x then
    let second := drop 6 x in
    if String.eqb second "send" then
      if ret then inl DEndInRet else match oneshot_get_type t "Sender" with Some a => inr (IEnd ESend a) | None => inl DEndType end
    else if String.eqb second "recv" then
      if ret then inl DEndInRet else match oneshot_get_type t "Receiver" with Some a => inr (IEnd ERecv a) | None => inl DEndType end
    else inr (IGet x ("inter_get_" ++ second))
  else inl DMixed.

(* candidate: an identifier pattern whose name contains "inter_" *)
Definition is_ivar (q : param) : bool := match fst q with PId x => contains "inter_" x | _ => false end.

(* the loop of get_variables: kept parameters and collected inter variables, or the first abort *)
Fixpoint scan (ps : list param) (ret : bool) : diag + (list param * list ivar) :=
  match ps with
  | [] => inr ([], [])
  | q :: t =>
      if is_ivar q then
        match fst q with
        | PId x => match some_inter_var x (snd q) ret with
                   | inl d => inl d
                   | inr v => match scan t ret with inl d => inl d | inr (kept, vs) => inr (kept, v :: vs) end end
        | _ => match scan t ret with inl d => inl d | inr (kept, vs) => inr (q :: kept, vs) end
        end
      else match scan t ret with inl d => inl d | inr (kept, vs) => inr (q :: kept, vs) end
  end.

(* InterVars::insert *)
Fixpoint insert (vs : list ivar) (ch : option (endk * string)) (gs : list (string * string))
  : diag + (option (endk * string) * list (string * string)) :=
  match vs with
  | [] => inr (ch, gs)
  | IEnd k a :: t => match ch with None => insert t (Some (k, a)) gs | Some _ => inl DBothEnds end
  | IGet x g :: t => insert t ch (gs ++ [(x, g)])%list
  end.

(* InterVars::check = check_send_recv over the flattened kept arguments (types assumed not to mention the words) *)
Definition check_kept (kept : list param) : bool := existsb (fun q => reserved (flat_name (fst q))) kept.
(* without `interact`: check_send_recv over the original patterns *)
Definition check_plain (ps : list param) : bool := existsb (fun q => existsb reserved (leaves (fst q))) ps.

Definition plain_out (ps : list param) (ret : bool) : live_out :=
  {| lo_params := flat_params ps; lo_ret := None; lo_pre := if ret then [PreChan None] else [];
     lo_fields := flat_params ps; lo_tail := None |}.

(* get_some_inter_vars and what cont.rs makes of its result *)
Definition gen_inter (interact ret : bool) (ps : list param) : result :=
  if interact then
    match scan ps ret with
    | inl d => Diag d
    | inr (kept, []) => Ok (plain_out ps ret)
    | inr (kept, vs) =>
        match insert vs None [] with
        | inl d => Diag d
        | inr (ch, gs) =>
            if check_kept kept then Diag DInPattern else
            let gets := map (fun g => PreGet (fst g) (snd g)) gs in
            Ok {| lo_params := flat_params kept;
                  lo_ret := match ch with Some (k, a) => Some (opp k, a) | None => None end;
                  lo_pre := if ret then PreChan None :: gets
                            else (gets ++ match ch with Some (_, a) => [PreChan (Some a)] | None => [] end)%list;
                  lo_fields := flat_params ps;
                  lo_tail := match ch with Some (k, _) => Some (opp k) | None => None end |}
        end
    end
  else if check_plain ps then Diag DNoInteract else Ok (plain_out ps ret).

(* ---- naming checks that run before the interact rules (set_args_inter_vars) ---- *)
(* check_inter_actor: the binder of the actor inside the generated code is `inter_actor` *)
Definition check_actor (ps : list param) : bool := existsb (fun q => existsb (String.eqb "inter_actor") (leaves (fst q))) ps.
(* names the model binds itself; a composite pattern must not flatten to one of them *)
Definition model_reserved (x : string) : bool := String.eqb x "inter_actor" || reserved x.
Definition composite (p : pat) : bool := match p with PId _ => false | _ => true end.
(* check_flat_ident inside flat_arguments, over ALL parameters in order: true = naming conflict *)
Fixpoint flat_check (ps : list param) (seen : list string) : bool :=
  match ps with
  | [] => false
  | q :: t => let x := flat_name (fst q) in
              if mem x seen then true
              else if composite (fst q) && model_reserved x then true
              else flat_check t (x :: seen)
  end.

(* one `&self` / `&mut self` method with at least one typed parameter; ret = the method returns a type *)
Definition gen (interact ret : bool) (ps : list param) : result :=
  if check_actor ps then Diag DInterActor
  else if flat_check ps [] then Diag DFlatName
  else gen_inter interact ret ps.

(* ---- declarative vocabulary of the theorems ---- *)
Definition pname (q : param) : option string := match fst q with PId x => Some x | _ => None end.
Definition is_end_param (q : param) : bool := match fst q with PId x => reserved x | _ => false end.
Definition is_getter_param (q : param) : bool :=
  match fst q with PId x => prefix "inter_" x && negb (reserved x) | _ => false end.
Definition end_of (q : param) : option (endk * ty) :=
  match fst q with
  | PId x => if String.eqb x "inter_send" then Some (ESend, snd q) else if String.eqb x "inter_recv" then Some (ERecv, snd q) else None
  | _ => None end.
Fixpoint declared_end (ps : list param) : option (endk * ty) :=
  match ps with [] => None | q :: t => match end_of q with Some e => Some e | None => declared_end t end end.
Definition getters_of (ps : list param) : list (string * string) :=
  flat_map (fun q => match fst q with
                     | PId x => if prefix "inter_" x && negb (reserved x) then [(x, "inter_get_" ++ drop 6 x)] else []
                     | _ => [] end) ps.
(* an end parameter whose declared type names the end it asks for *)
Definition end_type_named (q : param) : bool :=
  match end_of q with
  | Some (k, TPath _ last _) => String.eqb last (end_type_name k)
  | Some (_, TOther _) => false
  | None => true end.
