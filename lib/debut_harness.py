"""C13 runtime harness: the REAL expansion text compiled next to a scripted mock clock (the paths `::std::time::SystemTime` /
`::std::time::Duration` of the expansion are textually redirected to `crate::mock::..`; nothing else is touched), plus the
same text on the real clock.  One rustc invocation (no dependencies), scenarios are read from stdin, one result line each."""
import os, re, subprocess, hashlib, json
from concurrent.futures import ThreadPoolExecutor
import rs
from common import CACHE, Infra, sh

DIR = os.path.join(CACHE, "c13")

# a generic actor whose type parameter appears in no method signature (the handle carries it in a PhantomData field), no method-level generics
ITEM_G = "impl<Q: Send + Sync + 'static> A<Q> { pub fn new() -> Self { A(0, std::marker::PhantomData) } pub fn inc(&mut self) { self.0 += 1; } pub fn add(&mut self, n: i64) { self.0 += n; } }"
DECL_G = "pub struct A<Q>(pub i64, pub std::marker::PhantomData<Q>);"
# a generic actor whose parameter is used in a method signature (the sole-owner guard of consuming methods relies on the instance count)
ITEM_T = "impl<T: Clone + Send + Sync + 'static> A<T> { pub fn new() -> Self { A(0, Vec::new()) } pub fn put(&mut self, t: T) { self.1.push(t); } }"
DECL_T = "pub struct A<T>(pub i64, pub Vec<T>);"
ITEM = "impl A { pub fn new() -> Self { A(0) } pub fn inc(&mut self) { self.0 += 1; } pub fn add(&mut self, n: i64) { self.0 += n; } pub fn stat(x: u8) -> u8 { x } }"

PRELUDE = r'''
#![allow(warnings)]
use std::io::BufRead;
pub mod mock {
    use std::sync::Mutex;
    use std::cell::Cell;
    #[derive(Clone, Copy, PartialEq, Eq, PartialOrd, Ord, Debug, Hash)]
    pub struct SystemTime(pub u128);
    #[derive(Clone, Copy, PartialEq, Eq, PartialOrd, Ord, Debug)]
    pub struct Duration(pub u128);
    impl Duration {
        pub const fn new(s: u64, n: u32) -> Self { Duration(s as u128 * 1_000_000_000 + n as u128) }
        pub const fn from_nanos(n: u64) -> Self { Duration(n as u128) }
        pub const fn from_micros(n: u64) -> Self { Duration(n as u128 * 1_000) }
        pub const fn from_millis(n: u64) -> Self { Duration(n as u128 * 1_000_000) }
        pub const fn from_secs(n: u64) -> Self { Duration(n as u128 * 1_000_000_000) }
    }
    pub struct Clock { pub script: Vec<u128>, pub pos: usize, pub dflt: u128, pub log: Vec<(u64, usize)> }
    pub static CLOCK: Mutex<Clock> = Mutex::new(Clock { script: Vec::new(), pos: 0, dflt: 0, log: Vec::new() });
    thread_local! { pub static TAG: Cell<u64> = Cell::new(0); }
    // rendezvous mode: the first thread that reads the clock waits (bounded) for a second reader before either of them proceeds;
    // code that reads the clock inside one critical section never lets the second reader arrive
    pub static RDV_ON: std::sync::atomic::AtomicBool = std::sync::atomic::AtomicBool::new(false);
    pub static RDV_N: std::sync::atomic::AtomicUsize = std::sync::atomic::AtomicUsize::new(0);
    pub fn rdv(on: bool) { RDV_N.store(0, std::sync::atomic::Ordering::SeqCst); RDV_ON.store(on, std::sync::atomic::Ordering::SeqCst); }
    fn meet() {
        use std::sync::atomic::Ordering::SeqCst;
        if !RDV_ON.load(SeqCst) { return; }
        let n = RDV_N.fetch_add(1, SeqCst) + 1;
        if n >= 2 { return; }
        let t0 = std::time::Instant::now();
        while RDV_N.load(SeqCst) < 2 && t0.elapsed() < std::time::Duration::from_millis(250) { std::thread::yield_now(); }
        RDV_ON.store(false, SeqCst);
    }
    pub fn set(script: Vec<u128>, dflt: u128) { let mut c = CLOCK.lock().unwrap(); c.script = script; c.pos = 0; c.dflt = dflt; c.log.clear(); }
    // a wait requested by generated code (`std::thread::sleep` is redirected here): recorded, not performed
    pub static SLEPT: Mutex<Vec<u128>> = Mutex::new(Vec::new());
    pub fn sleep(d: Duration) { SLEPT.lock().unwrap().push(d.0); }
    pub fn take_slept() -> Vec<u128> { std::mem::take(&mut *SLEPT.lock().unwrap()) }
    pub fn pos() -> usize { CLOCK.lock().unwrap().pos }
    pub fn log() -> Vec<(u64, usize)> { CLOCK.lock().unwrap().log.clone() }
    impl SystemTime {
        pub const UNIX_EPOCH: SystemTime = SystemTime(0);
        pub fn now() -> SystemTime {
            meet();
            let mut c = CLOCK.lock().unwrap();
            let i = c.pos;
            let v = if i < c.script.len() { c.script[i] } else { c.dflt + (i - c.script.len()) as u128 };
            c.pos = i + 1;
            let tag = TAG.with(|t| t.get());
            c.log.push((tag, i));
            if i > 100000 { eprintln!("mock clock: runaway loop"); std::process::exit(7); }
            SystemTime(v)
        }
    }
    // the rest of the std API a generated body may reasonably use
    #[derive(Debug)]
    pub struct SystemTimeError(pub Duration);
    impl SystemTimeError { pub fn duration(&self) -> Duration { self.0 } }
    impl SystemTime {
        pub fn duration_since(&self, earlier: SystemTime) -> Result<Duration, SystemTimeError> {
            if self.0 >= earlier.0 { Ok(Duration(self.0 - earlier.0)) } else { Err(SystemTimeError(Duration(earlier.0 - self.0))) }
        }
        pub fn checked_add(&self, d: Duration) -> Option<SystemTime> { Some(SystemTime(self.0 + d.0)) }
        pub fn checked_sub(&self, d: Duration) -> Option<SystemTime> { if self.0 >= d.0 { Some(SystemTime(self.0 - d.0)) } else { None } }
    }
    impl Duration {
        pub const ZERO: Duration = Duration(0);
        pub fn as_nanos(&self) -> u128 { self.0 }
        pub fn as_micros(&self) -> u128 { self.0 / 1_000 }
        pub fn as_millis(&self) -> u128 { self.0 / 1_000_000 }
        pub fn as_secs(&self) -> u64 { (self.0 / 1_000_000_000) as u64 }
        pub fn subsec_nanos(&self) -> u32 { (self.0 % 1_000_000_000) as u32 }
        pub fn is_zero(&self) -> bool { self.0 == 0 }
    }
    impl core::ops::Add<Duration> for Duration { type Output = Duration; fn add(self, d: Duration) -> Duration { Duration(self.0 + d.0) } }
    impl core::ops::Sub<Duration> for SystemTime { type Output = SystemTime; fn sub(self, d: Duration) -> SystemTime { SystemTime(self.0 - d.0) } }
    impl core::ops::SubAssign<Duration> for SystemTime { fn sub_assign(&mut self, d: Duration) { self.0 -= d.0; } }
    impl core::ops::AddAssign<Duration> for SystemTime { fn add_assign(&mut self, d: Duration) { self.0 += d.0; } }
    impl core::ops::Add<Duration> for SystemTime { type Output = SystemTime; fn add(self, d: Duration) -> SystemTime { SystemTime(self.0 + d.0) } }
}
pub trait Nanos { fn nanos(&self) -> u128; }
impl Nanos for mock::SystemTime { fn nanos(&self) -> u128 { self.0 } }
impl Nanos for std::time::SystemTime { fn nanos(&self) -> u128 { self.duration_since(std::time::UNIX_EPOCH).unwrap().as_nanos() } }

fn nums(s: &str) -> Vec<u128> { s.split(',').filter(|x| !x.is_empty()).map(|x| x.parse().unwrap()).collect() }
fn ord(o: std::cmp::Ordering) -> i32 { match o { std::cmp::Ordering::Less => -1, std::cmp::Ordering::Equal => 0, std::cmp::Ordering::Greater => 1 } }

// modules that contain only the generated `debut()` (async runtimes: the rest of the expansion needs their crates)
macro_rules! driver_min { () => {
    use crate::Nanos;
    pub fn run(line: &str) -> String {
        let f: Vec<&str> = line.split(' ').collect();
        match f[0] {
            "call" => { crate::mock::set(crate::nums(f[2]), f[1].parse().unwrap()); let h = mk(); format!("{} {}", h.nanos(), crate::mock::pos()) }
            // slept: the waits generated code asked for since the last `slept` (nanoseconds)
            "slept" => { let v: Vec<String> = crate::mock::take_slept().iter().map(|x| x.to_string()).collect(); format!("slept {}", v.join(",")) }
            // conc / concr <k> <dflt> <readings>   k threads call debut() at once (concr: the clock makes the first two readers meet)
            "conc" | "concr" => {
                let k: u64 = f[1].parse().unwrap();
                crate::mock::set(crate::nums(f[3]), f[2].parse().unwrap());
                crate::mock::rdv(f[0] == "concr");
                let bar = std::sync::Arc::new(std::sync::Barrier::new(k as usize));
                let hs: Vec<_> = (1..=k).map(|t| { let b = bar.clone(); std::thread::spawn(move || {
                    crate::mock::TAG.with(|c| c.set(t)); b.wait(); let h = mk(); (t, h.nanos()) }) }).collect();
                let st: Vec<String> = hs.into_iter().map(|h| { let (t, s) = h.join().unwrap(); format!("{}:{}", t, s) }).collect();
                crate::mock::rdv(false);
                st.join(",")
            }
            _ => "?".to_string(),
        }
    }
} }

macro_rules! driver { () => {
    use crate::Nanos;
    pub fn run(line: &str) -> String {
        let f: Vec<&str> = line.split(' ').collect();
        match f[0] {
            // call <dflt> <readings>            one constructor call on its own script
            "call" => {
                crate::mock::set(crate::nums(f[2]), f[1].parse().unwrap());
                let h = mk();
                format!("{} {}", h.inter_get_debut().nanos(), crate::mock::pos())
            }
            "slept" => { let v: Vec<String> = crate::mock::take_slept().iter().map(|x| x.to_string()).collect(); format!("slept {}", v.join(",")) }
            // conc <k> <dflt> <readings>        k threads call the constructor at once, one shared script
            "conc" => {
                let k: u64 = f[1].parse().unwrap();
                crate::mock::set(crate::nums(f[3]), f[2].parse().unwrap());
                let bar = std::sync::Arc::new(std::sync::Barrier::new(k as usize));
                let hs: Vec<_> = (1..=k).map(|t| { let b = bar.clone(); std::thread::spawn(move || {
                    crate::mock::TAG.with(|c| c.set(t)); b.wait(); let h = mk(); (t, h.inter_get_debut().nanos()) }) }).collect();
                let st: Vec<String> = hs.into_iter().map(|h| { let (t, s) = h.join().unwrap(); format!("{}:{}", t, s) }).collect();
                let lg: Vec<String> = crate::mock::log().iter().map(|(t, i)| format!("{}:{}", t, i)).collect();
                format!("{} | {}", st.join(","), lg.join(","))
            }
            // real <threads> <per_thread>       real clock: all stamps distinct, increasing per thread
            "real" => {
                let k: u64 = f[1].parse().unwrap(); let n: usize = f[2].parse().unwrap();
                let bar = std::sync::Arc::new(std::sync::Barrier::new(k as usize));
                let hs: Vec<_> = (0..k).map(|_| { let b = bar.clone(); std::thread::spawn(move || {
                    b.wait(); let mut v = Vec::new(); for _ in 0..n { let h = mk(); v.push(h.inter_get_debut().nanos()); } v }) }).collect();
                let mut all = Vec::new(); let mut mono = true;
                for h in hs { let v = h.join().unwrap(); for w in v.windows(2) { if !(w[0] < w[1]) { mono = false; } } all.extend(v); }
                let total = all.len(); all.sort(); all.dedup();
                format!("{} {} {}", total, all.len(), mono)
            }
            // hist <dflt> <readings> <ops>      ops: N | C<i> | D<i> | R<i>=<name>   (indices into the live list, newest first)
            "hist" => {
                crate::mock::set(crate::nums(f[2]), f[1].parse().unwrap());
                let mut live: Vec<H> = Vec::new();
                for op in f[3].split(',').filter(|x| !x.is_empty()) {
                    let (c, rest) = op.split_at(1);
                    match c {
                        "N" => { live.insert(0, mk()); }
                        "C" => { let i: usize = rest.parse().unwrap(); if i < live.len() { let h = live[i].clone(); live.insert(0, h); } }
                        "D" => { let i: usize = rest.parse().unwrap(); if i < live.len() { live.remove(i); } }
                        "R" => { let mut p = rest.splitn(2, '='); let i: usize = p.next().unwrap().parse().unwrap(); let nm = p.next().unwrap();
                                 if i < live.len() { live[i].inter_set_name(nm); } }
                        _ => {}
                    }
                }
                let hs: Vec<String> = live.iter().map(|h| format!("{}:{}:{}", h.inter_get_debut().nanos(), h.inter_get_count(), h.inter_get_name())).collect();
                let mut m = Vec::new();
                for a in live.iter() { for b in live.iter() {
                    let pc = match a.partial_cmp(b) { Some(o) => crate::ord(o).to_string(), None => "n".to_string() };
                    m.push(format!("{}{}{}{}{}{}:{}:{}", (a == b) as u8, (a != b) as u8, (a < b) as u8, (a <= b) as u8, (a > b) as u8, (a >= b) as u8, crate::ord(a.cmp(b)), pc));
                } }
                format!("{} | {} | {}", hs.join(","), m.join(","), crate::mock::pos())
            }
            _ => "?".to_string(),
        }
    }
} }
'''

MAIN = r'''
fn main() {
    let which = std::env::args().nth(1).unwrap();
    let stdin = std::io::stdin();
    for line in stdin.lock().lines() {
        let line = line.unwrap();
        if line.trim().is_empty() { continue; }
        let out = match which.as_str() { %s _ => "?".to_string() };
        println!("{}", out);
    }
}
'''


def retarget(text, mock):
    """normalise token spacing; redirect the clock paths when mock"""
    t = rs.render(rs.parse(text))
    if mock:
        t = re.sub(r"(:: )?\bstd :: time :: (SystemTime|Duration)\b", r"crate :: mock :: \2", t)
        t = re.sub(r"(:: )?\bstd :: thread :: sleep\b", r"crate :: mock :: sleep", t)
    return t


def build(mods):
    """mods: list of (name, expansion text, mock?, handle type, constructor expression). Returns path of the binary.
    A compile error of the generated code is data: raises CompileError."""
    os.makedirs(DIR, exist_ok=True)
    parts = [PRELUDE]
    arms = []
    for mod in mods:
        name, text, mock, hty, ctor = mod[:5]
        decl = mod[5] if len(mod) > 5 else "pub struct A(pub i64);"
        if hty == "DEBUT-ONLY":
            # text = the generated `fn debut() -> SystemTime { .. }` alone
            parts.append("pub mod %s {\n pub struct S;\n impl S { %s }\n pub fn mk() -> crate::mock::SystemTime { S::debut() }\n driver_min!();\n}\n" % (name, retarget(text, True)))
        else:
            parts.append("pub mod %s {\n %s\n %s\n pub type H = %s;\n pub fn mk() -> H { %s }\n driver!();\n}\n" % (name, decl, retarget(text, mock), hty, ctor))
        arms.append('"%s" => %s::run(&line),' % (name, name))
    parts.append(MAIN % " ".join(arms))
    src = "\n".join(parts)
    key = hashlib.sha1(src.encode()).hexdigest()[:12]
    srcp = os.path.join(DIR, "h_%s.rs" % key)
    binp = os.path.join(DIR, "h_%s" % key)
    if os.path.exists(binp):
        return binp
    open(srcp, "w").write(src)
    rc, out = sh(["rustc", "--edition", "2021", "-C", "debuginfo=0", "-C", "opt-level=0", "-o", binp, srcp], timeout=600)
    if rc != 0:
        raise CompileError(out[-4000:])
    return binp


class CompileError(Exception):
    pass


def run(binp, mod, lines, timeout=120):
    """one process; returns list of output lines (None on crash / timeout)"""
    try:
        r = subprocess.run([binp, mod], input="\n".join(lines) + "\n", stdout=subprocess.PIPE, stderr=subprocess.PIPE, text=True, timeout=timeout)
    except subprocess.TimeoutExpired as e:
        part = e.stdout or ""
        if isinstance(part, bytes):
            part = part.decode("utf-8", "replace")
        return part.splitlines(), "timeout"
    out = r.stdout.splitlines()
    if r.returncode != 0 or len(out) != len(lines):
        return out, "exit %d: %s" % (r.returncode, r.stderr[-400:])
    return out, None


def run_many(binp, jobs, workers=8, timeout=120):
    """jobs: list of (mod, lines) -> list of (out, err)"""
    with ThreadPoolExecutor(workers) as ex:
        return list(ex.map(lambda j: run(binp, j[0], j[1], timeout), jobs))


def debut_fn_text(expansion):
    """text of the generated `fn debut` of the (first) script impl of an expansion, or None"""
    import ir
    ex = ir.parse_expansion(expansion)
    toks = rs.parse(expansion)
    flat = rs.render(toks)
    i = flat.find("fn debut (")
    if i < 0:
        return None
    j = flat.find("{", i)
    depth, k = 0, j
    while k < len(flat):
        if flat[k] == "{":
            depth += 1
        elif flat[k] == "}":
            depth -= 1
            if depth == 0:
                break
        k += 1
    return "pub " + flat[i:k + 1]


def clone_count_probe(hook):
    """the instance counter of generic handles: expansions of ITEM_G / ITEM_T (debut) compiled next to the mock clock, history
    `new, clone, clone, drop`; returns list of (label, attr, item, observed line, problem) - empty when every count equals the number of live handles"""
    jobs = [("actor", ["debut", ITEM_G]), ("actor", ["debut, channel = 2", ITEM_T])]
    res = hook.run_batch(jobs, tag="cntp")
    mods, meta = [], []
    for k, ((kind, (attr, item)), (cls, f)) in enumerate(zip(jobs, res)):
        if cls != "TOKENS":
            continue
        mods.append(("c%d" % k, f[0], True, "ALive<u8>" if item is ITEM_G else "ALive<String>", "ALive::<u8>::new()" if item is ITEM_G else "ALive::<String>::new()",
                     DECL_G if item is ITEM_G else DECL_T))
        meta.append((attr, item))
    if not mods:
        return []
    binp = build(mods)
    out = []
    for (name, *_), (attr, item) in zip(mods, meta):
        lines = ["hist 5000 1000 N,C0,C0", "hist 5000 1000 N,C0,C0,D1", "hist 5000 1000 N,N,C1"]
        want = [[3, 3, 3], [2, 2], [2, 1, 2]]     # live list is newest first: N,N,C1 = [clone of the first actor, second actor, first actor]
        res, err = run(binp, name, lines)
        if err:
            out.append((name, attr, item, str(err), "harness: " + str(err)))
            continue
        for line_in, line, w in zip(lines, res, want):
            counts = [int(h.split(":")[1]) for h in line.split(" | ")[0].split(",") if h]
            if counts != w:
                out.append((name, attr, item, line_in + " -> " + line, "instance counts %s after the history %s, expected %s (every live handle of one actor counts all its live clones)" % (counts, line_in.split()[-1], w)))
    return out
