(* C04 -- one construction, draining shutdown, single drop of the actor.  Statements only. *)
From Coq Require Import List Arith Bool Lia.
Import ListNotations.
From IT Require Import Sdpl.IR Sdpl.Elab Sdpl.Wf Runtime.Actor Runtime.ActorInv Runtime.InvDefs Runtime.InvDefs2 Runtime.InvSeq
  Runtime.Combined Runtime.InvDrain.

Section C04.
Context {A V : Type} (sem : nat -> A -> list V -> option (A * V)) (sem_slf : nat -> A -> list V -> V) (dv : V).
Notation run := (run sem sem_slf dv).
Notation step := (step sem sem_slf dv).

(* a successful construction ran the user's constructor once and started one thread; the actor value is dropped by the
   loop or moved out, at most once in total, and only when the loop has ended *)
Theorem C04_once : forall (m : model), wf_C04 m = true ->
  forall a0 progs sched, let s := run (elab m) a0 progs sched in
  ctor_runs s = 1 /\ spawns s = 1 /\ drops s + moved s <= 1 /\ (alive s = true -> drops s = 0 /\ moved s = 0 /\ actor s <> None).
Proof.
  intros m _ a0 progs sched s. destruct (life_reachable sem sem_slf dv (elab m) a0 progs sched) as (L1 & L2 & L3 & L4 & _).
  fold s in L1, L2, L3, L4. split; [exact L1|split; [exact L2|split; [exact L3|]]].
  intros Al. apply L4. unfold alive in Al. destruct (exited s); [discriminate|reflexivity].
Qed.

(* it never ends earlier: the step at which the loop ends has one of four causes - every handle gone and the queue
   drained; a self-consuming call; a user method panicked; a reply failed because the caller abandoned the pending call *)
Theorem C04_exit_cause : forall (m : model), wf_C04 m = true ->
  forall s ch s', step (elab m) s ch = Some s' -> exited s = None -> forall r, exited s' = Some r ->
  ch = Ac /\
  match r with
  | ChannelClosed => senders s = 0 /\ queue s = [] /\ busy s = None /\ applied s' = applied s
  | Stopped => exists c q, queue s = MStop c :: q /\ r_stop_first (elab m) = true
  | PanickedIn c => exists k fs rm a, busy s = Some (Msg c k fs) /\ meth (elab m) k = Some rm /\ actor s = Some a
                                      /\ sem (rm_callee rm) a (route dv (rm_args rm) fs) = None
  | ReplyFailed c => slot_get (slots s) c = Some SRxDropped
  end.
Proof. intros m _. exact (exit_cause sem sem_slf dv (elab m)). Qed.

(* draining shutdown: once the last handle is gone, the actor's own steps execute every call already accepted, in order,
   then the loop ends and the actor value is dropped exactly once (unless a user method panics / a reply fails on the way) *)
Theorem C04_drain : forall (m : model), wf_C04 m = true ->
  forall s, exited s = None -> actor s <> None -> senders s = 0 -> only_calls (pending s) ->
  (forall c k fs, In (Msg c k fs) (pending s) -> exists rm, meth (elab m) k = Some rm) ->
  let s' := run_from sem sem_slf dv (elab m) s (repeat Ac (2 * length (pending s) + 1)) in
  exited s' <> None /\
  (exited s' = Some ChannelClosed ->
     applied_ids s' = applied_ids s ++ map msg_id (pending s) /\ drops s' = S (drops s) /\ actor s' = None
     /\ dropped s' = dropped s /\ queue s' = [] /\ busy s' = None).
Proof. intros m _. exact (drain sem sem_slf dv (elab m)). Qed.
End C04.

Print Assumptions C04_once.
Print Assumptions C04_exit_cause.
Print Assumptions C04_drain.
