"""C18: seeded generators of `use` trees and of whole source files for the `example` macro, with a structured
description of what was generated (items, attributes and their roles), renderers to Rust text and to Coq terms
of IT.Text.UseMacro / IT.Text.Example, and a parser of `use` trees from tokens."""
import random
import rs, gen_impl
from coqgen import s as cq

INTER = "interthread"

# ------------------------------------------------------------------------------------------------
# use trees: ("path", id, sub) | ("name", id) | ("rename", id, al) | ("glob",) | ("group", [subs])
# ------------------------------------------------------------------------------------------------


def ut_rust(t):
    k = t[0]
    if k == "path":
        return "%s::%s" % (t[1], ut_rust(t[2]))
    if k == "name":
        return t[1]
    if k == "rename":
        return "%s as %s" % (t[1], t[2])
    if k == "glob":
        return "*"
    return "{" + ", ".join(ut_rust(x) for x in t[1]) + "}"


def ut_show(t):
    """same format as Coq `show_tree`"""
    k = t[0]
    if k == "path":
        return "%s::%s" % (t[1], ut_show(t[2]))
    if k == "name":
        return t[1]
    if k == "rename":
        return "%s as %s" % (t[1], t[2])
    if k == "glob":
        return "*"
    return "{" + ",".join(ut_show(x) for x in t[1]) + "}"


def ut_coq(t):
    k = t[0]
    if k == "path":
        return "(UPath %s %s)" % (cq(t[1]), ut_coq(t[2]))
    if k == "name":
        return "(UName %s)" % cq(t[1])
    if k == "rename":
        return "(URename %s %s)" % (cq(t[1]), cq(t[2]))
    if k == "glob":
        return "UGlob"
    return "(UGroup [%s])" % "; ".join(ut_coq(x) for x in t[1])


def ut_leaves(t, prefix=()):
    k = t[0]
    if k == "path":
        return ut_leaves(t[2], prefix + (t[1],))
    if k == "group":
        out = []
        for x in t[1]:
            out += ut_leaves(x, prefix)
        return out
    return [(prefix, t)]


def leaf_str(pl):
    p, l = pl
    return "::".join(list(p) + [ut_show(l)])


def parse_use_tree(toks):
    """toks: flat list of token strings of a use tree (without `use` and `;`)"""
    pos = [0]

    def tree():
        t = toks[pos[0]]
        if t == "*":
            pos[0] += 1
            return ("glob",)
        if t == "{":
            pos[0] += 1
            subs = []
            while toks[pos[0]] != "}":
                subs.append(tree())
                if toks[pos[0]] == ",":
                    pos[0] += 1
            pos[0] += 1
            return ("group", subs)
        pos[0] += 1
        if pos[0] < len(toks) and toks[pos[0]] == "::":
            pos[0] += 1
            return ("path", t, tree())
        if pos[0] < len(toks) and toks[pos[0]] == "as":
            al = toks[pos[0] + 1]
            pos[0] += 2
            return ("rename", t, al)
        return ("name", t)

    r = tree()
    if pos[0] != len(toks):
        raise ValueError("trailing tokens in use tree: %r" % (toks,))
    return r


IDS = [INTER, INTER, "std", "actor", "actor", "family", "family", "example", "self", "fmt", "a", "b", "act", "fam", "it"]


def random_tree(rng, depth=0, top=True):
    r = rng.random()
    if depth >= 4:
        r = r * 0.55
    if r < 0.25:
        return ("name", rng.choice(IDS))
    if r < 0.42:
        return ("rename", rng.choice(IDS), rng.choice(["act", "fam", "it", "actor", "family", "zz"]))
    if r < 0.50 and not top:
        return ("glob",)
    if r < 0.80:
        return ("path", rng.choice([INTER, INTER, INTER, "std", "a", "actor"]), random_tree(rng, depth + 1, False))
    n = rng.choice([0, 1, 1, 2, 2, 3, 4])
    return ("group", [random_tree(rng, depth + 1, False) for _ in range(n)])


def tree_class(mac, t):
    ls = ut_leaves(t)
    vis = [pl for pl in ls if all(s == INTER for s in pl[0]) and (pl[1][0] == "glob" or pl[1][1] == mac)]
    depth = lambda x: 0 if x[0] in ("name", "rename", "glob") else (1 + depth(x[2]) if x[0] == "path" else 1 + max([depth(y) for y in x[1]] + [0]))
    return ("vis%d" % min(len(vis), 3), "glob" if any(pl[1][0] == "glob" for pl in vis) else "noglob", "d%d" % min(depth(t), 4), t[0])


# ------------------------------------------------------------------------------------------------
# Python rendering of the property's reading of `use` items (Rust name resolution, documented forms)
# ------------------------------------------------------------------------------------------------

def mac_names(mac, trees):
    out = []
    for t in trees:
        for p, l in ut_leaves(t):
            if p == (INTER,):
                if l[0] == "glob":
                    out.append(mac)
                elif l[0] == "name" and l[1] == mac:
                    out.append(mac)
                elif l[0] == "rename" and l[1] == mac:
                    out.append(l[2])
    return out


def crate_aliases(trees):
    out = []
    for t in trees:
        for p, l in ut_leaves(t):
            if p == () and l[0] == "rename" and l[1] == INTER:
                out.append(l[2])
            if p == (INTER,) and l[0] == "rename" and l[1] == "self":
                out.append(l[2])
    return out


def denotes(mac, trees, lead, segs):
    if len(segs) == 1:
        return (not lead) and segs[0] in mac_names(mac, trees)
    if len(segs) == 2:
        return segs[1] == mac and (segs[0] == INTER or ((not lead) and segs[0] in crate_aliases(trees)))
    return False


# ------------------------------------------------------------------------------------------------
# source files
# ------------------------------------------------------------------------------------------------

class Ids(object):
    def __init__(self):
        self.n = 0

    def new(self, p):
        self.n += 1
        return "%s%d" % (p, self.n)


def mk_attr(ids, text, lead, segs, role):
    return {"id": ids.new("a"), "text": text, "lead": lead, "segs": list(segs), "role": role}


PLAIN_IMPL_ATTRS = [("#[allow(dead_code)]", ["allow"]), ("#[allow(unused)]", ["allow"]), ("/// the actor object", ["doc"]),
                    ("#[doc = \"impl doc\"]", ["doc"]), ("#[rustfmt::skip]", ["rustfmt", "skip"])]


def other_item(rng, ids, k):
    """an unrelated top-level item with a unique name: (attrs, body)"""
    forms = [
        ("fn", "fn helper_%d(x: u8) -> u8 { let y = [x, 1]; y[0] + %d }" % (k, k % 7)),
        ("pubfn", "pub fn visible_%d<T: Clone>(t: &T) -> (T, T) where T: Send { (t.clone(), t.clone()) }" % k),
        ("const", "pub const LIMIT_%d: [u8; 2] = [%d, 2];" % (k, k % 200)),
        ("static", "static NAME_%d: &str = \"n{%d}; // not a comment\";" % (k, k)),
        ("type", "type Pair%d = (u8, Option<String>);" % k),
        ("enum", "pub enum Kind%d { A, B(u8), C { x: i8 } }" % k),
        ("struct", "pub struct Plain%d { pub a: u8, b: Vec<String> }" % k),
        ("unit", "struct Unit%d;" % k),
        ("trait", "pub trait Speak%d { fn speak(&self) -> String; fn twice(&self) -> String { self.speak() + &self.speak() } }" % k),
        ("mod", "mod inner_%d { pub fn f() -> char { '}' } pub const C: char = ' '; }" % k),
        ("macro", "macro_rules! mk_%d { () => { 1u8 }; ($x:expr) => { $x + 1 }; }" % k),
        ("traitimpl", "impl Default for Dflt%d { fn default() -> Self { Dflt%d } }" % (k, k)),
        ("plainimpl", "impl Dflt%d { pub fn new() -> Self { Dflt%d } fn private(&self, n: u8) -> u8 { n } }" % (k, k)),
        ("usestd", None),
    ]
    kind, body = rng.choice(forms)
    attrs = []
    if kind in ("traitimpl", "plainimpl"):
        return kind, [], body, "struct Dflt%d;" % k
    if rng.random() < 0.35:
        cand = {"fn": ["#[inline]", "/// helper doc", "#[allow(dead_code)]"], "pubfn": ["/// doc \"quoted\" text", "#[inline(always)]"],
                "enum": ["#[derive(Debug, Clone)]", "/// kinds"], "struct": ["#[derive(Debug)]", "#[derive(Clone, Default)]", "/** block doc */"],
                "unit": ["#[derive(Debug, PartialEq)]"], "mod": ["#[allow(dead_code)]", "#[cfg(test)]"], "macro": ["#[allow(unused_macros)]"],
                "const": ["#[allow(dead_code)]"], "static": ["#[allow(dead_code)]"], "type": ["#[allow(dead_code)]"], "trait": ["/// speaks"]}.get(kind, [])
        for c in rng.sample(cand, min(len(cand), rng.choice([1, 1, 2]))):
            segs = ["doc"] if c.startswith("//") or c.startswith("/*") else [c[2:].split("(")[0].split("]")[0]]
            attrs.append(mk_attr(ids, c, False, segs, "plain"))
    return kind, attrs, body, None


STD_USES = [("path", "std", ("name", "fmt")), ("path", "std", ("group", [("path", "collections", ("name", "HashMap")), ("path", "io", ("group", [("name", "self")]))])),
            ("path", "std", ("path", "sync", ("rename", "Arc", "Shared"))), ("path", "std", ("path", "cell", ("glob",))),
            ("path", "core", ("group", [("name", "mem"), ("group", [("path", "cmp", ("name", "Ordering"))])])),
            ("group", [("path", "std", ("name", "thread")), ("path", "std", ("path", "time", ("name", "Duration")))])]
TOP_EXTRA = [("path", "std", ("path", "rc", ("name", "Rc"))), ("path", "std", ("path", "rc", ("name", "Weak")))]

LIBS = ["std", "tokio", "async_std", "smol"]


def actor_args(rng, name=None, allow_show=True):
    parts = []
    lib = rng.choice(["std", "std", "tokio", "async_std", "smol"])
    if lib != "std":
        parts.append('lib = "%s"' % lib)
    if rng.random() < 0.4:
        parts.append("channel = %d" % rng.choice([0, 1, 2, 5]))
    if name:
        parts.append('name = "%s"' % name)
    if rng.random() < 0.2:
        parts.append("debut")
    if rng.random() < 0.2:
        # parts the user writes by hand: the example must leave out exactly what the attribute macro leaves out
        parts.append(rng.choice(["edit(script(def))", "edit(live(def))", "edit(script(imp(direct)), live(def))", "edit(script(imp(play)))", "edit(script)", "edit(live)"]))
    show = allow_show and rng.random() < 0.15
    rng.shuffle(parts)
    return parts, show, lib


def family_args(rng, name=None):
    parts = []
    lib = rng.choice(["std", "std", "tokio", "async_std"])
    if lib != "std":
        parts.append('lib = "%s"' % lib)
    if rng.random() < 0.3:
        parts.append("channel = %d" % rng.choice([0, 2]))
    if name:
        parts.append('name = "%s"' % name)
    mem = ['actor(first_name = "U")']
    if rng.random() < 0.6:
        mem.append('actor(first_name = "V"%s)' % (", channel = 1" if rng.random() < 0.3 else ""))
    if rng.random() < 0.15:
        # `show` on the family or on a member: the example must still equal the expansion with show off
        shown = list(mem)
        if rng.random() < 0.5:
            shown[0] = 'actor(first_name = "U", show)'
            return (parts + mem, parts + shown), False, lib
        return (parts + mem, parts + mem + ["show"]), False, lib
    return parts + mem, False, lib


def gen_file(rng, force=None):
    """one source file.  force: None | 'dup' | 'abs' | 'alias' | 'glob2' | 'late' | 'reimport' (a known class) | 'clean'.
    Returns dict(prelude, items, expand (list or None), main, fname, classes(set), text)."""
    ids = Ids()
    # how each macro is referenced
    ref = {}
    knob = force
    if force is None:
        r = rng.random()
        knob = "clean" if r < 0.86 else rng.choice(["dup", "abs", "alias", "glob2", "late", "reimport"])
    forms = ["full", "name", "alias", "group", "glob", "nested", "topgroup"]
    for mac in ("actor", "family"):
        ref[mac] = rng.choice(forms)
    if knob == "glob2":
        ref["actor"] = ref["family"] = "glob"
    nimpl = rng.choice([1, 1, 2, 2, 3, 4])
    expand = rng.choice([None, None, ["actor"], ["family"], ["actor", "family"], ["family", "actor"]])
    want_main = rng.random() < 0.5
    local = {"actor": "actor", "family": "family"}       # name under which the macro is usable
    for mac in ("actor", "family"):
        if ref[mac] == "alias" or (ref[mac] in ("group", "nested", "topgroup") and rng.random() < 0.4):
            local[mac] = {"actor": "act", "family": "fam"}[mac] + rng.choice(["", "_x", "2"])
    example_imported = rng.random() < 0.3
    # --- use items that import the macros
    inter_leaves, separate = [], []
    glob_needed = any(ref[m] == "glob" for m in ref)
    for mac in ("actor", "family"):
        leaf = ("name", mac) if local[mac] == mac else ("rename", mac, local[mac])
        if ref[mac] in ("group", "nested"):
            inter_leaves.append((mac, leaf, ref[mac]))
        elif ref[mac] in ("name", "alias"):
            if ref[mac] == "name":
                local[mac] = mac
                leaf = ("name", mac)
            separate.append(("path", INTER, leaf))
        elif ref[mac] == "topgroup":
            separate.append(("group", rng.sample([TOP_EXTRA[0 if mac == "actor" else 1], ("path", INTER, leaf)], 2)))
        elif ref[mac] == "full":
            local[mac] = None
        elif ref[mac] == "glob":
            local[mac] = mac
    if glob_needed:
        separate.append(("path", INTER, ("glob",)))
    if inter_leaves or (example_imported and not glob_needed):
        subs = []
        for mac, leaf, form in inter_leaves:
            subs.append(("group", [leaf]) if form == "nested" and rng.random() < 0.6 else leaf)
        if example_imported and not glob_needed:
            subs.append(("name", "example"))
        if rng.random() < 0.25:
            subs.append(("name", "self"))
        rng.shuffle(subs)
        if len(subs) == 1 and subs[0][0] != "group" and rng.random() < 0.5:
            separate.append(("path", INTER, subs[0]))
        else:
            separate.append(("path", INTER, ("group", subs)))
    example_local = "example" if (example_imported or glob_needed) else None
    crate_alias = None
    if knob == "alias":
        crate_alias = "it"
        separate.append(rng.choice([("rename", INTER, "it"), ("path", INTER, ("group", [("rename", "self", "it")]))]))
    if knob == "reimport":
        mac = rng.choice(["actor", "family"])
        first = local[mac] or mac
        if rng.random() < 0.4:
            # several imports of the macro in ONE use item
            leaves_ = [("rename", mac, "again_" + mac), ("rename", mac, "third_" + mac)]
            if local[mac] is None:
                leaves_.append(("name", mac))
            rng.shuffle(leaves_)
            separate.append(("path", INTER, ("group", leaves_)))
            first = rng.choice([first, "again_" + mac, "third_" + mac])
        else:
            if local[mac] is None:
                separate.append(("path", INTER, ("name", mac)))
            separate.append(("path", INTER, ("rename", mac, "again_" + mac)))
        local[mac] = first
    rng.shuffle(separate)
    use_items = [{"kind": "use", "id": ids.new("u"), "attrs": [], "tree": t} for t in separate]
    # --- annotated impls
    impls = []
    for k in range(nimpl):
        ty = "S%d" % (k + 1)
        nat = rng.choice([1, 1, 1, 2])
        if knob == "dup" and k == 0:
            macs = rng.choice([["actor", "actor"], ["family", "family"], ["actor", "actor"]])
        elif nat == 2:
            macs = rng.choice([["actor", "family"], ["family", "actor"]])
        else:
            macs = [rng.choice(["actor", "actor", "family"])]
        only_family_safe = "family" in macs
        im = gen_impl.random_impl(rng, "std", slf_prob=0.0 if only_family_safe else 0.15)
        while only_family_safe and "fn try_new" in im["item"]:
            # `family` on a `try_new` constructor expands to code that does not compile (ULive::new is called): not this property
            im = gen_impl.random_impl(rng, "std", slf_prob=0.0)
        body = im["item"].replace("impl A {", "impl %s {" % ty, 1)
        attrs = []
        for j, mac in enumerate(macs):
            name = None
            if len(macs) > 1 or rng.random() < 0.2:
                name = "%sN%d" % (ty, j)
            parts, show, lib = (actor_args(rng, name) if mac == "actor" else family_args(rng, name))
            if lib != "std":
                # async libs: keep the impl synchronous-only (generated from lib std), which all libs accept
                pass
            if isinstance(parts, tuple):
                args_noshow, args = ", ".join(parts[0]), ", ".join(parts[1])
            else:
                args_noshow = ", ".join(parts)
                args = ", ".join(parts + (["show"] if show else []))
            # path form
            lead, segs = False, None
            if knob == "abs" and k == 0 and j == 0:
                lead, segs = True, [INTER, mac]
            elif knob == "alias" and k == 0 and j == 0:
                segs = [crate_alias, mac]
            elif local[mac] is None or rng.random() < 0.15:
                segs = [INTER, mac]
            else:
                segs = [local[mac]]
            ptxt = ("::" if lead else "") + "::".join(segs)
            text = "#[%s%s]" % (ptxt, ("(%s)" % args) if args else "")
            a = mk_attr(ids, text, lead, segs, "mac:" + mac)
            a["args_noshow"] = args_noshow
            a["mac"] = mac
            attrs.append(a)
        # plain attributes around the macro attributes
        for _ in range(rng.choice([0, 0, 1, 2])):
            t, sg = rng.choice(PLAIN_IMPL_ATTRS)
            attrs.insert(rng.randint(0, len(attrs)), mk_attr(ids, t, False, sg, "plain"))
        if rng.random() < 0.12:
            ex = "%s" % (example_local if (example_local and rng.random() < 0.5) else INTER + "::example")
            attrs.insert(rng.randint(0, len(attrs)), mk_attr(ids, '#[%s(path = "src/none.rs")]' % ex, False, ex.split("::"), "example"))
        field = rng.choice(["(pub i8);", " { v: i8 }", ";"])
        impls.append({"struct": "pub struct %s%s" % (ty, field), "item": {"kind": "impl", "id": ids.new("i"), "attrs": attrs, "body": body, "ty": ty}})
    # --- assemble: uses first (mostly), unrelated items in between
    items = []
    k = [0]
    std_pool = list(STD_USES)
    rng.shuffle(std_pool)

    def add_others(n):
        for _ in range(n):
            k[0] += 1
            kind, attrs, body, pre = other_item(rng, ids, k[0] * 10 + rng.randint(0, 9))
            if kind == "usestd":
                if std_pool:
                    items.append({"kind": "use", "id": ids.new("u"), "attrs": [], "tree": std_pool.pop()})
                continue
            if pre:
                items.append({"kind": "other", "id": ids.new("o"), "attrs": [], "body": pre, "okind": "unit"})
            if rng.random() < 0.08:
                ex = "%s" % (example_local if (example_local and rng.random() < 0.5) else INTER + "::example")
                attrs.insert(rng.randint(0, len(attrs)), mk_attr(ids, '#[%s(path = "src/none.rs")]' % ex, False, ex.split("::"), "example"))
            if kind in ("traitimpl", "plainimpl"):
                items.append({"kind": "impl", "id": ids.new("i"), "attrs": attrs, "body": body, "ty": None})
            else:
                items.append({"kind": "other", "id": ids.new("o"), "attrs": attrs, "body": body, "okind": kind})

    add_others(rng.choice([0, 0, 1]))
    late = []
    if knob == "late" and any(u["tree"][0] == "path" and u["tree"][1] == INTER for u in use_items):
        cand = [u for u in use_items if u["tree"][0] == "path" and u["tree"][1] == INTER]
        late = [rng.choice(cand)]
    for u in use_items:
        if u in late:
            continue
        items.append(u)
        add_others(rng.choice([0, 0, 0, 1]))
    for im in impls:
        items.append({"kind": "other", "id": ids.new("o"), "attrs": ([mk_attr(ids, "#[derive(Debug)]", False, ["derive"], "plain")] if rng.random() < 0.3 else []),
                      "body": im["struct"], "okind": "actorstruct"})
        add_others(rng.choice([0, 0, 1]))
        items.append(im["item"])
        add_others(rng.choice([0, 1, 1, 2]))
    items += late
    prelude = rng.choice(["", "", "#![allow(dead_code, unused_imports)]\n", "//! module level documentation\n#![allow(unused)]\n"])
    fname = rng.choice(["my_file", "actors", "a", "main", "mod_x1"])
    d = {"prelude": prelude, "items": items, "expand": expand, "main": want_main, "fname": fname, "knob": knob}
    d["text"] = render_file(d, rng)
    d["classes"] = classify(d)
    d["tags"] = input_tags(d)
    return d


def item_text(it, sep="\n"):
    at = sep.join(a["text"] for a in it["attrs"])
    if it["kind"] == "use":
        body = "use %s;" % ut_rust(it["tree"])
    else:
        body = it["body"]
    return (at + sep if at else "") + body


def render_file(d, rng=None):
    out = [d["prelude"]]
    for it in d["items"]:
        if rng is not None and rng.random() < 0.2:
            out.append(rng.choice(["// #[interthread::actor] impl Ghost { }\n", "/* use interthread::actor; */\n", "\n\n", "// plain comment\n"]))
        out.append(item_text(it) + "\n")
    return "".join(out)


def expand_list(d):
    return d["expand"] if d["expand"] is not None else ["actor", "family"]


def all_use_trees(d):
    return [it["tree"] for it in d["items"] if it["kind"] == "use"]


def input_tags(d):
    """decidable predicates on the input: the shapes that used to fail (now regression inputs) and the one that still does"""
    cls = set()
    exp = expand_list(d)
    trees = all_use_trees(d)
    seen = []
    for idx, it in enumerate(d["items"]):
        if it["kind"] == "use":
            seen.append(it["tree"])
        if it["kind"] != "impl":
            continue
        per = {}
        for a in it["attrs"]:
            if not a["role"].startswith("mac:"):
                continue
            mac = a["mac"]
            if mac not in exp:
                continue
            per[mac] = per.get(mac, 0) + 1
            if a["lead"]:
                cls.add("abs-path")
            if len(a["segs"]) == 2 and a["segs"][0] != INTER:
                cls.add("crate-alias")
            if len(a["segs"]) == 1 and not denotes(mac, seen, a["lead"], a["segs"]):
                cls.add("late-import")
        if any(v > 1 for v in per.values()):
            cls.add("dup-attr")
    for mac in exp:
        if len(mac_names(mac, trees)) > 1:
            cls.add("reimport")
    if len(exp) > 1 and any(l[0] == "glob" and p == (INTER,) for t in trees for p, l in ut_leaves(t)):
        cls.add("glob-both")
    return cls


KNOWN_CLASSES = ()


def classify(d):
    """the known-finding classes this input belongs to"""
    return set(c for c in input_tags(d) if c in KNOWN_CLASSES)


# ------------------------------------------------------------------------------------------------
# Coq rendering of a file (IT.Text.Example.titem)
# ------------------------------------------------------------------------------------------------

def attr_coq(a):
    return "(at_ %s [%s] %s)" % ("true" if a["lead"] else "false", "; ".join(cq(x) for x in a["segs"]), cq(a["id"]))


def item_coq(it):
    at = "[%s]" % "; ".join(attr_coq(a) for a in it["attrs"])
    if it["kind"] == "use":
        return "(IUse %s %s)" % (at, ut_coq(it["tree"]))
    if it["kind"] == "impl":
        return "(IImpl %s %s)" % (at, cq(it["id"]))
    return "(IOther %s %s)" % (at, cq(it["id"]))


def file_coq(d):
    return "[%s]" % ";\n ".join(item_coq(it) for it in d["items"])
