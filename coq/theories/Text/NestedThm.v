(* Text/NestedThm.v -- theorems about the attribute surgery model of Text/Nested.v *)
From Coq Require Import List String Ascii Arith Bool Lia.
Import ListNotations.
From IT Require Import Text.Atp Text.AtpThm Text.Nested.

(* ---------- parse_args: every recorded index points at the character it was recorded for ---------- *)
Definition ok_arg (s : str) (a : narg) : Prop :=
  (forall i, a_open a = Some i -> nth_error s i = Some c_open) /\
  (forall i, a_close a = Some i -> nth_error s i = Some c_close) /\
  (forall i, a_comma a = Some i -> nth_error s i = Some c_comma).

Lemma Forall_firstn' : forall (A : Type) (P : A -> Prop) n l, Forall P l -> Forall P (firstn n l).
Proof. induction n; intros l H; simpl; [constructor|]. destruct l; [constructor|]. inversion H; subst. constructor; auto. Qed.
Lemma Forall_skipn' : forall (A : Type) (P : A -> Prop) n l, Forall P l -> Forall P (skipn n l).
Proof. induction n; intros l H; simpl; auto. destruct l; [constructor|]. inversion H; subst. auto. Qed.

Lemma ok_new : forall s d st, ok_arg s (arg_new d st).
Proof. intros; repeat split; intros i H; discriminate. Qed.

Lemma upd_Forall : forall (P : narg -> Prop) n f l l', (forall x, P x -> P (f x)) -> Forall P l -> upd n f l = Some l' -> Forall P l'.
Proof.
  intros P n f l l' Hf Hl H. unfold upd in H. destruct (nth_error l n) eqn:E; [|discriminate]. injection H as <-.
  apply Forall_app. split; [apply Forall_firstn'; auto|]. constructor.
  - apply Hf. rewrite Forall_forall in Hl. apply Hl. eapply nth_error_In; eauto.
  - apply (Forall_skipn' _ P (S n) l); auto.
Qed.

Lemma eqb_char : forall c d, Ascii.eqb c d = true -> c = d.
Proof. intros c d H. apply Ascii.eqb_eq; auto. Qed.

Lemma pa_step_ok : forall s i c st st', nth_error s i = Some c ->
  Forall (ok_arg s) (snd (fst st)) -> Forall (ok_arg s) (snd st) -> pa_step i c st = Some st' ->
  Forall (ok_arg s) (snd (fst st')) /\ Forall (ok_arg s) (snd st').
Proof.
  intros s i c [[depth loc] args] st' Hc Hl Ha H. simpl in Hl, Ha. unfold pa_step in H.
  destruct (Ascii.eqb c c_open) eqn:E1.
  { apply eqb_char in E1. subst c.
    destruct (upd depth (set_open i) loc) eqn:U; [|discriminate]. inversion H; subst; simpl. split; auto.
    apply Forall_app; split; [|constructor; [apply ok_new|constructor]].
    eapply upd_Forall; [|exact Hl|exact U]. intros x [H1 [H2 H3]]. repeat split; simpl; auto.
    intros j Hj. inversion Hj; subst; auto. }
  destruct (Ascii.eqb c c_close) eqn:E2.
  { apply eqb_char in E2. subst c.
    destruct (upd depth (set_end i) loc) eqn:U; [|discriminate]. destruct depth; [discriminate|].
    destruct (upd depth (set_close i) l) eqn:U2; [|discriminate]. inversion H; subst; simpl. split; auto.
    eapply upd_Forall; [| |exact U2].
    - intros x [H1 [H2 H3]]. repeat split; simpl; auto. intros j Hj. inversion Hj; subst; auto.
    - eapply upd_Forall; [|exact Hl|exact U]. intros x [H1 [H2 H3]]. repeat split; simpl; auto. }
  destruct (Ascii.eqb c c_equal) eqn:E3.
  { destruct (upd depth (set_equal i) loc) eqn:U; [|discriminate]. inversion H; subst; simpl. split; auto.
    eapply upd_Forall; [|exact Hl|exact U]. intros x [H1 [H2 H3]]. repeat split; simpl; auto. }
  destruct (Ascii.eqb c c_comma) eqn:E4.
  { apply eqb_char in E4. subst c.
    destruct (upd depth (fun a => set_comma i (set_end i a)) loc) eqn:U; [|discriminate]. inversion H; subst; simpl.
    assert (K : Forall (ok_arg s) l).
    { eapply upd_Forall; [|exact Hl|exact U]. intros x [H1 [H2 H3]]. repeat split; simpl; auto.
      intros j Hj. inversion Hj; subst; auto. }
    split.
    - apply Forall_app; split; [apply Forall_firstn'; auto|constructor; [apply ok_new|constructor]].
    - apply Forall_app; split; auto. apply Forall_rev. apply Forall_skipn'; auto. }
  inversion H; subst; simpl; auto.
Qed.

Lemma pa_loop_ok : forall r pre st st', Forall (ok_arg (pre ++ r)) (snd (fst st)) -> Forall (ok_arg (pre ++ r)) (snd st) ->
  pa_loop (List.length pre) r st = Some st' ->
  Forall (ok_arg (pre ++ r)) (snd (fst st')) /\ Forall (ok_arg (pre ++ r)) (snd st').
Proof.
  induction r as [|c r IH]; intros pre st st' Hl Ha H; simpl in H.
  - inversion H; subst; auto.
  - destruct (pa_step (List.length pre) c st) as [st1|] eqn:S1; [|discriminate].
    assert (Hc : nth_error (pre ++ c :: r) (List.length pre) = Some c).
    { rewrite nth_error_app2; [|lia]. rewrite Nat.sub_diag. reflexivity. }
    destruct (pa_step_ok _ _ _ _ _ Hc Hl Ha S1) as [Hl1 Ha1].
    replace (pre ++ c :: r) with ((pre ++ [c]) ++ r) in * by (rewrite <- app_assoc; reflexivity).
    apply (IH (pre ++ [c]) st1 st'); auto.
    rewrite app_length; simpl. replace (List.length pre + 1) with (S (List.length pre)) by lia. exact H.
Qed.

Theorem parse_args_marks : forall s l, parse_args s = Some l -> Forall (ok_arg s) l.
Proof.
  intros s l H. unfold parse_args in H.
  destruct (pa_loop 0 s (0, [arg0], [])) as [[[d loc] args]|] eqn:P; [|discriminate]. inversion H; subst.
  assert (K : Forall (ok_arg ([] ++ s)) (snd (fst (d, loc, args))) /\ Forall (ok_arg ([] ++ s)) (snd (d, loc, args))).
  { apply (pa_loop_ok s [] (0, [arg0], []) (d, loc, args)); simpl; auto.
    constructor; [|constructor]. repeat split; intros i Hi; discriminate. }
  simpl in K. destruct K as [K1 K2]. apply Forall_app; auto.
Qed.

(* ---------- shape of every deleted range ---------- *)
Definition shape_head (s : str) (lo hi : nat) : Prop :=
  prefixb k_file (skipn lo s) = true /\ lo + 4 <= hi /\ exists o, hi = S o /\ nth_error s o = Some c_open.
(* one `)`, together with a trailing comma (and the blanks between) in front of it *)
Definition shape_tail (s : str) (lo hi : nat) : Prop :=
  exists c, hi = S c /\ nth_error s c = Some c_close /\ (lo = c \/ (lo < c /\ nth_error s lo = Some c_comma)).
Definition shape_paren (s : str) (lo hi : nat) : Prop :=
  nth_error s lo = Some c_open /\ exists c, hi = S c /\ nth_error s c = Some c_close.
Definition range_shape (s : str) (r : range) : Prop :=
  let '(k, lo, hi) := r in k = lo /\ (shape_head s lo hi \/ shape_tail s lo hi \/ shape_paren s lo hi).

Lemma prefixb_firstn : forall p k l, prefixb p (firstn k l) = true -> prefixb p l = true.
Proof.
  induction p; intros k l H; simpl; auto.
  destruct k; simpl in H; [discriminate|]. destruct l; simpl in *; [discriminate|].
  apply andb_prop in H. destruct H as [H1 H2]. rewrite H1. simpl. eapply IHp; eauto.
Qed.

Lemma find_sub_prefix : forall p s n, find_sub p s = Some n -> prefixb p (skipn n s) = true.
Proof.
  intros p s; induction s; intros n H; simpl in H.
  - destruct (prefixb p []) eqn:E; [|discriminate]. inversion H; subst. exact E.
  - destruct (prefixb p (a :: s)) eqn:E.
    + inversion H; subst. exact E.
    + destruct (find_sub p s) eqn:F; simpl in H; [|discriminate]. inversion H; subst. simpl. apply IHs; reflexivity.
Qed.

Lemma slice_some : forall a b s t, slice a b s = Some t -> a <= b /\ b <= List.length s /\ t = firstn (b - a) (skipn a s).
Proof.
  intros a b s t H. unfold slice in H. destruct (Nat.leb a b && Nat.leb b (List.length s)) eqn:E; [|discriminate].
  apply andb_prop in E. destruct E as [E1 E2]. apply Nat.leb_le in E1. apply Nat.leb_le in E2. inversion H; auto.
Qed.

Lemma is_list_inv : forall n, is_list n = true -> exists o c, a_open n = Some o /\ a_close n = Some c.
Proof. intros n H. unfold is_list in H. destruct (a_open n), (a_close n); try discriminate. eauto. Qed.

Lemma trim_end_prefix : forall s, exists w, s = trim_end s ++ w.
Proof.
  induction s as [|c r [w IH]]; [exists []; reflexivity|].
  simpl. destruct (trim_end r) as [|x r'] eqn:E.
  - destruct (is_ws c).
    + exists (c :: r). reflexivity.
    + exists w. simpl. simpl in IH. rewrite <- IH. reflexivity.
  - exists w. simpl. rewrite IH at 1. reflexivity.
Qed.

Lemma ends_with_comma_split : forall t, ends_with_comma t = true -> exists t0, t = t0 ++ [c_comma].
Proof.
  intros t H. unfold ends_with_comma in H. destruct (rev t) as [|x l] eqn:E; [discriminate|].
  apply eqb_char in H. subst x. exists (rev l).
  rewrite <- (rev_involutive t), E. reflexivity.
Qed.

Lemma nth_error_firstn_some : forall (A : Type) m (l : list A) k x, nth_error (firstn m l) k = Some x -> nth_error l k = Some x.
Proof.
  induction m; intros l k x H; simpl in H; [destruct k; discriminate|].
  destruct l; [destruct k; discriminate|]. destruct k; simpl in *; auto.
Qed.

Lemma nth_error_skipn' : forall (A : Type) a (l : list A) k, nth_error (skipn a l) k = nth_error l (a + k).
Proof.
  induction a; intros l k; simpl; auto. destruct l; simpl; auto. destruct k; reflexivity.
Qed.

Lemma tail_start_shape : forall s o c, nth_error s c = Some c_close -> shape_tail s (tail_start s o c) (S c).
Proof.
  intros s o c Hc. exists c. split; auto. split; auto. unfold tail_start.
  destruct (slice (S o) c s) as [inner|] eqn:Sl; auto.
  destruct (ends_with_comma (trim_end inner)) eqn:E; auto.
  right. apply slice_some in Sl. destruct Sl as [S1 [S2 Si]].
  destruct (trim_end_prefix inner) as [w Hw]. destruct (ends_with_comma_split _ E) as [t0 Ht].
  assert (Li : List.length inner = c - S o) by (subst inner; rewrite firstn_length, skipn_length; lia).
  assert (Lt : List.length (trim_end inner) = List.length t0 + 1) by (rewrite Ht, app_length; reflexivity).
  assert (Lw : List.length (trim_end inner) <= List.length inner) by (rewrite Hw at 2; rewrite app_length; lia).
  split; [lia|].
  assert (K : nth_error inner (List.length t0) = Some c_comma).
  { rewrite Hw, Ht, <- app_assoc. rewrite nth_error_app2; [|lia]. rewrite Nat.sub_diag. reflexivity. }
  rewrite Si in K. apply nth_error_firstn_some in K. rewrite nth_error_skipn' in K.
  replace (o + List.length (trim_end inner)) with (S o + List.length t0) by lia. exact K.
Qed.

Lemma get_range_shape : forall s n rs, ok_arg s n -> is_list n = true ->
  get_range s n = Some rs -> Forall (range_shape s) rs.
Proof.
  intros s n rs [Ho [Hc _]] L H. unfold get_range in H. rewrite L in H.
  destruct (is_list_inv n L) as [o [c [Eo Ec]]]. rewrite Eo, Ec in H.
  specialize (Ho o Eo). specialize (Hc c Ec).
  destruct (get_name s n) as [nm|]; [|discriminate].
  destruct (str_eqb nm k_file).
  - destruct (slice (a_start n) (S o) s) as [t|] eqn:Sl; [|discriminate].
    destruct (find_sub k_file t) as [fs|] eqn:F; [|discriminate]. inversion H; subst. clear H.
    apply slice_some in Sl. destruct Sl as [S1 [S2 St]].
    pose proof (find_sub_bound _ _ _ F) as B. pose proof (find_sub_prefix _ _ _ F) as P.
    subst t. rewrite firstn_length, skipn_length in B. change (List.length k_file) with 4 in B.
    rewrite skipn_firstn_comm in P. apply prefixb_firstn in P. rewrite skipn_skipn' in P.
    constructor; [|constructor; [|constructor]].
    + split; auto. left. split; [|split].
      * replace (fs + a_start n) with (a_start n + fs) by lia. exact P.
      * lia.
      * exists o; auto.
    + split; auto. right; left. apply tail_start_shape; auto.
  - inversion H; subst. constructor; [|constructor]. split; auto. right; right. split; auto. exists c; auto.
Qed.

Lemma opt_concat_Forall : forall (P : range -> Prop) l rs,
  (forall x y, In x l -> x = Some y -> Forall P y) -> opt_concat l = Some rs -> Forall P rs.
Proof.
  induction l as [|x l IH]; intros rs Hx H; simpl in H.
  - inversion H; constructor.
  - destruct x as [x|]; [|discriminate]. destruct (opt_concat l) as [y|] eqn:E; [|discriminate]. inversion H; subst.
    apply Forall_app; split.
    + apply (Hx (Some x) x); simpl; auto.
    + apply IH; auto. intros x0 y0 Hin Heq. apply (Hx x0 y0); simpl; auto.
Qed.

Lemma fie_filter_ok : forall s e st en l files, ok_arg s e -> is_list e = true -> Forall (ok_arg s) l ->
  fie_filter s e st en l = Some files -> Forall (fun n => ok_arg s n /\ is_list n = true) files.
Proof.
  induction l as [|n l IH]; intros files He Le Hl H; simpl in H.
  - inversion H; constructor.
  - inversion Hl as [|? ? Hn Hl']; subst.
    destruct (fie_pick s e st en n) as [x|] eqn:Pk; [|discriminate].
    destruct (fie_filter s e st en l) as [y|] eqn:F; [|discriminate]. inversion H; subst. clear H.
    specialize (IH y He Le Hl' eq_refl).
    destruct x as [f|]; auto. constructor; auto.
    unfold fie_pick in Pk.
    destruct (Nat.ltb st (a_start n) && Nat.leb (a_end n) en); [|discriminate].
    destruct (get_name s n) as [nm|]; [|discriminate].
    destruct (str_eqb nm k_file); [|discriminate].
    destruct (is_list n) eqn:Ln.
    + inversion Pk; subst; auto.
    + destruct (a_open e).
      * destruct (Nat.eqb (a_depth n) (a_depth e + 1) && closes s n en && Nat.eqb n0 (a_start n - 1)); inversion Pk; subst; auto.
      * destruct (Nat.eqb (a_depth n) (a_depth e + 1) && closes s n en); discriminate.
Qed.

Lemma file_in_edit_shape : forall s args e rs, Forall (ok_arg s) args -> ok_arg s e -> is_list e = true ->
  file_in_edit s args e = Some rs -> Forall (range_shape s) rs.
Proof.
  intros s args e rs Ha He Le H. unfold file_in_edit in H.
  destruct (a_close e) as [en|]; [|discriminate].
  destruct (fie_filter s e (a_start e) en args) as [files|] eqn:F; [|discriminate].
  pose proof (fie_filter_ok _ _ _ _ _ _ He Le Ha F) as K.
  eapply opt_concat_Forall; [|exact H].
  intros x y Hin Heq. subst x. apply in_map_iff in Hin. destruct Hin as [n [Hg Hn]].
  rewrite Forall_forall in K. destruct (K n Hn) as [K1 K2]. eapply get_range_shape; eauto.
Qed.

Lemma fief_here_shape : forall s all a x, Forall (ok_arg s) all -> ok_arg s a ->
  fief_here s all a = Some x -> Forall (range_shape s) x.
Proof.
  intros s all a x Hall Ha Hh. unfold fief_here in Hh.
  destruct (is_list a) eqn:La; [|inversion Hh; constructor].
  destruct (get_name s a) as [nm|]; [|discriminate].
  destruct (str_eqb nm k_edit && Nat.ltb (a_depth a) 3); [|inversion Hh; constructor].
  exact (file_in_edit_shape s all a x Hall Ha La Hh).
Qed.

Lemma fief_loop_shape : forall s all l rs, Forall (ok_arg s) all -> Forall (ok_arg s) l ->
  fief_loop s all l = Some rs -> Forall (range_shape s) rs.
Proof.
  induction l as [|a l IH]; intros rs Hall Hl H; simpl in H.
  - inversion H; constructor.
  - inversion Hl as [|? ? Ha Hl']; subst.
    destruct (fief_here s all a) as [x|] eqn:Hh; [|discriminate].
    destruct (fief_loop s all l) as [y|] eqn:F; [|discriminate]. inversion H; subst. clear H.
    apply Forall_app; split; [|apply IH; auto].
    exact (fief_here_shape s all a x Hall Ha Hh).
Qed.

Lemma insert_range_Forall : forall (P : range -> Prop) r l, P r -> Forall P l -> Forall P (insert_range r l).
Proof.
  induction l as [|x l IH]; intros Hr Hl; simpl; [constructor; auto|].
  inversion Hl; subst. destruct (Nat.leb (fst (fst r)) (fst (fst x))); constructor; auto.
Qed.

Lemma sort_ranges_Forall : forall (P : range -> Prop) l, Forall P l -> Forall P (sort_ranges l).
Proof.
  induction l; intros H; simpl; [constructor|]. inversion H; subst. apply insert_range_Forall; auto.
Qed.

(* C16_surgery_frame: whatever the attribute text, the only byte ranges the surgery deletes are
   `file...(` , a `)` with the trailing comma of its group, or a parenthesised `( ... )` group *)
Theorem surgery_frame : forall s rs, file_ranges s = Some rs -> Forall (range_shape s) rs.
Proof.
  intros s rs H. unfold file_ranges in H.
  destruct (parse_args s) as [args|] eqn:P; [|discriminate].
  apply parse_args_marks in P. unfold file_in_edit_family in H.
  destruct (fief_loop s args args) as [r0|] eqn:F; [|discriminate]. inversion H; subst.
  apply sort_ranges_Forall. eapply fief_loop_shape; eauto.
Qed.

(* ---------- deletion is a subsequence ---------- *)
Inductive subseq : str -> str -> Prop :=
| sub_nil : subseq [] []
| sub_keep : forall x a b, subseq a b -> subseq (x :: a) (x :: b)
| sub_drop : forall x a b, subseq a b -> subseq a (x :: b).

Lemma subseq_refl : forall a, subseq a a.
Proof. induction a; constructor; auto. Qed.

Lemma subseq_nil : forall a, subseq [] a.
Proof. induction a; constructor; auto. Qed.

Lemma subseq_trans : forall b c, subseq b c -> forall a, subseq a b -> subseq a c.
Proof.
  intros b c H; induction H; intros a0 Ha; auto.
  - inversion Ha; subst; constructor; auto.
  - constructor; auto.
Qed.

Lemma subseq_app : forall a b c d, subseq a b -> subseq c d -> subseq (a ++ c) (b ++ d).
Proof. intros a b c d H; induction H; intros Hc; simpl; auto; constructor; auto. Qed.

Lemma subseq_length : forall a b, subseq a b -> List.length a <= List.length b.
Proof. intros a b H; induction H; simpl; lia. Qed.

Lemma del_range_subseq : forall lo hi t t', del_range lo hi t = Some t' ->
  subseq t' t /\ List.length t' + (hi - lo) = List.length t /\
  firstn lo t' = firstn lo t /\ skipn lo t' = skipn hi t.
Proof.
  intros lo hi t t' H. unfold del_range in H.
  destruct (Nat.leb lo hi && Nat.leb hi (List.length t)) eqn:E; [|discriminate]. inversion H; subst. clear H.
  apply andb_prop in E. destruct E as [E1 E2]. apply Nat.leb_le in E1. apply Nat.leb_le in E2.
  assert (Lf : List.length (firstn lo t) = lo) by (rewrite firstn_length; lia).
  split; [|split; [|split]].
  - rewrite <- (firstn_skipn lo t) at 3. apply subseq_app; [apply subseq_refl|].
    replace (skipn hi t) with (skipn (hi - lo) (skipn lo t)) by (rewrite skipn_skipn'; f_equal; lia).
    generalize (skipn lo t) (hi - lo). intros l k; revert l; induction k; intros l; simpl; [apply subseq_refl|].
    destruct l; [constructor|]. constructor. apply IHk.
  - rewrite app_length, Lf, skipn_length. lia.
  - rewrite firstn_app, Lf, Nat.sub_diag. simpl. rewrite app_nil_r. rewrite firstn_firstn. f_equal. lia.
  - rewrite skipn_app, Lf, Nat.sub_diag. simpl. rewrite skipn_all2; [reflexivity|lia].
Qed.

Lemma del_all_subseq : forall rs t t', del_all rs t = Some t' -> subseq t' t.
Proof.
  induction rs as [|[[k lo] hi] rs IH]; intros t t' H; simpl in H.
  - inversion H; apply subseq_refl.
  - destruct (del_range lo hi t) as [t1|] eqn:D; [|discriminate].
    apply del_range_subseq in D. destruct D as [D _]. eapply subseq_trans; [exact D|]. apply IH; auto.
Qed.

Theorem edit_remove_subseq : forall actv attr out, edit_remove actv attr = Some out -> subseq out attr.
Proof.
  intros actv attr out H. unfold edit_remove in H. destruct (file_ranges actv); [|discriminate].
  eapply del_all_subseq; eauto.
Qed.

(* nothing to delete = nothing changes (a non-active attribute is left alone) *)
Theorem edit_remove_inactive : forall actv attr, is_active_text actv = Some false -> edit_remove actv attr = Some attr.
Proof.
  intros actv attr H. unfold is_active_text in H. unfold edit_remove.
  destruct (file_ranges actv) as [[|r rs]|]; try discriminate. reflexivity.
Qed.

(* ---------- `closes`: `edit(file)` or, with a trailing comma, `edit(file,)` ---------- *)
Lemma trim_start_nil : forall t, trim_start t = [] <-> forallb is_ws t = true.
Proof.
  induction t as [|c t IH]; simpl; [tauto|]. destruct (is_ws c); simpl; [exact IH|split; discriminate].
Qed.

Lemma trim_start_head : forall t c r, trim_start t = c :: r -> is_ws c = false.
Proof.
  induction t as [|x t IH]; intros c r H; simpl in H; [discriminate|].
  destruct (is_ws x) eqn:E; [eauto|]. inversion H; subst. exact E.
Qed.

(* str::trim() leaves nothing iff every character is white space *)
Lemma trim_nil : forall t, trim t = [] <-> forallb is_ws t = true.
Proof.
  intros t. unfold trim. split; intros H.
  - destruct (trim_start t) as [|c r] eqn:E; [apply trim_start_nil; exact E|].
    apply (f_equal (@rev ascii)) in H. rewrite rev_involutive in H. simpl in H.
    apply trim_start_nil in H. rewrite forallb_forall in H.
    pose proof (trim_start_head _ _ _ E) as Hc.
    rewrite (H c) in Hc; [discriminate|]. apply in_or_app. right. simpl. auto.
  - apply trim_start_nil in H. rewrite H. reflexivity.
Qed.

Lemma forallb_firstn_nth : forall (f : ascii -> bool) k l, k <= List.length l ->
  (forallb f (firstn k l) = true <-> forall j, j < k -> exists c, nth_error l j = Some c /\ f c = true).
Proof.
  induction k as [|k IH]; intros l Hk.
  - simpl. split; [intros _ j Hj; lia|auto].
  - destruct l as [|x l]; [simpl in Hk; lia|]. simpl in Hk. simpl firstn. simpl forallb.
    rewrite andb_true_iff. rewrite (IH l) by lia. split.
    + intros [Hx Hl] j Hj. destruct j; simpl; [eauto|]. apply Hl. lia.
    + intros H. split.
      * destruct (H 0) as [c [Hc Hf]]; [lia|]. simpl in Hc. inversion Hc; subst. exact Hf.
      * intros j Hj. apply (H (S j)). lia.
Qed.

(* blank_between s a b: the slice s[a..b] exists and every character at a position a <= i < b is white space *)
Theorem blank_between_spec : forall s a b,
  blank_between s a b = true <->
  a <= b /\ b <= List.length s /\ forall i, a <= i < b -> exists c, nth_error s i = Some c /\ is_ws c = true.
Proof.
  intros s a b. unfold blank_between, slice.
  destruct (Nat.leb a b && Nat.leb b (List.length s)) eqn:E.
  - apply andb_prop in E. destruct E as [E1 E2]. apply Nat.leb_le in E1. apply Nat.leb_le in E2.
    assert (K : trim (firstn (b - a) (skipn a s)) = [] <->
                forall i, a <= i < b -> exists c, nth_error s i = Some c /\ is_ws c = true).
    { rewrite trim_nil. rewrite forallb_firstn_nth by (rewrite skipn_length; lia). split.
      - intros H i Hi. destruct (H (i - a)) as [c [Hc Hw]]; [lia|]. rewrite nth_error_skipn' in Hc.
        replace (a + (i - a)) with i in Hc by lia. eauto.
      - intros H j Hj. rewrite nth_error_skipn'. apply H. lia. }
    destruct (trim (firstn (b - a) (skipn a s))) as [|x r] eqn:T.
    + split; [intros _; repeat split; auto; apply K; reflexivity|reflexivity].
    + split; [discriminate|]. intros [_ [_ H]]. apply K in H. discriminate.
  - split; [discriminate|]. intros [H1 [H2 _]].
    apply Nat.leb_le in H1. apply Nat.leb_le in H2. rewrite H1, H2 in E. discriminate.
Qed.

(* the repair only adds cases: what closed before (n.end == end) still closes *)
Lemma closes_end : forall s n en, Nat.eqb (a_end n) en = true -> closes s n en = true.
Proof. intros s n en H. unfold closes. rewrite H. reflexivity. Qed.

Theorem closes_spec : forall s n en,
  closes s n en = true <->
  a_end n = en \/ (a_comma n = Some (a_end n) /\ blank_between s (S (a_end n)) en = true).
Proof.
  intros s n en. unfold closes. rewrite orb_true_iff, andb_true_iff, Nat.eqb_eq.
  destruct (a_comma n) as [cm|].
  - rewrite Nat.eqb_eq. split; (intros [H|[H1 H2]]; [left; exact H|right; split; auto]); congruence.
  - split; (intros [H|[H1 H2]]; [left; exact H|discriminate]).
Qed.

(* no panic is hidden in `closes`: under the guard of fie_pick (n.end <= end) and with `end` an index into the text
   (it is the recorded `)` of the edit argument), the slice attr_str[n.end+1..end] is evaluated only when n.end < end,
   and then it is in range *)
Lemma closes_slice_in_range : forall s n en, Nat.leb (a_end n) en = true -> en <= List.length s ->
  a_end n = en \/ exists t, slice (S (a_end n)) en s = Some t.
Proof.
  intros s n en H L. apply Nat.leb_le in H. destruct (Nat.eq_dec (a_end n) en) as [E|E]; [left; exact E|right].
  unfold slice. assert (K1 : Nat.leb (S (a_end n)) en = true) by (apply Nat.leb_le; lia).
  assert (K2 : Nat.leb en (List.length s) = true) by (apply Nat.leb_le; lia).
  rewrite K1, K2. simpl. eauto.
Qed.

Lemma ok_close_in_text : forall s e en, ok_arg s e -> a_close e = Some en -> en < List.length s.
Proof.
  intros s e en [_ [Hc _]] H. apply Hc in H. apply nth_error_Some. rewrite H. discriminate.
Qed.

(* ---------- the repaired behaviour on concrete attribute texts ---------- *)
Definition surg (a : string) : option (list range) * option string :=
  (file_ranges (s2l a), option_map l2s (edit_remove (s2l a) (s2l a))).
Definition tc_newline : string := "edit(file ," ++ String (ascii_of_nat 10) "  )".

(* reference: `edit(file)` - the whole `(file)` group goes, `edit` stays *)
Example fie_trailing_comma_ex0 : surg "edit(file)" = (Some [(4, 4, 10)], Some "edit"%string).
Proof. vm_compute. reflexivity. Qed.
(* `edit(file,)`: the whole `(file,)` group goes *)
Example fie_trailing_comma_ex1 : surg "edit(file,)" = (Some [(4, 4, 11)], Some "edit"%string).
Proof. vm_compute. reflexivity. Qed.
(* blanks around the comma *)
Example fie_trailing_comma_ex2 : surg "edit(file , )" = (Some [(4, 4, 13)], Some "edit"%string).
Proof. vm_compute. reflexivity. Qed.
(* blanks and a newline before the parenthesis *)
Example fie_trailing_comma_ex3 : surg tc_newline = (Some [(4, 4, 15)], Some "edit"%string).
Proof. vm_compute. reflexivity. Qed.
(* inside a whole attribute: same result as for `edit(file)` *)
Example fie_trailing_comma_ex4 :
  surg "#[interthread::actor(edit(file,))]" = (Some [(25, 25, 32)], Some "#[interthread::actor(edit)]"%string) /\
  surg "#[interthread::actor(edit(file))]" = (Some [(25, 25, 31)], Some "#[interthread::actor(edit)]"%string) /\
  surg "#[interthread::actor(edit(file , ), debut)]" = (Some [(25, 25, 34)], Some "#[interthread::actor(edit, debut)]"%string).
Proof. vm_compute. repeat split; reflexivity. Qed.
(* the attribute is file-active now *)
Example fie_trailing_comma_ex5 :
  is_active_text (s2l "edit(file,)") = Some true /\ is_active_text (s2l "#[interthread::actor(edit(file , ))]") = Some true.
Proof. vm_compute. split; reflexivity. Qed.
(* `edit(file, live)`: unchanged - a bare `file` that does not close the edit list is not a marker: nothing is deleted,
   the attribute is not active *)
Example fie_trailing_comma_ex6 :
  surg "edit(file, live)" = (Some [], Some "edit(file, live)"%string) /\
  surg "#[interthread::actor(edit(file, live))]" = (Some [], Some "#[interthread::actor(edit(file, live))]"%string) /\
  is_active_text (s2l "edit(file, live)") = Some false.
Proof. vm_compute. repeat split; reflexivity. Qed.
(* `edit(file,x)`: something other than white space follows the comma - not the whole-edit marker *)
Example fie_trailing_comma_ex7 :
  surg "edit(file,x)" = (Some [], Some "edit(file,x)"%string) /\
  surg "#[interthread::actor(edit(file,x))]" = (Some [], Some "#[interthread::actor(edit(file,x))]"%string) /\
  is_active_text (s2l "edit(file,x)") = Some false.
Proof. vm_compute. repeat split; reflexivity. Qed.
(* a second comma is not white space either; a trailing comma does not make a later `file` the marker
   (arg_edit.open == n.start - 1 still fails), nor one nested deeper (depth) *)
Example fie_trailing_comma_ex8 :
  fst (surg "edit(file,,)") = Some [] /\ fst (surg "edit(live, file,)") = Some [] /\ fst (surg "edit(script(file,))") = Some [].
Proof. vm_compute. repeat split; reflexivity. Qed.
(* `closes` itself on the `file` argument as parse_args records it, for `edit(file,)`, `edit(file , )`, `edit(file,x)`,
   `edit(file)` *)
Example fie_trailing_comma_ex9 :
  parse_args (s2l "edit(file,)") = Some [mkarg 0 0 None (Some 4) (Some 10) 0 None; mkarg 1 10 None None None 10 None;
                                         mkarg 1 5 None None None 9 (Some 9)] /\
  fie_pick (s2l "edit(file,)") (mkarg 0 0 None (Some 4) (Some 10) 0 None) 0 10 (mkarg 1 5 None None None 9 (Some 9))
    = Some (Some (mkarg 0 0 None (Some 4) (Some 10) 0 None)) /\
  closes (s2l "edit(file,)") (mkarg 1 5 None None None 9 (Some 9)) 10 = true /\
  closes (s2l "edit(file , )") (mkarg 1 5 None None None 10 (Some 10)) 12 = true /\
  closes (s2l "edit(file,x)") (mkarg 1 5 None None None 9 (Some 9)) 11 = false /\
  closes (s2l "edit(file)") (mkarg 1 5 None None None 9 None) 9 = true.
Proof. vm_compute. repeat split; reflexivity. Qed.
