(* Preservation of the real-time order invariant [order_ok]. *)
From Coq Require Import List Arith Bool Lia.
Import ListNotations.
From IT Require Import Runtime.Actor Runtime.Lists Runtime.ActorInv Runtime.InvDefs.

(* ---- list facts ---- *)
Lemma snoc_split {X} (l : list X) x h1 y h2 :
  l ++ [x] = h1 ++ y :: h2 ->
  (h2 = [] /\ x = y /\ l = h1) \/ (exists h2', h2 = h2' ++ [x] /\ l = h1 ++ y :: h2').
Proof.
  destruct (exists_last (l := y :: h2)) as (h2' & z & E); [discriminate|].
  intros H. rewrite E in H. rewrite app_assoc in H. apply app_inj_tail in H. destruct H as [Hl <-].
  destruct h2' as [|w h2'].
  - cbn in E. injection E as -> ->. left. rewrite app_nil_r in Hl. auto.
  - cbn in E. injection E as <- ->. right. exists h2'. auto.
Qed.

(* the last clause of [order_ok] as a predicate on the history and the accepted list *)
Definition P4 (h : list event) (e : list callid) :=
  forall h1 h2 c1 c2, h = h1 ++ EInv c2 :: h2 -> In (ERet c1) h1 -> In c1 e -> In c2 e -> precedes c1 c2 e.

Lemma P4_ret h e c : P4 h e -> P4 (h ++ [ERet c]) e.
Proof.
  intros I h1 h2 c1 c2 E. apply snoc_split in E. destruct E as [(_ & D & _)|(h2' & _ & E)]; [discriminate D|].
  eapply I; eauto.
Qed.

Lemma P4_inv h e c : P4 h e -> ~ In c e -> P4 (h ++ [EInv c]) e.
Proof.
  intros I N h1 h2 c1 c2 E. apply snoc_split in E. destruct E as [(_ & D & _)|(h2' & _ & E)].
  - injection D as ->. intros _ _ I2. contradiction.
  - eapply I; eauto.
Qed.

Lemma P4_enq h e c : P4 h e -> (forall c1, In (ERet c1) h -> c1 <> c) -> P4 h (e ++ [c]).
Proof.
  intros I N h1 h2 c1 c2 E R I1 I2.
  assert (R' : In (ERet c1) h). { rewrite E. apply in_or_app. left. exact R. }
  apply in_app_or in I1. destruct I1 as [I1|[->|[]]]; [|exfalso; eapply N; eauto].
  apply in_app_or in I2. destruct I2 as [I2|[->|[]]].
  - apply precedes_app_r. eapply I; eauto.
  - apply precedes_snoc. exact I1.
Qed.

Section Inv.
Context {A V : Type}.
Variable sem : nat -> A -> list V -> option (A * V).
Variable sem_slf : nat -> A -> list V -> V.
Variable dv : V.
Notation st := (@st A V).
Notation step := (step sem sem_slf dv).
Notation step' := (step' sem sem_slf dv).
Notation run_from := (run_from sem sem_slf dv).
Notation run := (run sem sem_slf dv).

(* case analysis of one step: one goal per transition *)
Ltac step_cases H :=
  unfold Actor.step, step_client, step_actor in H;
  repeat match type of H with
  | context [match ?x with _ => _ end] => destruct x eqn:?; try discriminate H
  end;
  try (injection H as <-).

Lemma order_init (a0 : A) (progs : list (list (@op V) * nat)) : order_ok (Actor.init a0 progs).
Proof.
  unfold order_ok. cbn. repeat split.
  - intros c [].
  - intros t cl c k E P. apply nth_error_In in E. apply in_map_iff in E. destruct E as (p & <- & _). discriminate P.
  - intros t cl c k vs E P. apply nth_error_In in E. apply in_map_iff in E. destruct E as (p & <- & _). discriminate P.
  - intros h1 h2 c1 c2 E. destruct h1; discriminate E.
Qed.

Lemma order_step4 m s ch s' : ids_ok s -> order_ok s -> step m s ch = Some s' -> P4 (hist s') (enq s').
Proof.
  intros (D1 & D2 & D3 & D4 & D5 & D6 & D7 & D8) (I1 & I2 & I3 & I4) H. change (P4 (hist s) (enq s)) in I4.
  destruct ch as [t|]; cbn [Actor.step] in H.
  - step_cases H; cbn [hist enq put client_panics with_actor with_busy with_exited with_queue with_senders with_slots with_clients with_issued with_enq with_deq with_lost with_applied with_dropped with_hist with_ctor_runs with_spawns with_drops with_moved].
    all: try (apply P4_ret).
    all: try exact I4.
    all: try (apply P4_inv; [exact I4|]; intros F; apply D1 in F; destruct F as (cl & E & L); cbn in E, L;
              match goal with N : nth_error (clients _) _ = Some ?c, P : c_pc ?c = _ |- _ => rewrite N in E end; injection E as <-; lia).
    all: apply P4_enq; [exact I4|]; intros c1 R ->;
         match goal with N : nth_error (clients _) _ = Some ?c, P : c_pc ?c = _ |- _ =>
           first [ destruct (D5 _ _ _ _ _ _ N P) as [N1 N2] | destruct (D6 _ _ _ _ _ N P) as [N1 N2] ] end;
         destruct (I1 _ R); contradiction.
  - step_cases H; cbn [hist enq crash with_actor with_busy with_exited with_queue with_senders with_slots with_clients with_issued with_enq with_deq with_lost with_applied with_dropped with_hist with_ctor_runs with_spawns with_drops with_moved].
    all: exact I4.
Qed.

Lemma order_step m s ch s' : ids_ok s -> order_ok s -> step m s ch = Some s' -> order_ok s'.
Proof.
  intros D I H. pose proof (order_step4 _ _ _ _ D I H) as I4'.
  destruct D as (D1 & D2 & D3 & D4 & D5 & D6 & D7 & D8). destruct I as (I1 & I2 & I3 & I4).
  unfold order_ok. split; [|split; [|split; [|exact I4']]]; clear I4'.
  - destruct ch as [t|]; cbn [Actor.step] in H.
    + step_cases H; cbn [hist enq lost put client_panics with_actor with_busy with_exited with_queue with_senders with_slots with_clients with_issued with_enq with_deq with_lost with_applied with_dropped with_hist with_ctor_runs with_spawns with_drops with_moved].
      all: intros c1 R; rewrite ?in_app_iff in *; cbn [In] in *.
      all: try (destruct R as [R|[R|[]]]; [| first [discriminate R | injection R as <-]]).
      all: try (destruct (I1 _ R); tauto).
      all: try (match goal with N : nth_error (clients _) _ = Some ?c, P : c_pc ?c = _ |- _ =>
             first [ pose proof (I2 _ _ _ _ N P) | pose proof (I3 _ _ _ _ _ N P) ] end).
      all: intuition auto.
    + step_cases H; cbn [hist enq lost crash with_actor with_busy with_exited with_queue with_senders with_slots with_clients with_issued with_enq with_deq with_lost with_applied with_dropped with_hist with_ctor_runs with_spawns with_drops with_moved].
      all: exact I1.
  - destruct ch as [t|]; cbn [Actor.step] in H.
    + step_cases H; cbn [clients enq lost put client_panics with_actor with_busy with_exited with_queue with_senders with_slots with_clients with_issued with_enq with_deq with_lost with_applied with_dropped with_hist with_ctor_runs with_spawns with_drops with_moved].
      all: intros t0 cl c1 k0 N P; apply upd_nth in N; destruct N as [(<- & -> & _)|(Ne & N)];
           [ cbn in P; first [discriminate P | injection P as <- <-]
           | pose proof (I2 _ _ _ _ N P) ];
           rewrite ?in_app_iff; cbn [In]; intuition auto.
    + step_cases H; cbn [clients enq lost crash with_actor with_busy with_exited with_queue with_senders with_slots with_clients with_issued with_enq with_deq with_lost with_applied with_dropped with_hist with_ctor_runs with_spawns with_drops with_moved].
      all: exact I2.
  - destruct ch as [t|]; cbn [Actor.step] in H.
    + step_cases H; cbn [clients enq lost put client_panics with_actor with_busy with_exited with_queue with_senders with_slots with_clients with_issued with_enq with_deq with_lost with_applied with_dropped with_hist with_ctor_runs with_spawns with_drops with_moved].
      all: intros t0 cl c1 k0 vs0 N P; apply upd_nth in N; destruct N as [(<- & -> & _)|(Ne & N)];
           [ cbn in P; first [discriminate P | injection P as <- <- <-]
           | pose proof (I3 _ _ _ _ _ N P) ];
           rewrite ?in_app_iff; cbn [In]; intuition auto.
    + step_cases H; cbn [clients enq lost crash with_actor with_busy with_exited with_queue with_senders with_slots with_clients with_issued with_enq with_deq with_lost with_applied with_dropped with_hist with_ctor_runs with_spawns with_drops with_moved].
      all: exact I3.
Qed.
End Inv.
