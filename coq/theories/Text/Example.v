(* Text/Example.v -- model of `file::expand_macro(s)` (src/file.rs:94-165) over a list of top-level items,
   and of the file-system footprint of `write::example_show` (src/write.rs:18-135).

   A source file is a list of items
       IImpl attrs body | IUse attrs tree | IOther attrs payload | IVerb payload   (Item::Verbatim: attributes unreachable)
   with abstract attribute arguments A, impl bodies B and payloads X.  The code generator of the
   attribute macros is the abstract function
       gen mac args (impl with the macro attributes removed) : list item
   = the items of `ActorAttributeArguments::generate_example_code` (generate_model with `show` off). *)
From Coq Require Import List String Bool Permutation Lia PeanoNat.
Import ListNotations.
From IT Require Import Text.UseMacro.
Open Scope string_scope.
Open Scope list_scope.

Definition EXAMPLE : string := "example".

Section Example.
Variables A B X : Type.

Record attr : Type := { a_path : apath; a_args : A }.

Inductive item : Type :=
| IImpl (attrs : list attr) (b : B)
| IUse (attrs : list attr) (t : utree)
| IOther (attrs : list attr) (x : X)
| IVerb (x : X).

Variable gen : string -> A -> list attr -> B -> list item.

(* UseMacro::exclude *)
Definition exclude (u : um) (attrs : list attr) : list attr := filter (fun a => negb (is_mac u (a_path a))) attrs.

(* UseMacro::exclude_self_macro *)
Definition exclude_self (u : um) (it : item) : item :=
  match it with
  | IImpl attrs b => IImpl (exclude u attrs) b
  | IUse attrs t => IUse (exclude u attrs) t
  | IOther attrs x => IOther (exclude u attrs) x
  | IVerb x => IVerb x
  end.

Definition macro_attrs (u : um) (attrs : list attr) : list attr := filter (fun a => is_mac u (a_path a)) attrs.

(* the two import states after one item (shared by the model of the code and by the specification) *)
Definition next (u ue : um) (it : item) : um * um :=
  match it with
  | IUse _ t =>
      match update u t with
      | (u', Some t1) => (u', fst (update ue t1))
      | (u', None) => (u', ue)
      end
  | _ => (u, ue)
  end.

(* what one iteration of the `for item in &mut file.items` loop pushes onto `new_items_file` *)
Definition pushed (mac : string) (u ue : um) (it0 : item) : list (list item) :=
  match exclude_self ue it0 with
  | IImpl attrs b =>
      if existsb (fun a => is_mac u (a_path a)) attrs then
        (* for attr in &attrs.clone() { if is(attr) { attrs = exclude(attrs); code.insert(0, impl); push(code) } } *)
        map (fun a => IImpl (exclude u attrs) b :: gen mac (a_args a) (exclude u attrs) b) (macro_attrs u attrs)
      else [[IImpl attrs b]]
  | IUse attrs t =>
      match update u t with
      | (_, Some t1) => match update ue t1 with (_, Some t2) => [[IUse attrs t2]] | (_, None) => [] end
      | (_, None) => []
      end
  | it => [[it]]
  end.

Definition step (mac : string) (s : um * um * list (list item)) (it : item) : um * um * list (list item) :=
  match s with
  | (u, ue, acc) => let '(u', ue') := next u ue it in (u', ue', acc ++ pushed mac u ue it)
  end.

(* file::expand_macro: the loop, then `new_items_file.into_iter().flatten()` *)
Definition expand_macro (mac : string) (file : list item) : list item :=
  List.concat (snd (fold_left (step mac) file (um_new mac, um_new EXAMPLE, []))).

(* file::expand_macros *)
Definition expand_macros (macs : list string) (file : list item) : list item :=
  fold_left (fun f m => expand_macro m f) macs file.

(* ---- the specification ------------------------------------------------------------------------ *)

(* what should stand in place of one item: an annotated impl once, without the macro attributes, followed by
   what each of its macro attributes generates; a `use` item without the macro imports (dropped when empty);
   anything else unchanged (minus `example` attributes) *)
Definition spec_item (mac : string) (u ue : um) (it0 : item) : list item :=
  match exclude_self ue it0 with
  | IImpl attrs b =>
      if existsb (fun a => is_mac u (a_path a)) attrs then
        IImpl (exclude u attrs) b :: flat_map (fun a => gen mac (a_args a) (exclude u attrs) b) (macro_attrs u attrs)
      else [IImpl attrs b]
  | IUse attrs t =>
      match update u t with
      | (_, Some t1) => match update ue t1 with (_, Some t2) => [IUse attrs t2] | (_, None) => [] end
      | (_, None) => []
      end
  | it => [it]
  end.

Fixpoint spec_from (mac : string) (u ue : um) (file : list item) : list item :=
  match file with
  | [] => []
  | it :: rest => spec_item mac u ue it ++ (let '(u', ue') := next u ue it in spec_from mac u' ue' rest)
  end.

Definition spec (mac : string) (file : list item) : list item := spec_from mac (um_new mac) (um_new EXAMPLE) file.

(* guard: no impl carries two attributes that denote the macro being expanded (state-exact, decidable) *)
Definition dup_item (u ue : um) (it0 : item) : bool :=
  match exclude_self ue it0 with
  | IImpl attrs _ => negb (Nat.leb (List.length (macro_attrs u attrs)) 1)
  | _ => false
  end.

Fixpoint dup_from (u ue : um) (file : list item) : bool :=
  match file with
  | [] => false
  | it :: rest => dup_item u ue it || (let '(u', ue') := next u ue it in dup_from u' ue' rest)
  end.

Definition dup_attr (mac : string) (file : list item) : bool := dup_from (um_new mac) (um_new EXAMPLE) file.

Lemma pushed_spec : forall mac u ue it, dup_item u ue it = false -> List.concat (pushed mac u ue it) = spec_item mac u ue it.
Proof.
  intros mac u ue it D. unfold pushed, spec_item, dup_item in *.
  destruct (exclude_self ue it) as [attrs b | attrs t | attrs x | x]; simpl; auto.
  - destruct (existsb (fun a => is_mac u (a_path a)) attrs) eqn:E; simpl; auto.
    apply negb_false_iff in D. apply Nat.leb_le in D.
    destruct (macro_attrs u attrs) as [|a [|a' r]] eqn:M; simpl in *.
    + exfalso. apply existsb_exists in E. destruct E as (a & I & Ha).
      assert (In a (macro_attrs u attrs)) by (apply filter_In; auto). rewrite M in H. exact H.
    + rewrite !app_nil_r. reflexivity.
    + lia.
  - destruct (update u t) as [u' [t1|]]; simpl; auto.
    destruct (update ue t1) as [ue' [t2|]]; simpl; auto.
Qed.

Lemma fold_step : forall mac file u ue acc,
  dup_from u ue file = false ->
  List.concat (snd (fold_left (step mac) file (u, ue, acc))) = List.concat acc ++ spec_from mac u ue file.
Proof.
  induction file as [|it rest IH]; intros u ue acc D; simpl.
  - rewrite app_nil_r. reflexivity.
  - simpl in D. apply orb_false_iff in D. destruct D as [D1 D2].
    destruct (next u ue it) as [u' ue'] eqn:N. rewrite IH; auto.
    rewrite concat_app, (pushed_spec mac u ue it D1), app_assoc. reflexivity.
Qed.

(* FULL-STRENGTH STATEMENT (false: two_attrs_refuted below, finding F12):
     forall mac file, expand_macro mac file = spec mac file                                   *)
Theorem expand_macro_shape : forall mac file, dup_attr mac file = false -> expand_macro mac file = spec mac file.
Proof. intros mac file D. unfold expand_macro, spec. rewrite fold_step; auto. Qed.

(* several passes (expand(actor, family)): each pass is the specification applied to the previous result *)
Fixpoint dup_all (macs : list string) (file : list item) : bool :=
  match macs with [] => false | m :: ms => dup_attr m file || dup_all ms (spec m file) end.

Theorem expand_macros_shape : forall macs file, dup_all macs file = false ->
  expand_macros macs file = fold_left (fun f m => spec m f) macs file.
Proof.
  induction macs as [|m ms IH]; intros file D; simpl; auto.
  simpl in D. apply orb_false_iff in D. destruct D as [D1 D2].
  unfold expand_macros in *. simpl. rewrite expand_macro_shape; auto.
Qed.

(* ---- consequences of the shape, item by item -------------------------------------------------- *)

Definition is_impl (it : item) : bool := match it with IImpl _ _ => true | _ => false end.
Definition is_use (it : item) : bool := match it with IUse _ _ => true | _ => false end.

(* an item that is neither an impl nor a `use` is copied, alone, minus `example` attributes *)
Theorem spec_other_unchanged : forall mac u ue it, is_impl it = false -> is_use it = false ->
  spec_item mac u ue it = [exclude_self ue it].
Proof. intros mac u ue it H1 H2. unfold spec_item. destruct it; simpl in *; try discriminate; reflexivity. Qed.

(* an impl without an attribute denoting the macro is copied *)
Theorem spec_plain_impl_unchanged : forall mac u ue attrs b,
  existsb (fun a => is_mac u (a_path a)) (exclude ue attrs) = false ->
  spec_item mac u ue (IImpl attrs b) = [IImpl (exclude ue attrs) b].
Proof. intros. unfold spec_item. simpl. rewrite H. reflexivity. Qed.

(* the output of one pass is the concatenation, in source order, of the replacement of each item *)
Theorem spec_in_order : forall mac f1 f2 u ue,
  spec_from mac u ue (f1 ++ f2) =
  spec_from mac u ue f1 ++ (let '(u', ue') := fold_left (fun s it => next (fst s) (snd s) it) f1 (u, ue) in spec_from mac u' ue' f2).
Proof.
  induction f1 as [|it r IH]; intros f2 u ue; simpl; auto.
  destruct (next u ue it) as [u' ue'] eqn:N. rewrite IH, app_assoc. reflexivity.
Qed.

(* the attributes left on an expanded impl contain none that denotes the macro *)
Theorem exclude_no_macro : forall u attrs, macro_attrs u (exclude u attrs) = [].
Proof.
  intros u attrs. unfold macro_attrs, exclude. induction attrs as [|a r IH]; simpl; auto.
  destruct (is_mac u (a_path a)) eqn:E; simpl; auto. rewrite E. exact IH.
Qed.

(* ... and all the others, in order *)
Theorem exclude_keeps_others : forall u attrs,
  filter (fun a => negb (is_mac u (a_path a))) (exclude u attrs) = filter (fun a => negb (is_mac u (a_path a))) attrs.
Proof.
  intros u attrs. unfold exclude. induction attrs as [|a r IH]; simpl; auto.
  destruct (is_mac u (a_path a)) eqn:E; simpl; auto. rewrite E. simpl. rewrite IH. reflexivity.
Qed.

End Example.

Arguments IImpl {A B X}.
Arguments IUse {A B X}.
Arguments IOther {A B X}.
Arguments IVerb {A B X}.
Arguments Build_attr {A}.
Arguments a_path {A}.
Arguments a_args {A}.

(* ---- concrete instance: payloads are tags, the generator emits one tagged item per expansion ---------- *)

Definition titem : Type := item string string string.
Definition tgen (mac : string) (args : string) (attrs : list (attr string)) (b : string) : list titem :=
  [IVerb ("gen:" ++ mac ++ ":" ++ args ++ ":" ++ b)%string].

Definition t_expand (macs : list string) (file : list titem) : list titem := expand_macros string string string tgen macs file.
Definition t_spec (macs : list string) (file : list titem) : list titem :=
  fold_left (fun f m => spec string string string tgen m f) macs file.

Definition at_ (l : bool) (s : list string) (args : string) : attr string := Build_attr (ap l s) args.

Fixpoint count_impl (b : string) (l : list titem) : nat :=
  match l with
  | [] => 0
  | IImpl _ b' :: r => (if b' =? b then 1 else 0) + count_impl b r
  | _ :: r => count_impl b r
  end.

(* F12: #[interthread::actor(name="X")] #[interthread::actor(name="Y")] impl B  =>  the impl is emitted twice *)
Lemma two_attrs_refuted : exists file : list titem,
  dup_attr _ _ _ "actor" file = true /\ count_impl "B" file = 1 /\
  count_impl "B" (t_spec ["actor"] file) = 1 /\ count_impl "B" (t_expand ["actor"] file) = 2.
Proof.
  exists [IImpl [at_ false ["interthread"; "actor"] "a1"; at_ false ["interthread"; "actor"] "a2"] "B"].
  vm_compute. auto.
Qed.

(* the guard is satisfiable on a non-trivial file: actor and family on one impl, imported through a group with an alias *)
Example shape_example :
  let file : list titem :=
    [ IUse [] (UPath "std" (UName "fmt"));
      IUse [] (UPath "interthread" (UGroup [URename "actor" "act"; UName "family"; UName "example"]));
      IOther [at_ false ["example"] "e"; at_ false ["derive"] "d"] "struct S";
      IImpl [at_ false ["act"] "a1"; at_ false ["allow"] "x"; at_ false ["family"] "f1"] "S";
      IOther [] "fn tail" ] in
  dup_all _ _ _ tgen ["actor"; "family"] file = false /\
  t_expand ["actor"; "family"] file =
    [ IUse [] (UPath "std" (UName "fmt"));
      IOther [at_ false ["derive"] "d"] "struct S";
      IImpl [at_ false ["allow"] "x"] "S";
      IVerb "gen:family:f1:S";
      IVerb "gen:actor:a1:S";
      IOther [] "fn tail" ].
Proof. vm_compute. auto. Qed.

(* ---- file-level findings of the import tracking (state is per pass, single slot, in file order) -------- *)

Definition has_annotated (file : list titem) (p : apath) : bool :=
  existsb (fun it => match it with IImpl attrs _ => existsb (fun a => list_eqb (segs (a_path a)) (segs p) && Bool.eqb (lead (a_path a)) (lead p)) attrs | _ => false end) file.

Definition all_uses (file : list titem) : list utree := flat_map (fun it => match it with IUse _ t => [t] | _ => [] end) file.

(* `use interthread::*;` with both macros in the file: the first pass removes the glob, the second pass
   no longer recognises #[family]; the attribute stays and its import is gone *)
Lemma glob_both_refuted : exists file : list titem, exists p,
  denotes "family" (all_uses file) p = true /\ has_annotated file p = true /\
  dup_all _ _ _ tgen ["actor"; "family"] file = false /\
  has_annotated (t_expand ["actor"; "family"] file) p = true /\ all_uses (t_expand ["actor"; "family"] file) = [].
Proof.
  exists [IUse [] (UPath "interthread" UGlob); IImpl [at_ false ["actor"] "a1"] "A"; IImpl [at_ false ["family"] "f1"] "B"].
  exists (ap false ["family"]). vm_compute. auto 6.
Qed.

(* a `use` item after the annotated impl (legal Rust): not recognised, and the import is removed *)
Lemma late_import_refuted : exists file : list titem, exists p,
  denotes "actor" (all_uses file) p = true /\ has_annotated file p = true /\
  has_annotated (t_expand ["actor"] file) p = true /\ all_uses (t_expand ["actor"] file) = [].
Proof.
  exists [IImpl [at_ false ["actor"] "a1"] "A"; IUse [] (UPath "interthread" (UName "actor"))].
  exists (ap false ["actor"]). vm_compute. auto 6.
Qed.

(* printing of a tagged file, for the correspondence with the real example file *)
Definition show_apath (p : apath) : string := ((if lead p then "::" else "") ++ String.concat "::" (segs p))%string.
Definition show_attrs (l : list (attr string)) : string := String.concat "," (map (fun a => a_args a) l).
Definition show_item (it : titem) : string :=
  match it with
  | IImpl attrs b => ("impl " ++ b ++ " [" ++ show_attrs attrs ++ "]")%string
  | IUse attrs t => ("use " ++ show_tree t ++ " [" ++ show_attrs attrs ++ "]")%string
  | IOther attrs x => ("other " ++ x ++ " [" ++ show_attrs attrs ++ "]")%string
  | IVerb x => x
  end.

(* ---- file-system footprint of write::example_show ------------------------------------------------ *)

Definition path : Type := list string.        (* components *)

Inductive fs_op : Type :=
| CreateDir (p : path)
| RemoveDirAll (p : path)
| OpenTrunc (p : path)           (* OpenOptions write+truncate+create *)
| WriteAll (p : path) (content : string)
| Fsync (p : path)
| SetPerm (p : path)
| Rename (src dst : path)
| RemoveFile (p : path).

Fixpoint prefixb (d p : path) : bool :=
  match d, p with
  | [], _ => true
  | x :: d', y :: p' => (x =? y) && prefixb d' p'
  | _, _ => false
  end.

Inductive node : Type := Dir | File (content : string).
Definition fs : Type := path -> option node.

Definition apply (op : fs_op) (f : fs) : fs :=
  match op with
  | CreateDir p => fun q => if list_eqb q p then (match f q with None => Some Dir | o => o end) else f q
  | RemoveDirAll p => fun q => if prefixb p q then None else f q
  | OpenTrunc p => fun q => if list_eqb q p then Some (File "") else f q
  | WriteAll p c => fun q => if list_eqb q p then Some (File c) else f q
  | Fsync _ => f
  | SetPerm _ => f
  | Rename a b => fun q => if list_eqb q b then f a else if list_eqb q a then None else f q
  | RemoveFile p => fun q => if list_eqb q p then None else f q
  end.

Definition run_ops (ops : list fs_op) (f : fs) : fs := fold_left (fun f op => apply op f) ops f.

(* write::write(val, target): sibling temporary file, then rename *)
Definition write_ops (dir : path) (name pid content : string) : list fs_op :=
  let tmp := dir ++ [(name ++ ".inter_tmp_" ++ pid)%string] in
  let target := dir ++ [name] in
  [OpenTrunc tmp; WriteAll tmp content; Fsync tmp; SetPerm tmp; Rename tmp target].

(* write::example_show -> example_path -> example_check_get, then write_file (+ main.rs) *)
Definition example_ops (cwd : path) (dir fname pid : string) (examples_exists dir_exists want_main : bool) (code main_code : string) : list fs_op :=
  let ex := cwd ++ ["examples"] in
  let d := ex ++ [dir] in
  (if examples_exists then [] else [CreateDir ex])
  ++ (if dir_exists then [RemoveDirAll d] else [])
  ++ [CreateDir d]
  ++ write_ops d fname pid code
  ++ (if want_main then write_ops d "main.rs" pid main_code else []).

(* where an operation may change the tree *)
Definition inside (ex d : path) (q : path) : bool := list_eqb q ex || prefixb d q.

Definition op_inside (ex d : path) (op : fs_op) : bool :=
  match op with
  | CreateDir p | OpenTrunc p | WriteAll p _ | Fsync p | SetPerm p | RemoveFile p => inside ex d p
  | RemoveDirAll p => prefixb d p          (* everything below p goes: p itself must be inside d *)
  | Rename a b => inside ex d a && inside ex d b
  end.

Lemma prefixb_app : forall d s, prefixb d (d ++ s) = true.
Proof. induction d; simpl; auto. intros. rewrite String.eqb_refl. simpl. apply IHd. Qed.

Lemma prefixb_trans : forall a b c, prefixb a b = true -> prefixb b c = true -> prefixb a c = true.
Proof.
  induction a as [|x a IH]; intros b c H1 H2; simpl; auto.
  destruct b as [|y b]; simpl in H1; try discriminate. destruct c as [|z c]; simpl in H2; try discriminate.
  apply andb_true_iff in H1. destruct H1 as [E1 P1]. apply andb_true_iff in H2. destruct H2 as [E2 P2].
  apply String.eqb_eq in E1. apply String.eqb_eq in E2. subst. simpl. rewrite String.eqb_refl. simpl. eapply IH; eauto.
Qed.

Lemma list_eqb_refl : forall a, list_eqb a a = true.
Proof. intros. apply list_eqb_eq. reflexivity. Qed.

Lemma apply_outside : forall ex d op f q, op_inside ex d op = true -> inside ex d q = false -> apply op f q = f q.
Proof.
  intros ex d op f q Hin Hout. unfold inside in Hout. apply orb_false_iff in Hout. destruct Hout as [O1 O2].
  assert (NE : forall p, inside ex d p = true -> list_eqb q p = false).
  { intros p Hp. destruct (list_eqb q p) eqn:E; auto. apply list_eqb_eq in E. subst p.
    unfold inside in Hp. rewrite O1, O2 in Hp. discriminate. }
  destruct op; simpl in *; try reflexivity; try (rewrite (NE _ Hin); reflexivity).
  - destruct (prefixb p q) eqn:E; auto. rewrite (prefixb_trans _ _ _ Hin E) in O2. discriminate.
  - apply andb_true_iff in Hin. destruct Hin as [Ha Hb]. rewrite (NE _ Hb), (NE _ Ha). reflexivity.
Qed.

Lemma run_outside : forall ex d ops f q, forallb (op_inside ex d) ops = true -> inside ex d q = false -> run_ops ops f q = f q.
Proof.
  induction ops as [|op r IH]; intros f q H O; simpl; auto.
  simpl in H. apply andb_true_iff in H. destruct H as [H1 H2].
  unfold run_ops in *. simpl. rewrite IH; auto. eapply apply_outside; eauto.
Qed.

Lemma inside_sub : forall ex d s, inside ex d (d ++ s) = true.
Proof. intros. unfold inside. rewrite prefixb_app. apply orb_true_r. Qed.

Lemma write_ops_inside : forall ex d name pid c, forallb (op_inside ex d) (write_ops d name pid c) = true.
Proof. intros. unfold write_ops. simpl. rewrite !inside_sub. reflexivity. Qed.

Theorem example_ops_inside : forall cwd dir fname pid e1 e2 m code mc,
  let ex := cwd ++ ["examples"] in let d := ex ++ [dir] in
  forallb (op_inside ex d) (example_ops cwd dir fname pid e1 e2 m code mc) = true.
Proof.
  intros. unfold example_ops. fold ex. fold d. rewrite !forallb_app. rewrite write_ops_inside.
  assert (Hd : inside ex d d = true) by (rewrite <- (app_nil_r d) at 2; apply inside_sub).
  assert (He : inside ex d ex = true) by (unfold inside; rewrite list_eqb_refl; reflexivity).
  assert (Hp : prefixb d d = true) by (rewrite <- (app_nil_r d) at 2; apply prefixb_app).
  replace (forallb (op_inside ex d) (if m then write_ops d "main.rs" pid mc else [])) with true
    by (destruct m; [rewrite write_ops_inside|]; reflexivity).
  destruct e1, e2; cbn [forallb op_inside]; rewrite ?Hd, ?He, ?Hp; reflexivity.
Qed.

(* nothing outside <cwd>/examples/<dir> is created, changed or deleted; <cwd>/examples itself may be created *)
Theorem example_footprint : forall cwd dir fname pid e1 e2 m code mc (f : fs) q,
  let ex := cwd ++ ["examples"] in let d := ex ++ [dir] in
  q <> ex -> prefixb d q = false ->
  run_ops (example_ops cwd dir fname pid e1 e2 m code mc) f q = f q.
Proof.
  intros. eapply run_outside. - apply example_ops_inside. - unfold inside. fold ex d. rewrite H0.
  destruct (list_eqb q ex) eqn:E; auto. apply list_eqb_eq in E. contradiction.
Qed.

(* <cwd>/examples is only ever created as a directory, never replaced or removed *)
Theorem example_examples_dir : forall cwd dir fname pid e1 e2 m code mc (f : fs),
  let ex := cwd ++ ["examples"] in
  run_ops (example_ops cwd dir fname pid e1 e2 m code mc) f ex = match f ex with None => if e1 then None else Some Dir | o => o end.
Proof.
  intros. set (d := ex ++ [dir]).
  assert (ND : forall s, list_eqb ex (d ++ s) = false).
  { intros s. destruct (list_eqb ex (d ++ s)) eqn:E; auto. apply list_eqb_eq in E. unfold d in E.
    apply (f_equal (@List.length string)) in E. rewrite !app_length in E. simpl in E. lia. }
  assert (NP : prefixb d ex = false).
  { destruct (prefixb d ex) eqn:E; auto. exfalso.
    assert (L : forall a b, prefixb a b = true -> List.length a <= List.length b).
    { induction a; destruct b; simpl; intros; try discriminate; try lia. apply andb_true_iff in H. destruct H. apply IHa in H0. lia. }
    apply L in E. unfold d in E. rewrite app_length in E. simpl in E. lia. }
  assert (W : forall name c g, run_ops (write_ops d name pid c) g ex = g ex).
  { intros. unfold write_ops, run_ops. simpl. rewrite !ND. reflexivity. }
  unfold example_ops. fold ex. fold d. unfold run_ops. rewrite !fold_left_app. fold (run_ops).
  assert (Wm : forall g, fold_left (fun f op => apply op f) (if m then write_ops d "main.rs" pid mc else []) g ex = g ex).
  { intros. destruct m; [apply W | reflexivity]. }
  rewrite Wm. change (fold_left (fun f0 op => apply op f0) (write_ops d fname pid code)) with (run_ops (write_ops d fname pid code)).
  rewrite W. simpl. rewrite <- (app_nil_r d) at 1. rewrite ND.
  destruct e2; simpl; rewrite ?NP; destruct e1; simpl; rewrite ?list_eqb_refl; destruct (f ex); reflexivity.
Qed.

Example footprint_example :
  let f : fs := fun q => if list_eqb q ["w"; "src"; "a.rs"] then Some (File "src") else
                         if list_eqb q ["w"; "examples"; "inter"; "old.rs"] then Some (File "stale") else
                         if list_eqb q ["w"; "examples"; "other"; "keep.rs"] then Some (File "keep") else None in
  let g := run_ops (example_ops ["w"] "inter" "a.rs" "7" true true true "code" "main") f in
  g ["w"; "src"; "a.rs"] = Some (File "src") /\ g ["w"; "examples"; "other"; "keep.rs"] = Some (File "keep") /\
  g ["w"; "examples"; "inter"; "old.rs"] = None /\ g ["w"; "examples"; "inter"; "a.rs"] = Some (File "code") /\
  g ["w"; "examples"; "inter"; "main.rs"] = Some (File "main") /\ g ["w"; "examples"; "inter"; "a.rs.inter_tmp_7"] = None.
Proof. vm_compute. auto 8. Qed.
