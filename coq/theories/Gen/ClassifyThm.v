(* Proofs about Gen/Classify.v (property C05). *)
From Coq Require Import List String Ascii Bool Arith Lia.
Import ListNotations.
From IT Require Import Gen.Classify.
Open Scope string_scope.
Open Scope list_scope.

(* ---------- lists of names ---------- *)
Lemma mem_In : forall n l, mem n l = true <-> In n l.
Proof.
  induction l as [|x r IH]; simpl; [split; [discriminate|tauto]|].
  destruct (String.eqb_spec x n); [subst; tauto|].
  rewrite IH. split; [tauto|]. intros [H|H]; [congruence|exact H].
Qed.

Lemma mem_false_not_In : forall n l, mem n l = false <-> ~ In n l.
Proof. intros. rewrite <- mem_In. destruct (mem n l); split; congruence. Qed.

Lemma remove_first_notin : forall n l, mem n l = false -> remove_first n l = l.
Proof.
  induction l as [|x r IH]; simpl; auto. destruct (String.eqb x n); [discriminate|]. intros H. now rewrite IH.
Qed.

Lemma mem_remove_first_neq : forall n n' l, n' <> n -> mem n' (remove_first n l) = mem n' l.
Proof.
  induction l as [|x r IH]; simpl; auto. intros Hn.
  destruct (String.eqb_spec x n).
  - subst. destruct (String.eqb_spec n n'); [congruence|reflexivity].
  - simpl. now rewrite IH.
Qed.

Lemma filter_all_true : forall (A : Type) (f : A -> bool) l, (forall x, In x l -> f x = true) -> List.filter f l = l.
Proof.
  induction l as [|x r IH]; simpl; auto. intros H. rewrite (H x (or_introl eq_refl)). f_equal. apply IH. intros; apply H; auto.
Qed.

Lemma remove_first_filter : forall n l, NoDup l -> remove_first n l = filter (fun x => negb (String.eqb x n)) l.
Proof.
  induction l as [|x r IH]; simpl; auto. intros ND. inversion ND as [|? ? Hx ND']; subst.
  destruct (String.eqb_spec x n); simpl.
  - subst. symmetry. apply filter_all_true. intros y Hy. destruct (String.eqb_spec y n); [subst; contradiction|reflexivity].
  - now rewrite IH.
Qed.

Definition consume (names l : list string) : list string := fold_left (fun acc n => remove_first n acc) names l.

Lemma consume_filter : forall names l, NoDup l -> consume names l = filter (fun x => negb (mem x names)) l.
Proof.
  induction names as [|n r IH]; intros l ND; simpl.
  - symmetry. apply filter_all_true. reflexivity.
  - unfold consume in *. simpl. rewrite IH.
    + rewrite remove_first_filter by assumption. clear. induction l as [|x l IH]; simpl; auto.
      rewrite (String.eqb_sym n x).
      destruct (String.eqb x n); simpl; [exact IH|]. destruct (mem x r); simpl; [exact IH|now rewrite IH].
    + rewrite remove_first_filter by assumption. now apply NoDup_filter.
Qed.

Lemma has_dup_NoDup : forall l, has_dup l = false -> NoDup l.
Proof.
  induction l as [|x r IH]; simpl; [constructor|]. intros H. apply orb_false_elim in H as [H1 H2].
  constructor; [now apply mem_false_not_In|auto].
Qed.

(* ---------- FilterSet::condition ---------- *)
Definition sel (f : fset) (n : string) : bool := match f with Include l => mem n l | Exclude l => negb (mem n l) end.

Lemma condition_sel : forall (f : fset) n, snd (condition f n) = sel f n.
Proof. intros [l|l] n; simpl; destruct (mem n l); reflexivity. Qed.

Lemma condition_list : forall f n, flt_list (fst (condition f n)) = remove_first n (flt_list f).
Proof. intros [l|l] n; simpl; destruct (mem n l) eqn:E; simpl; auto; now rewrite remove_first_notin. Qed.

Lemma condition_sel_other : forall f n n', n' <> n -> sel (fst (condition f n)) n' = sel f n'.
Proof.
  intros [l|l] n n' H; simpl; destruct (mem n l) eqn:E; simpl; auto; now rewrite mem_remove_first_neq.
Qed.

(* ---------- classify agrees with the declarative notions ---------- *)
Lemma classify_keep : forall c m k via, classify c m = SKeep k via ->
  eligible c m = true /\ live_kind c m = k /\ live_params k via m = spec_params c m.
Proof.
  intros c m k via. unfold classify, eligible, is_ctor, family_skipped, live_kind, spec_params, conv_kind, live_params.
  destruct (is_inh (mi_vis m)); [discriminate|]. simpl.
  destruct (mi_recv m) eqn:R.
  - intros H; inversion H; subst. auto.
  - destruct (is_slf (c_recv c)); [|discriminate]. intros H; inversion H; subst. auto.
  - destruct (is_ctor_name (mi_name m)); [discriminate|]. simpl. unfold second_sort.
    destruct (mi_params m) as [|p ps]; [intros H; inversion H; subst; auto|].
    destruct (p_actor p); [|intros H; inversion H; subst; auto].
    destruct (split_ref (p_ty p)) as [[rm elem]|].
    + destruct (rm && negb (is_slf (c_recv c))); [discriminate|].
      destruct (is_rcvr c elem); [intros H; inversion H; subst; auto|].
      destruct (is_rcvr c (p_ty p)); intros H; inversion H; subst; auto.
    + destruct (is_rcvr c (p_ty p)); intros H; inversion H; subst; auto.
Qed.

Lemma classify_not_keep : forall c m, (classify c m = SSkip \/ classify c m = SNew) -> eligible c m = false.
Proof.
  intros c m. unfold classify, eligible, is_ctor, family_skipped.
  destruct (is_inh (mi_vis m)); [reflexivity|]. simpl.
  destruct (mi_recv m).
  - intros [H|H]; discriminate.
  - destruct (is_slf (c_recv c)); [intros [H|H]; discriminate|reflexivity].
  - destruct (is_ctor_name (mi_name m)); [reflexivity|].
    destruct (second_sort c m) as [[| |]|]; intros [H|H]; discriminate.
Qed.

Lemma mk_live_spec : forall c m k via, classify c m = SKeep k via -> sig_spec c m (mk_live c k via m).
Proof.
  intros c m k via H. destruct (classify_keep _ _ _ _ H) as (_ & LK & LP).
  unfold sig_spec, mk_live, has_receiver, consuming; simpl. rewrite LK, LP.
  repeat split; auto; destruct k; simpl in *; auto; try congruence.
  destruct (c_debut c && mi_slf_ok m); reflexivity.
Qed.

(* ---------- process: method set, signatures, what is left of the filter ---------- *)
Definition elig_names (c : cfg) (ms : list method_in) := map mi_name (filter (eligible c) ms).

Lemma process_spec : forall c ms f f' lms n,
  process c f ms = Ok (f', lms, n) ->
  NoDup (elig_names c ms) ->
     map lm_from lms = filter (fun m => eligible c m && sel f (mi_name m)) ms
  /\ Forall (fun lm => sig_spec c (lm_from lm) lm) lms
  /\ flt_list f' = consume (elig_names c ms) (flt_list f).
Proof.
  intros c. induction ms as [|m r IH]; intros f f' lms n H ND.
  - simpl in H. inversion H; subst. simpl. auto.
  - cbn [process] in H. unfold elig_names in *. simpl in ND |- *.
    destruct (classify c m) as [| |k via|d] eqn:CL.
    + rewrite (classify_not_keep c m (or_introl CL)) in *. simpl. eauto.
    + rewrite (classify_not_keep c m (or_intror CL)) in *. simpl.
      destruct (process c f r) as [[[f1 l1] n1]|] eqn:P; [|discriminate]. inversion H; subst. eauto.
    + destruct (classify_keep _ _ _ _ CL) as (EL & _ & _). rewrite EL in *. simpl in ND |- *.
      destruct (mem (mi_name m) (inter_set c)); [discriminate|].
      pose proof (condition_sel f (mi_name m)) as CS. pose proof (condition_list f (mi_name m)) as CLs.
      pose proof (condition_sel_other f (mi_name m)) as CO.
      destruct (condition f (mi_name m)) as [f1 b]. simpl in CS, CLs, CO. subst b.
      inversion ND as [|? ? Hnot ND']; subst.
      assert (EXT : filter (fun m0 => eligible c m0 && sel f1 (mi_name m0)) r
                  = filter (fun m0 => eligible c m0 && sel f (mi_name m0)) r).
      { apply filter_ext_in. intros m0 Hin. destruct (eligible c m0) eqn:E0; simpl; auto.
        apply CO. intros Heq. apply Hnot. rewrite <- Heq. apply in_map. apply filter_In. auto. }
      destruct (sel f (mi_name m)) eqn:SEL.
      * destruct (process c f1 r) as [[[f2 l2] n2]|] eqn:P; [|discriminate]. inversion H; subst.
        destruct (IH _ _ _ _ P ND') as (A & B & C). simpl. rewrite A, EXT, C, CLs. repeat split; auto.
        constructor; auto. simpl. now apply mk_live_spec.
      * destruct (IH _ _ _ _ H ND') as (A & B & C). rewrite A, EXT, C, CLs. auto.
    + discriminate.
Qed.

(* ---------- gen ---------- *)
Lemma sel_parse : forall fo f, parse_filter fo = Ok f -> forall n, sel f n = selected fo n.
Proof.
  intros [g|] f; simpl.
  - destruct (has_dup (flt_list g) || mem "new" (flt_list g) || mem "try_new" (flt_list g)); [discriminate|].
    intros H; inversion H; subst. destruct f; reflexivity.
  - intros H; inversion H; subst. reflexivity.
Qed.

Lemma parse_NoDup : forall fo f, parse_filter fo = Ok f -> NoDup (flt_list f).
Proof.
  intros [g|] f; simpl.
  - destruct (has_dup (flt_list g)) eqn:D; simpl; [discriminate|].
    destruct (mem "new" (flt_list g) || mem "try_new" (flt_list g)); [discriminate|].
    intros H; inversion H; subst. now apply has_dup_NoDup.
  - intros H; inversion H; subst. constructor.
Qed.

Lemma parse_list : forall fo f, parse_filter fo = Ok f -> flt_list f = match fo with Some g => flt_list g | None => [] end.
Proof.
  intros [g|] f; simpl.
  - destruct (has_dup (flt_list g) || mem "new" (flt_list g) || mem "try_new" (flt_list g)); [discriminate|].
    intros H; inversion H; subst. reflexivity.
  - intros H; inversion H; subst. reflexivity.
Qed.

Lemma gen_inv : forall c ms o, gen c ms = Ok o ->
  exists f0 f' n, parse_filter (c_filter c) = Ok f0 /\ process c f0 ms = Ok (f', o_mets o, n) /\ flt_list f' = []
    /\ o_user o = ms /\ o_script o = script_name c /\ o_live o = live_name c
    /\ (is_std (c_lib c) = true -> forall lm, In lm (o_mets o) -> is_lref (lm_recv lm) = true -> mi_async (lm_from lm) = false).
Proof.
  intros c ms o. unfold gen.
  destruct (parse_filter (c_filter c)) as [f0|] eqn:PF; [|discriminate].
  destruct (process c f0 ms) as [[[f' lms] n]|] eqn:P; [|discriminate].
  destruct (flt_list f') eqn:FL; [|discriminate].
  destruct n as [nw|]; [|discriminate].
  destruct (is_std (c_lib c) && existsb (fun lm => is_lref (lm_recv lm) && mi_async (lm_from lm)) lms) eqn:A; [discriminate|].
  intros H; inversion H; subst; simpl. exists f0, f', (Some nw). repeat split; auto.
  intros S lm Hin HR. rewrite S in A. simpl in A.
  destruct (mi_async (lm_from lm)) eqn:AS; auto.
  assert (existsb (fun lm => is_lref (lm_recv lm) && mi_async (lm_from lm)) lms = true).
  { apply existsb_exists. exists lm. rewrite HR, AS. auto. }
  congruence.
Qed.

Theorem gen_method_set : forall c ms o, NoDup (elig_names c ms) -> gen c ms = Ok o ->
  map lm_from (o_mets o) = filter (fun m => eligible c m && selected (c_filter c) (mi_name m)) ms.
Proof.
  intros c ms o ND G. destruct (gen_inv _ _ _ G) as (f0 & f' & n & PF & P & _).
  destruct (process_spec _ _ _ _ _ _ P ND) as (A & _ & _). rewrite A.
  apply filter_ext. intros m. now rewrite (sel_parse _ _ PF).
Qed.

Theorem gen_method_names : forall c ms o, NoDup (elig_names c ms) -> gen c ms = Ok o ->
  map lm_name (o_mets o) = map mi_name (filter (fun m => eligible c m && selected (c_filter c) (mi_name m)) ms).
Proof.
  intros c ms o ND G. rewrite <- (gen_method_set _ _ _ ND G).
  destruct (gen_inv _ _ _ G) as (f0 & f' & n & PF & P & _).
  destruct (process_spec _ _ _ _ _ _ P ND) as (_ & B & _).
  rewrite map_map. apply map_ext_in. intros lm Hin. rewrite Forall_forall in B. now destruct (B lm Hin).
Qed.

Theorem gen_signature : forall c ms o, NoDup (elig_names c ms) -> gen c ms = Ok o ->
  forall lm, In lm (o_mets o) -> In (lm_from lm) ms /\ sig_spec c (lm_from lm) lm.
Proof.
  intros c ms o ND G lm Hin. destruct (gen_inv _ _ _ G) as (f0 & f' & n & PF & P & _).
  destruct (process_spec _ _ _ _ _ _ P ND) as (A & B & _). split.
  - assert (In (lm_from lm) (map lm_from (o_mets o))) by now apply in_map.
    rewrite A in H. now apply filter_In in H.
  - rewrite Forall_forall in B. auto.
Qed.

(* receiver methods: async exactly when the runtime is not std *)
Theorem gen_async_rule : forall c ms o, NoDup (elig_names c ms) -> gen c ms = Ok o ->
  forall lm, In lm (o_mets o) ->
    (forall b, lm_recv lm = LRef b -> lm_async lm = negb (is_std (c_lib c)))
    /\ (lm_recv lm = LNone -> lm_async lm = mi_async (lm_from lm))
    /\ (lm_recv lm = LVal -> lm_async lm = negb (is_std (c_lib c)) || mi_async (lm_from lm)).
Proof.
  intros c ms o ND G lm Hin. destruct (gen_signature _ _ _ ND G lm Hin) as (_ & S).
  destruct (gen_inv _ _ _ G) as (_ & _ & _ & _ & _ & _ & _ & _ & _ & AS).
  destruct S as (_ & _ & _ & _ & _ & _ & HA & HR & _). unfold has_receiver in HA.
  destruct (live_kind c (lm_from lm)) eqn:K; rewrite HR; repeat split; try discriminate; auto.
  intros b _. rewrite HA. destruct (is_std (c_lib c)) eqn:S; simpl; auto.
  apply AS; auto. now rewrite HR.
Qed.

(* consumption + leftover check = membership + "every listed name is the name of an eligible method" *)
Theorem gen_filter_names_known : forall c ms o g, NoDup (elig_names c ms) -> gen c ms = Ok o -> c_filter c = Some g ->
  NoDup (flt_list g) /\ forall n, In n (flt_list g) -> In n (elig_names c ms).
Proof.
  intros c ms o g ND G CF. destruct (gen_inv _ _ _ G) as (f0 & f' & n & PF & P & FL & _).
  destruct (process_spec _ _ _ _ _ _ P ND) as (_ & _ & C).
  pose proof (parse_NoDup _ _ PF) as N0. pose proof (parse_list _ _ PF) as L0. rewrite CF in L0. rewrite L0 in *.
  split; auto. intros x Hx. rewrite consume_filter in C by assumption. rewrite FL in C.
  destruct (mem x (elig_names c ms)) eqn:M; [now apply mem_In|].
  assert (In x (filter (fun x => negb (mem x (elig_names c ms))) (flt_list g))) by (apply filter_In; rewrite M; auto).
  rewrite <- C in H. contradiction.
Qed.

Corollary gen_unknown_name_diag : forall c ms g x, NoDup (elig_names c ms) -> c_filter c = Some g ->
  In x (flt_list g) -> ~ In x (elig_names c ms) -> exists d, gen c ms = Diag d.
Proof.
  intros c ms g x ND CF Hx Hn. destruct (gen c ms) as [o|d] eqn:G; [|eauto].
  exfalso. apply Hn. now apply (proj2 (gen_filter_names_known _ _ _ _ ND G CF)).
Qed.

(* a private method, a constructor, or (family) a `self` method named in the filter is rejected, not silently ignored *)
Corollary gen_ineligible_in_filter_diag : forall c ms g m, NoDup (map mi_name ms) -> c_filter c = Some g ->
  In m ms -> eligible c m = false -> In (mi_name m) (flt_list g) -> exists d, gen c ms = Diag d.
Proof.
  intros c ms g m ND CF Hm El Hin.
  assert (ND' : NoDup (elig_names c ms)).
  { unfold elig_names. clear -ND. induction ms as [|a r IH]; simpl; [constructor|]. inversion ND; subst.
    destruct (eligible c a); simpl; auto. constructor; auto. intros H. apply H1.
    apply in_map_iff in H as (y & Hy & Hy'). apply filter_In in Hy' as [Hy' _]. rewrite <- Hy. now apply in_map. }
  apply (gen_unknown_name_diag c ms g (mi_name m) ND' CF Hin).
  unfold elig_names. intros H. apply in_map_iff in H as (y & Hy & Hy'). apply filter_In in Hy' as [Hy1 Hy2].
  assert (y = m).
  { clear -ND Hy Hy1 Hm. induction ms as [|a r IH]; [contradiction|]. simpl in ND. inversion ND; subst.
    destruct Hy1 as [->|Hy1], Hm as [->|Hm]; auto.
    - exfalso. apply H1. rewrite Hy. now apply in_map.
    - exfalso. apply H1. rewrite <- Hy. now apply in_map. }
  congruence.
Qed.

Theorem gen_impl_verbatim : forall c ms o, gen c ms = Ok o -> o_user o = ms.
Proof. intros c ms o G. now destruct (gen_inv _ _ _ G) as (_ & _ & _ & _ & _ & _ & U & _). Qed.

(* ---------- subst_self ---------- *)
Definition no_self (t : ty) := forallb (fun x => negb (String.eqb x "Self")) t.
Definition starts_colon (t : ty) := match t with y :: _ => String.eqb y "::" | [] => false end.

Lemma subst_self_id : forall a tb t, no_self t = true -> subst_self a tb t = t.
Proof.
  induction t as [|x r IH]; simpl; auto. intros H. apply andb_prop in H as [H1 H2].
  destruct (String.eqb x "Self"); [discriminate|]. now rewrite IH.
Qed.

Lemma subst_self_Self : forall a tb, subst_self a tb ["Self"] = a.
Proof. reflexivity. Qed.

(* `Self :: rest` -> `<turbofish> :: rest'`, the separator stays *)
Lemma subst_self_path : forall a tb r, subst_self a tb ("Self" :: "::" :: r) = tb ++ "::" :: subst_self a tb r.
Proof. reflexivity. Qed.

Lemma subst_self_plain : forall a tb r, starts_colon r = false -> subst_self a tb ("Self" :: r) = a ++ subst_self a tb r.
Proof. intros a tb [|y r] H; simpl in *; [now rewrite app_nil_r|now rewrite H]. Qed.

Lemma subst_self_removes_len : forall a tb n t, List.length t <= n -> no_self a = true -> no_self tb = true -> no_self (subst_self a tb t) = true.
Proof.
  intros a tb. induction n as [|n IH]; intros t L Ha Hb.
  - destruct t; [reflexivity|simpl in L; lia].
  - destruct t as [|x r]; [reflexivity|]. simpl in L. cbn [subst_self].
    destruct (String.eqb x "Self") eqn:E.
    + destruct r as [|y r']; [exact Ha|]. simpl in L. destruct (String.eqb y "::") eqn:E2; unfold no_self; rewrite forallb_app;
        apply andb_true_intro; split.
      * exact Hb.
      * cbn [forallb]. apply andb_true_intro. split; [reflexivity|]. assert (L' : List.length r' <= n) by lia. exact (IH r' L' Ha Hb).
      * exact Ha.
      * assert (L' : List.length (y :: r') <= n) by (simpl; lia). exact (IH (y :: r') L' Ha Hb).
    + unfold no_self. cbn [forallb]. rewrite E. simpl. assert (L' : List.length r <= n) by lia. exact (IH r L' Ha Hb).
Qed.

Lemma subst_self_removes : forall a tb t, no_self a = true -> no_self tb = true -> no_self (subst_self a tb t) = true.
Proof. intros. eapply subst_self_removes_len; eauto. Qed.

(* substitution distributes over concatenation unless the cut separates `Self` from its `::` *)
Lemma subst_self_app_len : forall a tb n t u, List.length t <= n -> starts_colon u = false ->
  subst_self a tb (t ++ u) = subst_self a tb t ++ subst_self a tb u.
Proof.
  intros a tb. induction n as [|n IH]; intros t u L Hu.
  - destruct t; [reflexivity|simpl in L; lia].
  - destruct t as [|x r]; [reflexivity|]. simpl in L. cbn [app subst_self].
    destruct (String.eqb x "Self") eqn:E.
    + destruct r as [|y r'].
      * simpl. destruct u as [|z u']; [now rewrite app_nil_r|]. simpl in Hu. now rewrite Hu.
      * simpl in L. cbn [app]. destruct (String.eqb y "::").
        -- rewrite IH by (auto; lia). now rewrite <- app_assoc.
        -- change (y :: r' ++ u) with ((y :: r') ++ u). rewrite IH by (auto; simpl; lia). now rewrite app_assoc.
    + rewrite IH by (auto; lia). reflexivity.
Qed.

Lemma subst_self_app : forall a tb t u, starts_colon u = false -> subst_self a tb (t ++ u) = subst_self a tb t ++ subst_self a tb u.
Proof. intros. eapply subst_self_app_len; eauto. Qed.

Lemma turbo_aux_no_self : forall t b, no_self t = true -> no_self (turbo_aux b t) = true.
Proof.
  induction t as [|x r IH]; intros b H; simpl; auto. destruct (String.eqb x "<") eqn:E.
  - destruct b; [exact H|]. unfold no_self. cbn [forallb]. simpl. exact H.
  - unfold no_self in *. cbn [forallb] in *. apply andb_prop in H as [H1 H2]. rewrite H1. simpl. now apply IH.
Qed.

Lemma turbo_no_self : forall t, no_self t = true -> no_self (turbo t) = true.
Proof. intros. now apply turbo_aux_no_self. Qed.

Example ex_turbo : turbo ["A"; "<"; "T"; ">"] = ["A"; "::"; "<"; "T"; ">"] /\ turbo ["crate"; "::"; "A"] = ["crate"; "::"; "A"].
Proof. split; reflexivity. Qed.

(* ---------- names ---------- *)
Lemma string_app_assoc : forall a b c : string, ((a ++ b) ++ c = a ++ (b ++ c))%string.
Proof. induction a; simpl; intros; [reflexivity|now rewrite IHa]. Qed.

Lemma string_app_inj_r : forall a b s : string, (a ++ s = b ++ s)%string -> a = b.
Proof.
  intros a b s H.
  assert (L : forall x y : string, String.length (x ++ y) = String.length x + String.length y).
  { induction x; simpl; intros; auto. }
  revert b H. induction a as [|c a IH]; intros [|d b] H; simpl in *; auto.
  - apply (f_equal String.length) in H. simpl in H. rewrite L in H. lia.
  - apply (f_equal String.length) in H. simpl in H. rewrite L in H. lia.
  - inversion H; subst. f_equal. now apply IH.
Qed.

Theorem names_actor : forall c, c_first c = None ->
  script_name c = (opt_or (c_name c) (c_actor_name c) ++ "Script")%string /\ live_name c = (opt_or (c_name c) (c_actor_name c) ++ "Live")%string.
Proof. intros c H. unfold script_name, live_name, base_name. rewrite H. simpl. auto. Qed.

Theorem names_member : forall f mb,
  live_name (member_cfg f mb) = (mb_first mb ++ opt_or (match mb_name mb with Some n => Some n | None => f_name f end) (f_actor_name f) ++ "Live")%string
  /\ script_name (member_cfg f mb) = (mb_first mb ++ opt_or (match mb_name mb with Some n => Some n | None => f_name f end) (f_actor_name f) ++ "Script")%string.
Proof. intros. unfold live_name, script_name, base_name, member_cfg; simpl. now rewrite !string_app_assoc. Qed.

Theorem names_family : forall f ms o, gen_family f ms = Ok o ->
  fo_name o = (opt_or (f_name f) (f_actor_name f) ++ "Family")%string
  /\ fo_fields o = map (fun mb => (snake (mb_first mb), live_name (member_cfg f mb))) (f_members f)
  /\ map o_live (fo_models o) = map (fun mb => live_name (member_cfg f mb)) (f_members f).
Proof.
  intros f ms o. unfold gen_family. destruct (gen_members f ms (f_members f)) as [l|] eqn:G; [|discriminate].
  intros H; inversion H; subst; simpl. repeat split; auto.
  clear H. revert l G. induction (f_members f) as [|mb r IH]; simpl; intros l G.
  - inversion G; reflexivity.
  - destruct (gen (member_cfg f mb) ms) as [o|] eqn:G1; [|discriminate].
    destruct (gen_members f ms r) as [l'|] eqn:G2; [|discriminate]. inversion G; subst. simpl.
    rewrite (IH l' eq_refl). f_equal. now destruct (gen_inv _ _ _ G1) as (_ & _ & _ & _ & _ & _ & _ & _ & L & _).
Qed.

(* members that keep the same `name` get distinct type names exactly when their first names differ *)
Theorem member_names_distinct : forall f m1 m2, mb_name m1 = mb_name m2 ->
  live_name (member_cfg f m1) = live_name (member_cfg f m2) -> mb_first m1 = mb_first m2.
Proof.
  intros f m1 m2 HN H. destruct (names_member f m1) as [A _], (names_member f m2) as [B _].
  rewrite A, B, HN in H. rewrite <- !string_app_assoc in H. apply string_app_inj_r in H. now apply string_app_inj_r in H.
Qed.

(* snake-case field names *)
Fixpoint no_upper (s : string) : bool := match s with EmptyString => true | String c r => negb (is_upper c) && no_upper r end.

Lemma lower_not_upper : forall c, is_upper c = true -> is_upper (lower c) = false.
Proof.
  intros c H. unfold lower. rewrite H. unfold is_upper in *.
  apply andb_prop in H as [H1 H2]. apply Nat.leb_le in H1, H2.
  rewrite nat_ascii_embedding by lia.
  apply andb_false_intro2. apply Nat.leb_gt. lia.
Qed.

Lemma snake_aux_no_upper : forall s b, no_upper (snake_aux b s) = true.
Proof.
  induction s as [|c r IH]; intros b; simpl; auto.
  destruct (is_upper c) eqn:U.
  - destruct b; simpl; rewrite ?lower_not_upper, ?IH by assumption; reflexivity.
  - simpl. now rewrite U, IH.
Qed.

Theorem snake_no_upper : forall s, no_upper (snake s) = true.
Proof. intros. apply snake_aux_no_upper. Qed.

Lemma snake_aux_id : forall s b, no_upper s = true -> snake_aux b s = s.
Proof.
  induction s as [|c r IH]; intros b H; simpl in *; auto. apply andb_prop in H as [H1 H2].
  destruct (is_upper c); [discriminate|]. now rewrite IH.
Qed.

Theorem snake_idempotent : forall s, snake (snake s) = snake s.
Proof. intros. apply snake_aux_id. apply snake_no_upper. Qed.

Theorem snake_capitalised : forall c r, is_upper c = true -> no_upper r = true -> snake (String c r) = String (lower c) r.
Proof. intros c r U N. unfold snake. simpl. rewrite U. now rewrite snake_aux_id. Qed.

(* ---------- hypotheses are satisfiable; the guard is needed ---------- *)
Definition ex_m (v : vis) (n : string) (r : recv_in) (ps : list param) (rt : option ty) : method_in :=
  {| mi_vis := v; mi_name := n; mi_async := false; mi_recv := r; mi_gen := ""; mi_params := ps; mi_ret := rt; mi_docs := []; mi_slf_ok := false |}.
Definition ex_cfg (f : option fset) : cfg :=
  {| c_lib := Tokio; c_recv := MSlf; c_filter := f; c_debut := false; c_actor_ty := ["A"]; c_actor_name := "A"; c_name := None; c_first := None |}.
Definition ex_impl : list method_in :=
  [ ex_m VPub "new" RNone [] (Some ["Self"]);
    ex_m VPub "inc" (RRef true) [{| p_actor := false; p_ty := ["Vec"; "<"; "Self"; ">"] |}] (Some ["Option"; "<"; "Self"; ">"]);
    ex_m VInh "hidden" (RRef false) [] None;
    ex_m VCrate "get" (RRef false) [] (Some ["u8"]);
    ex_m VPub "conv" RNone [{| p_actor := true; p_ty := ["&"; "A"] |}; {| p_actor := false; p_ty := ["u8"] |}] None;
    ex_m VPub "fin" (RVal false) [] (Some ["u8"]);
    ex_m VPub "stat" RNone [{| p_actor := false; p_ty := ["Self"] |}] None ].

Example ex_nodup : NoDup (elig_names (ex_cfg (Some (Exclude ["get"]))) ex_impl).
Proof. unfold elig_names. vm_compute. repeat constructor; simpl; intuition discriminate. Qed.

Example ex_gen_ok : option_map (fun o => map (fun lm => (lm_name lm, lm_vis lm, lm_async lm, lm_recv lm, lm_params lm)) (o_mets o))
    (match gen (ex_cfg (Some (Exclude ["get"]))) ex_impl with Ok o => Some o | Diag _ => None end)
  = Some [("inc", VPub, true, LRef true, [["Vec"; "<"; "A"; ">"]]); ("conv", VPub, true, LRef false, [["u8"]]);
          ("fin", VInh, true, LVal, []); ("stat", VPub, false, LNone, [["A"]])].
Proof. vm_compute. reflexivity. Qed.

Example ex_private_in_include_diag : gen (ex_cfg (Some (Include ["inc"; "hidden"]))) ex_impl = Diag DUnknownName.
Proof. vm_compute. reflexivity. Qed.

(* FULL-STRENGTH statement (no guard on names):
     forall c ms o, gen c ms = Ok o -> map lm_from (o_mets o) = filter (eligible && selected) ms
   is false of the faithful model: the filter CONSUMES a name when it matches, so of two methods with the same name only the
   first is selected by include(..) / dropped by exclude(..).  rustc rejects duplicate method names in one impl block, which
   is why the guard NoDup (elig_names c ms) costs nothing on compilable input. *)
Lemma method_set_unguarded_refuted : exists c ms o,
  gen c ms = Ok o /\ map lm_from (o_mets o) <> List.filter (fun m => eligible c m && selected (c_filter c) (mi_name m)) ms.
Proof.
  exists (ex_cfg (Some (Include ["a"]))), [ex_m VPub "new" RNone [] (Some ["Self"]); ex_m VPub "a" (RRef false) [] None; ex_m VPub "a" (RRef true) [] None].
  eexists. split; [vm_compute; reflexivity|]. vm_compute. discriminate.
Qed.

Example ex_family_names :
  option_map (fun o => (fo_name o, fo_fields o))
    (match gen_family {| f_lib := Std; f_lock := MSlf; f_name := Some "My"; f_debut := false; f_actor_ty := ["A"]; f_actor_name := "A";
                         f_members := [ {| mb_first := "User"; mb_name := None; mb_filter := Some (Include ["get"]) |};
                                        {| mb_first := "SuperAdmin"; mb_name := Some "Other"; mb_filter := None |} ] |} ex_impl
     with Ok o => Some o | Diag _ => None end)
  = Some ("MyFamily", [("user", "UserMyLive"); ("super_admin", "SuperAdminOtherLive")]).
Proof. vm_compute. reflexivity. Qed.

(* ---------- types ---------- *)
Theorem gen_types : forall c ms o, NoDup (elig_names c ms) -> gen c ms = Ok o ->
  forall lm, In lm (o_mets o) ->
    lm_ret lm = option_map (sub c) (mi_ret (lm_from lm))
    /\ lm_params lm = map (fun p => sub c (p_ty p)) (spec_params c (lm_from lm)).
Proof.
  intros c ms o ND G lm Hin. destruct (gen_signature _ _ _ ND G lm Hin) as (_ & S).
  destruct S as (_ & _ & _ & R & P & _). auto.
Qed.

(* regression witnesses of two repaired defects: a signature longer than one printed line, and `Self ::` paths *)
Example ex_long_signature :
  let m := {| mi_vis := VPub; mi_name := "reset"; mi_async := false; mi_recv := RNone; mi_gen := "g";
              mi_params := [{| p_actor := false; p_ty := ["u8"] |}; {| p_actor := false; p_ty := ["("; "u8"; ","; "String"; ")"] |};
                            {| p_actor := false; p_ty := ["fn"; "("; "u8"; ")"; "->"; "u8"] |}; {| p_actor := false; p_ty := ["T"] |}];
              mi_ret := Some ["Option"; "<"; "Self"; ">"]; mi_docs := []; mi_slf_ok := true |} in
  option_map (fun o => map lm_ret (o_mets o)) (match gen (ex_cfg None) [ex_m VPub "new" RNone [] (Some ["Self"]); m] with Ok o => Some o | Diag _ => None end)
  = Some [Some ["Option"; "<"; "A"; ">"]].
Proof. vm_compute. reflexivity. Qed.

Example ex_self_assoc_path :
  option_map (fun o => map lm_params (o_mets o))
    (match gen {| c_lib := Std; c_recv := MSlf; c_filter := None; c_debut := false; c_actor_ty := ["G"; "<"; "T"; ">"]; c_actor_name := "G"; c_name := None; c_first := None |}
               [ex_m VPub "new" RNone [] (Some ["Self"]);
                ex_m VPub "put" (RRef true) [{| p_actor := false; p_ty := ["["; "u8"; ";"; "Self"; "::"; "N"; "]"] |};
                                             {| p_actor := false; p_ty := ["Option"; "<"; "Self"; ">"] |}] None]
     with Ok o => Some o | Diag _ => None end)
  = Some [[["["; "u8"; ";"; "G"; "::"; "<"; "T"; ">"; "::"; "N"; "]"]; ["Option"; "<"; "G"; "<"; "T"; ">"; ">"]]].
Proof. vm_compute. reflexivity. Qed.

(* ---------- totality inside the envelope: every valid input gets a handle (so "none is missing" is not vacuous) ---------- *)
Definition fam_mut_actor (c : cfg) (m : method_in) : bool :=
  match mi_recv m, mi_params m with
  | RNone, p :: _ => p_actor p && negb (is_slf (c_recv c)) && match split_ref (p_ty p) with Some (true, _) => true | _ => false end
  | _, _ => false end.
Definition valid_input (c : cfg) (ms : list method_in) : Prop :=
  (match c_filter c with None => True | Some g =>
     NoDup (flt_list g) /\ mem "new" (flt_list g) = false /\ mem "try_new" (flt_list g) = false
     /\ (forall n, In n (flt_list g) -> In n (elig_names c ms)) end)
  /\ (exists m, In m ms /\ is_inh (mi_vis m) = false /\ is_ctor m = true)
  /\ (forall m, In m ms -> eligible c m = true ->
        mem (mi_name m) (inter_set c) = false /\ fam_mut_actor c m = false
        /\ (is_std (c_lib c) = true -> (exists b, live_kind c m = CRef b) -> mi_async m = false)).
Lemma classify_abort : forall c m d, classify c m = SAbort d -> eligible c m = true /\ fam_mut_actor c m = true.
Proof.
  intros c m d. unfold classify, eligible, is_ctor, family_skipped, fam_mut_actor.
  destruct (is_inh (mi_vis m)); [discriminate|]. simpl.
  destruct (mi_recv m); [discriminate|destruct (is_slf (c_recv c)); discriminate|].
  destruct (is_ctor_name (mi_name m)); [discriminate|]. simpl. unfold second_sort.
  destruct (mi_params m) as [|p ps]; [discriminate|].
  destruct (p_actor p); [|discriminate]. simpl.
  destruct (split_ref (p_ty p)) as [[rm elem]|].
  - destruct rm; simpl.
    + destruct (is_slf (c_recv c)); simpl; auto.
      destruct (is_rcvr c elem); [discriminate|]. destruct (is_rcvr c (p_ty p)); discriminate.
    + destruct (is_rcvr c elem); [discriminate|]. destruct (is_rcvr c (p_ty p)); discriminate.
  - destruct (is_rcvr c (p_ty p)); discriminate.
Qed.

Lemma classify_new : forall c m, is_inh (mi_vis m) = false -> is_ctor m = true -> classify c m = SNew.
Proof.
  intros c m V C. unfold classify, is_ctor in *. rewrite V. destruct (mi_recv m); try discriminate. now rewrite C.
Qed.

Lemma process_total : forall c ms f,
  (forall m, In m ms -> eligible c m = true ->
     mem (mi_name m) (inter_set c) = false /\ fam_mut_actor c m = false) ->
  exists r, process c f ms = Ok r.
Proof.
  intros c. induction ms as [|m r IH]; intros f H; [simpl; eauto|].
  cbn [process]. assert (Hr : forall m0, In m0 r -> eligible c m0 = true ->
     mem (mi_name m0) (inter_set c) = false /\ fam_mut_actor c m0 = false)
    by (intros; apply H; simpl; auto).
  destruct (classify c m) as [| |k via|d] eqn:CL.
  - apply IH; auto.
  - destruct (IH f Hr) as [[[f1 l1] n1] E]. rewrite E. eauto.
  - destruct (classify_keep _ _ _ _ CL) as (EL & _ & LP).
    destruct (H m (or_introl eq_refl) EL) as (A & _). rewrite A.
    destruct (condition f (mi_name m)) as [f1 b]. destruct b.
    + destruct (IH f1 Hr) as [[[f2 l2] n2] E]. rewrite E. eauto.
    + apply IH; auto.
  - destruct (classify_abort _ _ _ CL) as (EL & FM). destruct (H m (or_introl eq_refl) EL) as (_ & B). congruence.
Qed.

Lemma process_new : forall c ms f f' l n, process c f ms = Ok (f', l, n) ->
  (exists m, In m ms /\ classify c m = SNew) -> n <> None.
Proof.
  intros c. induction ms as [|m r IH]; intros f f' l n P [m0 [Hin CN]]; [contradiction|].
  cbn [process] in P. destruct Hin as [->|Hin].
  - rewrite CN in P. destruct (process c f r) as [[[f1 l1] n1]|]; [|discriminate]. inversion P; subst. discriminate.
  - destruct (classify c m) as [| |k via|d].
    + eapply IH; eauto.
    + destruct (process c f r) as [[[f1 l1] n1]|]; [|discriminate]. inversion P; subst. discriminate.
    + destruct (mem (mi_name m) (inter_set c)); [discriminate|].
      destruct (condition f (mi_name m)) as [f1 b]. destruct b.
      * destruct (process c f1 r) as [[[f2 l2] n2]|] eqn:E; [|discriminate]. inversion P; subst. eapply IH; eauto.
      * eapply IH; eauto.
    + discriminate.
Qed.

Theorem gen_total : forall c ms, NoDup (elig_names c ms) -> valid_input c ms -> exists o, gen c ms = Ok o.
Proof.
  intros c ms ND (VF & (mc & Hmc & Vmc & Cmc) & VM). unfold gen.
  assert (PF : exists f0, parse_filter (c_filter c) = Ok f0 /\ NoDup (flt_list f0) /\ forall n, In n (flt_list f0) -> In n (elig_names c ms)).
  { unfold parse_filter. destruct (c_filter c) as [g|].
    - destruct VF as (N & A & B & K). destruct (has_dup (flt_list g)) eqn:D.
      + exfalso. clear -N D. induction (flt_list g) as [|x r IH]; simpl in D; [discriminate|]. inversion N; subst.
        apply orb_prop in D as [D|D]; [apply mem_In in D; contradiction|auto].
      + rewrite A, B. simpl. eauto.
    - exists (Exclude []). simpl. repeat split; [constructor|contradiction]. }
  destruct PF as (f0 & PF & N0 & K0). rewrite PF.
  assert (ST : forall m, In m ms -> eligible c m = true -> mem (mi_name m) (inter_set c) = false /\ fam_mut_actor c m = false).
  { intros m Hm El. destruct (VM m Hm El) as (A & B & _). auto. }
  destruct (process_total c ms f0 ST) as [[[f' lms] n] P]. rewrite P.
  destruct (process_spec _ _ _ _ _ _ P ND) as (A & B & C).
  rewrite consume_filter in C by assumption.
  assert (FL : flt_list f' = []).
  { rewrite C. clear -K0. induction (flt_list f0) as [|x r IH]; simpl; auto.
    rewrite (proj2 (mem_In x (elig_names c ms))) by (apply K0; simpl; auto). simpl. apply IH. intros; apply K0; simpl; auto. }
  rewrite FL.
  destruct n as [nw|]; [|exfalso; eapply process_new; eauto; exists mc; split; auto; now apply classify_new].
  destruct (is_std (c_lib c) && existsb (fun lm => is_lref (lm_recv lm) && mi_async (lm_from lm)) lms) eqn:AS; [|eauto].
  exfalso. apply andb_prop in AS as [S AS]. apply existsb_exists in AS as (lm & Hin & AS). apply andb_prop in AS as [R AA].
  assert (Hf : In (lm_from lm) (map lm_from lms)) by now apply in_map.
  rewrite A in Hf. apply filter_In in Hf as [Hms El]. apply andb_prop in El as [El _].
  destruct (VM _ Hms El) as (_ & _ & V3). rewrite Forall_forall in B. destruct (B lm Hin) as (_ & _ & _ & _ & _ & _ & _ & HR & _).
  rewrite V3 in AA; [discriminate|assumption|]. rewrite HR in R. destruct (live_kind c (lm_from lm)); try discriminate. eauto.
Qed.

Example ex_valid_input : valid_input (ex_cfg (Some (Exclude ["get"]))) ex_impl.
Proof.
  split; [|split].
  - simpl. repeat split; auto; [repeat constructor; simpl; tauto|]. intros n [<-|[]]. vm_compute. tauto.
  - exists (ex_m VPub "new" RNone [] (Some ["Self"])). repeat split. left; reflexivity.
  - intros m Hm El. simpl in Hm. repeat destruct Hm as [<-|Hm]; try contradiction; try discriminate El; vm_compute; repeat split; auto; discriminate.
Qed.
