(* C18 -- example output is the source with each macro replaced by its real expansion; nothing outside
   examples/<dir> is touched.  Statements only; proofs live in Text/UseMacro.v and Text/Example.v.

   Model: file = list of items (IImpl attrs body | IUse attrs tree | IOther attrs x | IVerb x), `gen` = the abstract
   generator of the attribute macros with `show` off, `expand_macros` = src/file.rs (pre-scan of the `use` items, the
   loop, flatten), `fsu`/`update`/`is_mac` = src/use_macro.rs, `example_ops` = the fs operations of src/write.rs.
   State of the code: with the fixes dup-attr, abs-path, glob-both, reimport, late-import and crate-alias.

   The earlier `_refuted` theorems for two attributes on one impl, `::interthread::mac`, a macro imported under
   several names, `use interthread::*` with both macros, a `use` item after the impl, and the crate imported under
   another name (`use interthread as it; #[it::mac]`, `use interthread::{self as it};`) are replaced by positive
   theorems (C18_shape without guard, C18_abs_path, C18_every_import, C18_other_macro_import_kept,
   C18_recognition_position_free, C18_is_complete, C18_every_alias, C18_crate_alias_fixed, C18_crate_alias_file_fixed
   + the *_fixed examples in Text/Example.v).

   FULL-STRENGTH STATEMENT, formerly FALSE of the code, now proved (C18_is_complete) for every macro name other than
   `interthread` and `self`:
     (R)  forall mac uses p, denotes mac uses p = true -> is_mac (track mac uses) p = true
   The behaviour before the repair stays documented in Text/UseMacro.v (is_mac_old, is_crate_alias_old_refuted). *)
From Coq Require Import List String Bool Permutation.
Import ListNotations.
From IT Require Import Text.UseMacro Text.Example.

Section C18.
Variables A B X : Type.
Variable gen : string -> A -> list (attr A) -> B -> list (item A B X).

(* one pass, ANY file: every item is replaced, in source order, by `spec_item`: an annotated impl by itself (once, macro
   attributes removed) followed by what EACH of its macro attributes generates; a `use` item by itself minus the macro
   imports; anything else by itself *)
Theorem C18_shape : forall mac file, expand_macro A B X gen mac file = spec A B X gen mac file.
Proof. exact (expand_macro_shape A B X gen). Qed.

(* expand(actor, family): pass after pass *)
Theorem C18_shape_passes : forall macs file,
  expand_macros A B X gen macs file = fold_left (fun f m => spec A B X gen m f) macs file.
Proof. exact (expand_macros_shape A B X gen). Qed.

(* items that are neither impl nor use are copied alone (minus `example` attributes) ... *)
Theorem C18_other_unchanged : forall mac u ue it, is_impl A B X it = false -> is_use A B X it = false ->
  spec_item A B X gen mac u ue it = [exclude_self A B X ue it].
Proof. exact (spec_other_unchanged A B X gen). Qed.

(* ... so are impls without an attribute denoting the macro ... *)
Theorem C18_plain_impl_unchanged : forall mac u ue attrs b,
  existsb (fun a => is_mac u (a_path a)) (exclude A ue attrs) = false ->
  spec_item A B X gen mac u ue (IImpl attrs b) = [IImpl (exclude A ue attrs) b].
Proof. exact (spec_plain_impl_unchanged A B X gen). Qed.

(* ... and the replacements are concatenated in source order *)
Theorem C18_in_order : forall mac f1 f2 u ue,
  spec_from A B X gen mac u ue (f1 ++ f2) =
  spec_from A B X gen mac u ue f1 ++
  (let '(u', ue') := fold_left (fun s it => next A B X (fst s) (snd s) it) f1 (u, ue) in spec_from A B X gen mac u' ue' f2).
Proof. exact (spec_in_order A B X gen). Qed.

(* the expanded impl keeps exactly its non-macro attributes, in order *)
Theorem C18_attrs_stripped : forall u attrs,
  macro_attrs A u (exclude A u attrs) = [] /\
  filter (fun a => negb (is_mac u (a_path a))) (exclude A u attrs) = filter (fun a => negb (is_mac u (a_path a))) attrs.
Proof. intros u attrs. split. - exact (exclude_no_macro A u attrs). - exact (exclude_keeps_others A u attrs). Qed.

(* wherever an impl stands in the file, the macro is recognised as after ALL the `use` items, the later ones included *)
Theorem C18_recognition_position_free : forall mac f1 f2 ue p,
  let u := fst (fold_left (fun s it => next A B X (fst s) (snd s) it) f1 (prescan A B X mac (f1 ++ f2), ue)) in
  is_mac u p = is_mac (track mac (uses_of A B X (f1 ++ f2))) p.
Proof. exact (state_constant A B X). Qed.

(* hence every attribute path that denotes the macro w.r.t. the whole file is recognised at every position,
   crate-alias paths included (macro name other than `interthread`, `self`) *)
Theorem C18_denoted_is_recognised : forall mac f1 f2 ue p,
  (mac =? INTERTHREAD)%string = false -> (mac =? "self")%string = false ->
  denotes mac (uses_of A B X (f1 ++ f2)) p = true ->
  is_mac (fst (fold_left (fun s it => next A B X (fst s) (snd s) it) f1 (prescan A B X mac (f1 ++ f2), ue))) p = true.
Proof. exact (denoted_is_recognised A B X). Qed.

(* the former statement: any macro name, non-alias paths *)
Theorem C18_denoted_is_recognised_guarded : forall mac f1 f2 ue p,
  alias_path p = false -> denotes mac (uses_of A B X (f1 ++ f2)) p = true ->
  is_mac (fst (fold_left (fun s it => next A B X (fst s) (snd s) it) f1 (prescan A B X mac (f1 ++ f2), ue))) p = true.
Proof. exact (denoted_is_recognised_guarded A B X). Qed.
End C18.

(* file_self_use on a use tree of any shape and nesting: the paths it reports are exactly the names bound by the
   importing leaves (all of them), the remaining tree has exactly the other leaves and the globs, in order; nothing
   found -> nothing reported, tree untouched *)
Theorem C18_use_tracking : forall mac t, fsu_post mac t (fsu mac t).
Proof. exact fsu_spec. Qed.

(* ... and what is left of the import still compiles: `self` stays a direct member of a braced list
   (`use interthread::{self, actor};` becomes `use interthread::{self};`, never `use interthread::self;`) *)
Theorem C18_remaining_import_valid : forall mac t b, self_valid b t = true ->
  match snd (fsu mac t) with Some t' => self_valid b t' = true | None => True end.
Proof. exact fsu_self_valid. Qed.

(* the pass of one macro never removes an import of another one: `use interthread::*` and `interthread::{actor, family}`
   still import `family` after the `actor` pass *)
Theorem C18_other_macro_import_kept : forall mac1 mac2 t, (mac2 =? mac1)%string = false ->
  filter (imports_mac mac2) (oleaves (snd (fsu mac1 t))) = filter (imports_mac mac2) (leaves t).
Proof. exact fsu_keeps_other_macro. Qed.

(* `is` after the use items seen so far: the full path (with or without leading `::`), any imported name, or the macro
   name behind any recorded alias of the crate *)
Theorem C18_is_exact : forall mac uses p,
  is_mac (track mac uses) p = true <->
  segs p = [INTERTHREAD; mac] \/ (lead p = false /\ exists n, In n (vis_binds mac (flat_map leaves uses)) /\ segs p = [n])
  \/ (lead p = false /\ exists a, In a (flat_map (aliases mac) uses) /\ segs p = [a; mac]).
Proof. exact is_exact. Qed.

(* what `is` accepts denotes the macro (the recorded names are genuine imports, the recorded aliases genuine aliases) ... *)
Theorem C18_is_sound : forall mac uses p, well_imported mac uses = true -> well_aliased mac uses = true ->
  is_mac (track mac uses) p = true -> denotes mac uses p = true.
Proof. exact is_sound. Qed.

(* ... and everything that denotes the macro is accepted, crate-alias paths included *)
Theorem C18_is_complete : forall mac uses p, (mac =? INTERTHREAD)%string = false -> (mac =? "self")%string = false ->
  denotes mac uses p = true -> is_mac (track mac uses) p = true.
Proof. exact is_complete. Qed.

(* the former guarded statement (any macro name, non-alias paths) *)
Theorem C18_is_complete_guarded : forall mac uses p,
  alias_path p = false -> denotes mac uses p = true -> is_mac (track mac uses) p = true.
Proof. exact is_complete_guarded. Qed.

Theorem C18_abs_path : forall mac uses, is_mac (track mac uses) (ap true [INTERTHREAD; mac]) = true.
Proof. exact is_abs_path. Qed.

Theorem C18_every_import : forall mac uses n, In n (mac_names mac (flat_map leaves uses)) ->
  is_mac (track mac uses) (ap false [n]) = true.
Proof. exact is_every_import. Qed.

Theorem C18_every_alias : forall mac uses a, (mac =? INTERTHREAD)%string = false -> (mac =? "self")%string = false ->
  In a (crate_aliases (flat_map leaves uses)) -> is_mac (track mac uses) (ap false [a; mac]) = true.
Proof. exact is_every_alias. Qed.

(* use interthread as it;  and  use interthread::{self as it};  : `it::actor` is recognised (was: C18_crate_alias_refuted, same
   witness for the first), `it::family` (in the actor pass) and `::it::actor` are not; the import stays in the tree *)
Theorem C18_crate_alias_fixed :
  let p := ap false ["it"; "actor"] in
  let uses1 := [URename "interthread" "it"] in
  let uses2 := [UPath "interthread" (UGroup [URename "self" "it"])] in
  alias_path p = true
  /\ (well_imported "actor" uses1 = true /\ well_aliased "actor" uses1 = true /\ denotes "actor" uses1 p = true
      /\ is_mac (track "actor" uses1) p = true
      /\ is_mac (track "actor" uses1) (ap false ["it"; "family"]) = false
      /\ is_mac (track "actor" uses1) (ap true ["it"; "actor"]) = false
      /\ snd (update (um_new "actor") (URename "interthread" "it")) = Some (URename "interthread" "it"))
  /\ (well_imported "actor" uses2 = true /\ well_aliased "actor" uses2 = true /\ denotes "actor" uses2 p = true
      /\ is_mac (track "actor" uses2) p = true
      /\ is_mac (track "actor" uses2) (ap false ["it"; "family"]) = false
      /\ is_mac (track "actor" uses2) (ap true ["it"; "actor"]) = false
      /\ snd (update (um_new "actor") (UPath "interthread" (UGroup [URename "self" "it"]))) = Some (UPath "interthread" (UGroup [URename "self" "it"]))).
Proof. exact is_crate_alias. Qed.

(* use interthread as it; #[it::actor] impl C : expanded, the import of the crate stays (was: C18_crate_alias_file_refuted, same witness) *)
Theorem C18_crate_alias_file_fixed :
  let file : list titem := [IUse [] (URename "interthread" "it"); IImpl [at_ false ["it"; "actor"] "a1"] "C"] in
  let p := ap false ["it"; "actor"] in
  denotes "actor" (all_uses file) p = true /\ alias_path p = true /\ has_annotated file p = true /\
  has_annotated (t_expand ["actor"] file) p = false /\
  t_expand ["actor"] file = [IUse [] (URename "interthread" "it"); IImpl [] "C"; IVerb "gen:actor:a1:C"].
Proof. exact crate_alias_file_fixed. Qed.

(* nothing outside <cwd>/examples/<dir> is created, changed or deleted (<cwd>/examples may be created), whatever
   the tree was, whether or not the directories existed, with or without main.rs *)
Theorem C18_fs_footprint : forall cwd dir fname pid e1 e2 m code mc (f : fs) q,
  let ex := cwd ++ ["examples"] in let d := ex ++ [dir] in
  q <> ex -> prefixb d q = false ->
  run_ops (example_ops cwd dir fname pid e1 e2 m code mc) f q = f q.
Proof. exact example_footprint. Qed.

Theorem C18_fs_examples_dir : forall cwd dir fname pid e1 e2 m code mc (f : fs),
  let ex := cwd ++ ["examples"] in
  run_ops (example_ops cwd dir fname pid e1 e2 m code mc) f ex = match f ex with None => if e1 then None else Some Dir | o => o end.
Proof. exact example_examples_dir. Qed.

Print Assumptions C18_shape.
Print Assumptions C18_shape_passes.
Print Assumptions C18_other_unchanged.
Print Assumptions C18_plain_impl_unchanged.
Print Assumptions C18_in_order.
Print Assumptions C18_attrs_stripped.
Print Assumptions C18_recognition_position_free.
Print Assumptions C18_denoted_is_recognised.
Print Assumptions C18_denoted_is_recognised_guarded.
Print Assumptions C18_use_tracking.
Print Assumptions C18_remaining_import_valid.
Print Assumptions C18_other_macro_import_kept.
Print Assumptions C18_is_exact.
Print Assumptions C18_is_sound.
Print Assumptions C18_is_complete.
Print Assumptions C18_is_complete_guarded.
Print Assumptions C18_abs_path.
Print Assumptions C18_every_import.
Print Assumptions C18_every_alias.
Print Assumptions C18_crate_alias_fixed.
Print Assumptions C18_crate_alias_file_fixed.
Print Assumptions C18_fs_footprint.
Print Assumptions C18_fs_examples_dir.
